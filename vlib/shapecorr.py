"""Correspondence of coq/Model/PyShape.v with the implementation: the block skeleton of
ast.parse(transpile(src)) (Python's own parser) must equal `shape_program`, and
`py_wf` must agree with compile()'s verdict, for every case."""
from __future__ import annotations

import warnings

warnings.simplefilter("ignore")

import ast

from . import common as V

PREAMBLE = ("From Coq Require Import List NArith ZArith Bool.\n"
            "From Vy Require Import Model.Base Model.Lexer Model.Parser Model.Transpile Model.PyTree Model.PyShape.\nImport ListNotations.\n"
            "Definition vy_shape_ok (s : list N) (parsed compiles : bool) (expected : list pyn) : bool :=\n"
            "  match shape_source s with\n"
            "  | Some sh => (if parsed then pyn_list_eqb sh expected else true) && Bool.eqb (py_wf sh) compiles\n"
            "  | None => false end.\n")
CHECKER = "fun c => match c with (s, parsed, compiles, expected) => vy_shape_ok s parsed compiles expected end"


def impl_shape(src):
    import gen_tables
    from vyxal.transpile import transpile
    try:
        code = transpile(src, False)
    except (IndexError, ValueError, AssertionError):
        return None
    try:
        tree = ast.parse(code)
        shape = gen_tables.py_shape_list(tree.body)
        parsed = True
    except SyntaxError as e:
        msg = str(e.msg)
        if "truncated" in msg or "malformed" in msg or "unicodeescape" in msg or "unknown Unicode character" in msg:
            # a lexical error INSIDE a string literal (incomplete Python escape written in a
            # Vyxal string): outside the block-structure model, judged by C02's oracle only
            return None
        shape, parsed = "[]", False
    except gen_tables.TranslatorError:
        return None
    try:
        compile(code, "<vy>", "exec")
        compiles = True
    except SyntaxError:
        compiles = False
    return (parsed, compiles, shape)


def check(env, sources, name="shape", shard=400):
    V.import_repo()
    sources = list(dict.fromkeys(sources))
    res = V.pmap(impl_shape, sources, timeout=20)
    cases = [(s, r) for s, (st, r) in zip(sources, res) if st == "ok" and r is not None]
    b = lambda x: "true" if x else "false"  # noqa: E731
    ok, bad, logs = env.coq_mismatches(
        name, PREAMBLE,
        lambda lo, hi: "[" + ";\n".join(f"({V.cstr(s)}, {b(r[0])}, {b(r[1])}, {r[2]})" for s, r in cases[lo:hi]) + "]",
        CHECKER, len(cases), shard=shard,
    )
    if not ok:
        env.proof_broken("shape correspondence cases failed to evaluate in Coq", logs)
    for i in bad:
        s, r = cases[i]
        env.disagree("py-shape", {"source": s}, "(model shape / py_wf differs)", {"parsed": r[0], "compiles": r[1], "shape": r[2][:300]})
    env.count(len(cases), (f"shape:{s}" for s, r in cases if "NBlock" in r[2]))
    env.note("shape_cases", env.coverage_extra.get("shape_cases", 0) + len(cases))
    env.note("shape_cases_not_compiling", env.coverage_extra.get("shape_cases_not_compiling", 0) + sum(1 for _, r in cases if not r[1]))
    return {s: r for s, r in cases}, [cases[i][0] for i in bad]
