"""Correspondence of coq/Model/Layout.v (Coq's own reading of the indentation-based block
structure of the emitted Python, `accepts`) with Python's compile():

* for every source the IMPLEMENTATION's emitted text (dict_compress False, and True when
  that text differs) is embedded in a Coq case together with the verdict of
  compile(text, "<x>", "exec"); Coq evaluates `accepts text` and compares.  Texts whose only
  defect is a lexical error inside a string literal (incomplete Python escape, the known
  class C02-invalid-python-escape-in-string) are outside the block model and skipped.
* a stream of MUTATED emitted texts (one line deleted, one line moved by 4 columns, a stray
  break / continue / return / else: line inserted) whose verdict is again Python's; kept only
  when Python accepts or rejects for a STRUCTURAL reason (IndentationError, break / continue
  outside a loop, return outside a function, a misplaced else) so that both verdicts of
  `accepts` are exercised on inputs the transpiler never produces.

All random choices come from env.rng."""
from __future__ import annotations

import ast
import hashlib
import warnings

warnings.simplefilter("ignore")

from . import common as V
from . import transcorr

PREAMBLE = ("From Coq Require Import List NArith ZArith Bool.\n"
            "From Vy Require Import Model.Base Model.Transpile Model.PyTree Model.Layout.\nImport ListNotations.\n")
CHECKER = "fun c => match c with (text, v) => Bool.eqb (accepts text) v end"

LEXICAL = ("truncated", "malformed", "unicodeescape", "unknown Unicode character")
# carriage returns in strings: raw (escaped by the transpiler since /repo 54dfdca) and directly after a
# backslash (passed through as a pair; textwrap.indent also splits there and indents inside the literal)
CR_SOURCES = ["`a\rb`", "3(`a\rb`)", "`a\\\rb`", "3(`a\\\rb`)", "3(λ`\\\r `;)", "‛\\\r", "3(‛\\\r)"]

STRUCTURAL_MSG = ("'break' outside loop", "'continue' not properly in loop", "'return' outside function")


def verdict(text):
    """(compiles, reason) ; reason is a short class string"""
    try:
        compile(text, "<x>", "exec")
        return True, "ok"
    except IndentationError as e:           # before SyntaxError: it is a subclass
        return False, "IndentationError:" + str(e.msg).split(" after ")[0][:50]
    except SyntaxError as e:
        msg = str(e.msg)
        if any(k in msg for k in LEXICAL):
            return False, "lexical-in-string"
        if msg in STRUCTURAL_MSG:
            return False, msg
        line = (text.split("\n")[e.lineno - 1] if e.lineno and 0 < e.lineno <= text.count("\n") + 1 else "").strip()
        if msg == "invalid syntax" and (line.startswith("else:") or line.startswith("elif ")):
            return False, "invalid else"
        return False, "other:" + msg[:50]
    except ValueError as e:                 # null bytes
        return False, "other:" + str(e)[:40]


def impl_texts(src):
    """[(dict_compress, text)] of the implementation, [] when the program is ill-formed"""
    from vyxal.lexer import tokenise
    from vyxal.parse import parse
    from vyxal.transpile import transpile_ast
    try:
        tree = parse(tokenise(src))
    except (IndexError, ValueError, AssertionError):
        return []
    out = []
    for dc in (False, True):
        try:
            out.append((dc, transcorr.normalise(transpile_ast(tree, dict_compress=dc))))
        except Exception:  # noqa: BLE001   (judged by C02's oracle)
            pass
    if len(out) == 2 and out[0][1] == out[1][1]:
        out.pop()
    return out


def has_loop_else(text):
    try:
        tree = ast.parse(text)
    except SyntaxError:
        return False
    return any(isinstance(n, (ast.For, ast.While)) and n.orelse for n in ast.walk(tree))


def mutate(rng, text):
    """one mutated text and the kind of mutation"""
    lines = text.split("\n")
    idx = [i for i, l in enumerate(lines) if l.strip()]
    if not idx:
        return None
    kind = rng.choice(["delete", "dedent", "indent", "break", "continue", "return", "else"])
    i = rng.choice(idx)
    if kind == "delete":
        del lines[i]
    elif kind == "dedent":
        if not lines[i].startswith("    "):
            return None
        lines[i] = lines[i][4:]
    elif kind == "indent":
        lines[i] = "    " + lines[i]
    else:
        ind = len(lines[i]) - len(lines[i].lstrip(" "))
        ind = rng.choice([ind, ind, max(0, ind - 4), ind + 4])
        word = {"break": "break", "continue": "continue", "return": "return", "else": "else:"}[kind]
        pos = i if rng.random() < 0.5 else i + 1
        lines.insert(pos, " " * ind + word)
        if kind == "else" and rng.random() < 0.7:
            lines.insert(pos + 1, " " * (ind + 4) + "pass")
    return kind, "\n".join(lines)


def check(env, sources, name="layout", shard=150, n_impl=None, n_mut=None):
    V.import_repo()
    rng = env.rng
    sources = list(dict.fromkeys(CR_SOURCES + list(sources)))
    n_impl = n_impl or env.budget(600, 5000)
    n_mut = n_mut or env.budget(500, 4000)
    if len(sources) > n_impl:
        # the leading sources are the hand-picked seeds (kept); sample the rest
        keep = sources[:60 + len(CR_SOURCES)]
        sources = keep + rng.sample(sources[len(keep):], n_impl - len(keep))
    res = V.pmap(impl_texts, sources, timeout=20)
    cases = []          # (origin, text, compiles, reason)
    dist = {}
    seen = set()
    pool = []
    for s, (st, r) in zip(sources, res):
        if st != "ok":
            continue
        for dc, text in r:
            if text in seen or len(text) > 6000:
                continue
            seen.add(text)
            ok, why = verdict(text)
            key = "impl:" + ("ok" if ok else why.split(":")[0])
            dist[key] = dist.get(key, 0) + 1
            if why == "lexical-in-string":
                continue
            cases.append(({"source": s, "dict_compress": dc}, text, ok, why))
            if ok and text.count("\n") >= 4:
                pool.append((s, text))
    n_impl_cases = len(cases)
    tries = 0
    n_m = 0
    while pool and n_m < n_mut and tries < 20 * n_mut:
        tries += 1
        s, text = rng.choice(pool)
        m = mutate(rng, text)
        if m is None:
            continue
        kind, mt = m
        if mt in seen:
            continue
        seen.add(mt)
        ok, why = verdict(mt)
        structural = ok or why.startswith("IndentationError") or why in STRUCTURAL_MSG or why == "invalid else"
        if ok and has_loop_else(mt):
            structural = False
            why = "loop-else"
        key = f"mut:{kind}:" + ("ok" if ok and structural else why.split(":")[0]) + ("" if structural else ":excluded")
        dist[key] = dist.get(key, 0) + 1
        if not structural:
            continue
        cases.append(({"mutation": kind, "of_source": s}, mt, ok, why))
        n_m += 1
    b = lambda x: "true" if x else "false"  # noqa: E731
    ok_all, bad, logs = env.coq_mismatches(
        name, PREAMBLE,
        lambda lo, hi: "[" + ";\n".join(f"({V.cstr(t)}, {b(v)})" for _, t, v, _ in cases[lo:hi]) + "]",
        CHECKER, len(cases), shard=shard,
    )
    if not ok_all:
        env.proof_broken("layout correspondence cases failed to evaluate in Coq", logs)
    for i in bad:
        origin, text, v, why = cases[i]
        env.disagree("layout", origin, f"accepts = {not v}", {"compile": v, "reason": why, "text": text[:600]})
    env.count(len(cases), (f"layout:{hashlib.md5(t.encode()).hexdigest()[:12]}" for _, t, v, _ in cases if "\n    " in t))
    env.note("layout_cases", {"implementation_texts": n_impl_cases, "mutated_texts": len(cases) - n_impl_cases,
                              "python_rejects": sum(1 for c in cases if not c[2])})
    env.note("layout_verdict_distribution", dict(sorted(dist.items())))
    return [cases[i][0] for i in bad]
