"""Correspondence of coq/Model/Books.v with the implementation: the canonical effect tree
(pushes / pops of the four bookkeeping lists, jumps, enclosing blocks) extracted from
ast.parse(transpile(src)) by Python's own parser must equal `effects_source`, and whenever
the model calls a program balanced a terminating run must come back to the initial depths."""
from __future__ import annotations

import ast
import warnings

from . import common as V

warnings.simplefilter("ignore")

BOOKS = {"context_values": 0, "inputs": 1, "stacks": 2, "function_stack": 3}

PREAMBLE = ("From Coq Require Import List NArith ZArith Bool.\n"
            "From Vy Require Import Model.Base Model.Lexer Model.Parser Model.PyTree Model.Books.\nImport ListNotations.\n"
            "Definition vy_books_ok (s : list N) (expected : list enode) (observed : nat) : bool :=\n"
            "  match effects_source s, balanced_source s with\n"
            "  | Some e, Some b => enode_list_eqb e expected && (negb b || negb (Nat.eqb observed 1))\n"
            "  | _, _ => false end.\n")
CHECKER = "fun c => match c with (s, e, o) => vy_books_ok s e o end"


class Unmodelled(Exception):
    pass


def stmt_effects(st):
    """push/pop effects of one simple statement, in evaluation order"""
    out = []
    for n in ast.walk(st):
        if isinstance(n, ast.Call) and isinstance(n.func, ast.Attribute):
            v = n.func.value
            if isinstance(v, ast.Attribute) and v.attr in BOOKS and isinstance(v.value, ast.Name) and v.value.id == "ctx":
                if n.func.attr == "append":
                    out.append(f"EPush {BOOKS[v.attr]}")
                elif n.func.attr == "pop" and not n.args:
                    out.append(f"EPop {BOOKS[v.attr]}")
                else:
                    raise Unmodelled(f"ctx.{v.attr}.{n.func.attr}")
        if isinstance(n, (ast.Assign, ast.AugAssign, ast.Delete)):
            for t in (n.targets if not isinstance(n, ast.AugAssign) else [n.target]):
                if isinstance(t, ast.Attribute) and t.attr in BOOKS:
                    raise Unmodelled(f"rebinding ctx.{t.attr}")
    return out


def effects(nodes):
    out = []
    for n in nodes:
        if isinstance(n, (ast.FunctionDef,)):
            out += block("BDef", n.body)
        elif isinstance(n, (ast.For, ast.While)):
            out += block("BLoop", n.body)
            if n.orelse:
                out += block("BElse", n.orelse)
        elif isinstance(n, ast.If):
            out += block("BIf", n.body)
            if n.orelse:
                out += block("BElse", n.orelse)
        elif isinstance(n, ast.Break):
            out.append("EBreak")
        elif isinstance(n, ast.Continue):
            out.append("EContinue")
        elif isinstance(n, ast.Return):
            out += stmt_effects(n)
            out.append("EReturn")
        elif isinstance(n, (ast.With, ast.Try, ast.ClassDef)):
            raise Unmodelled(type(n).__name__)
        else:
            out += stmt_effects(n)
    return out


def block(kind, body):
    inner = effects(body)
    return [f"EBlock {kind} [{'; '.join(wrap(x) for x in inner)}]"] if inner else []


def wrap(x):
    return f"({x})" if " " in x else x


def impl_effects(src):
    from vyxal.transpile import transpile
    try:
        code = transpile(src, False)
    except (IndexError, ValueError, AssertionError):
        return None
    try:
        tree = ast.parse(code)
    except SyntaxError:
        return None
    try:
        eff = effects(tree.body)
    except Unmodelled as e:
        return ("unmodelled", str(e))
    return ("ok", "[" + "; ".join(wrap(x) for x in eff) + "]")


def impl_depths(item):
    """0 = did not finish normally, 1 = finished with changed depths, 2 = finished balanced"""
    src, inputs = item
    from . import runprog
    r = runprog.run(src, inputs)
    if r["error"] is not None or r["depths"] is None:
        return (0, r["error"], r["depths"])
    return (2 if r["depths"] == [1, 1, 2, 0] else 1, None, r["depths"])


def check(env, sources, inputs=("3", "4"), name="books", shard=300, run_timeout=5, run_only=None):
    V.import_repo()
    sources = list(dict.fromkeys(sources))
    eff = V.pmap(impl_effects, sources, timeout=20)
    runset = set(sources if run_only is None else run_only)
    to_run = [s for s in sources if s in runset]
    ran = dict(zip(to_run, V.pmap(impl_depths, [(s, list(inputs)) for s in to_run], timeout=run_timeout)))
    runs = [ran.get(s, ("skipped", None)) for s in sources]
    cases = []
    dist = {"finished_balanced": 0, "finished_unbalanced": 0, "not_finished": 0, "timeout": 0}
    for s, (st, e), (rst, r) in zip(sources, eff, runs):
        if st != "ok" or e is None:
            continue
        if e[0] == "unmodelled":
            env.proof_broken("emitted code mutates a bookkeeping list in a way outside the model", f"{s!r}: {e[1]}")
            continue
        obs = 0
        if rst == "ok":
            obs = r[0]
            dist[["not_finished", "finished_unbalanced", "finished_balanced"][obs]] += 1
        elif rst != "skipped":
            dist["timeout"] += 1
        cases.append((s, e[1], obs, r if rst == "ok" else None))
    ok, bad, logs = env.coq_mismatches(
        name, PREAMBLE, lambda lo, hi: "[" + ";\n".join(f"({V.cstr(s)}, {e}, {o}%nat)" for s, e, o, _ in cases[lo:hi]) + "]",
        CHECKER, len(cases), shard=shard)
    if not ok:
        env.proof_broken("books correspondence cases failed to evaluate in Coq", logs)
    for i in bad:
        s, e, o, r = cases[i]
        env.disagree("books", {"source": s}, "(model effect tree differs, or model says balanced but the run is not)", {"effects": e[:300], "observed": o, "run": r})
    env.count(len(cases), (f"books:{s}" for s, e, o, _ in cases if e != "[]"))
    for k, v in dist.items():
        env.note("books_runs_" + k, env.coverage_extra.get("books_runs_" + k, 0) + v)
    env.note("books_cases", env.coverage_extra.get("books_cases", 0) + len(cases))
    return cases, [cases[i][0] for i in bad]
