"""Correspondence of coq/Model/Parser.v (+ Lexer.v) with vyxal.parse.parse ∘
vyxal.lexer.tokenise: the implementation's structure tree is flattened by `encode`
(the mirror of Parser.enc) and compared inside Coq with the model's own encoding."""
from __future__ import annotations

import itertools

from . import common as V

KCODE = {"string": 1, "number": 2, "character": 3, "general": 4, "compressed_number": 5,
         "compressed_string": 6, "variable_get": 7, "variable_set": 8, "codepage_number": 9}
PCODE = {None: 0, "IfStatement": 1, "ForLoop": 2, "WhileLoop": 3, "FunctionCall": 4, "Lambda": 5,
         "LambdaMap": 6, "LambdaFilter": 7, "LambdaSort": 8, "ListLiteral": 9,
         "MonadicModifier": 10, "DyadicModifier": 11, "TriadicModifier": 12}
LAMOP = {"LambdaMap": 1, "LambdaFilter": 2, "LambdaSort": 3}
ERR = {"IndexError": 1, "ValueError": 2, "AssertionError": 3}

STRUCT_ALPHABET = ["[", "(", "{", "λ", "⟨", "@", "|", ";", "]", ")", "⟩", "X", "v", "1"]

PREAMBLE = ("From Coq Require Import List NArith ZArith Bool.\nFrom Vy Require Import Model.Base Model.Lexer Model.Parser.\n"
            "Import ListNotations.\n")
CHECKER = "fun c => match c with (s, e) => zlist_eqb (enc_res (parse_source s)) e end"


def enc_str(s):
    return [len(s)] + [ord(c) for c in s]


def enc_tok(t):
    return [KCODE[t.name.value]] + enc_str(t.value)


def enc_list(l):
    out = [len(l)]
    for x in l:
        out += encode(x)
    return out


def encode(s):
    from vyxal import structure as S
    from vyxal.lexer import Token
    if isinstance(s, Token):  # the default while condition is a bare token
        return [1] + enc_tok(s)
    n = type(s).__name__
    if n == "GenericStatement":
        return [1] + enc_tok(s.branches[0][0])
    if n == "BreakStatement":
        p = s.parent_structure
        return [2, PCODE[p.__name__ if p is not None else None]]
    if n == "RecurseStatement":
        p = s.parent_structure
        return [3, PCODE[p.__name__ if p is not None else None]]
    if n == "IfStatement":
        out = [4, len(s.branches)]
        for b in s.branches:
            out += enc_list(b)
        return out
    if n == "ForLoop":
        out = [5, len(s.names)]
        for nm in s.names:
            out += enc_str(nm)
        return out + enc_list(s.body)
    if n == "WhileLoop":
        return [6] + enc_list(s.condition) + enc_list(s.body)
    if n == "FunctionCall":
        return [7] + enc_str(s.name)
    if n == "FunctionDef":
        out = [8] + enc_str(s.name) + [len(s.parameters)]
        for p in s.parameters:
            out += enc_str(p)
        return out + enc_list(s.body)
    if n == "Lambda":
        return [9, -1 if s.arity == "default" else int(s.arity)] + enc_list(s.body)
    if n in LAMOP:
        return [10, LAMOP[n]] + enc_list(s.lam.body)
    if n == "ListLiteral":
        out = [11, len(s.items)]
        for b in s.items:
            out += enc_list(b)
        return out
    if n == "MonadicModifier":
        return [12, ord(s.modifier)] + encode(s.function_A)
    if n == "DyadicModifier":
        return [13, ord(s.modifier)] + encode(s.function_A) + encode(s.function_B)
    if n == "TriadicModifier":
        return [14, ord(s.modifier)] + encode(s.function_A) + encode(s.function_B) + encode(s.function_C)
    raise ValueError("unknown structure " + n)


def impl_parse(src):
    from vyxal.lexer import tokenise
    from vyxal.parse import parse
    try:
        return [0] + enc_list(parse(tokenise(src)))
    except (IndexError, ValueError, AssertionError) as e:
        return [1, ERR[type(e).__name__]]


def case_coq(src, enc):
    return f"({V.cstr(src)}, [" + "; ".join(str(x) for x in enc) + "]%Z)"


def exhaustive(max_len, alphabet=STRUCT_ALPHABET):
    for n in range(0, max_len + 1):
        for tup in itertools.product(alphabet, repeat=n):
            yield "".join(tup)


def check(env, sources, name="parse", shard=1500):
    V.import_repo()
    sources = list(dict.fromkeys(sources))
    res = V.pmap(impl_parse, sources, timeout=10)
    cases = []
    for s, (st, enc) in zip(sources, res):
        if st != "ok":
            # RecursionError / other exception classes are outside the model
            env.note("parser_impl_exceptions", env.coverage_extra.get("parser_impl_exceptions", 0) + 1)
            continue
        cases.append((s, enc))
    ok, bad, logs = env.coq_mismatches(
        name, PREAMBLE, lambda lo, hi: "[" + ";\n".join(case_coq(*c) for c in cases[lo:hi]) + "]", CHECKER, len(cases), shard=shard,
    )
    if not ok:
        env.proof_broken("parser correspondence cases failed to evaluate in Coq", logs)
    for i in bad:
        env.disagree("parser", {"source": cases[i][0]}, "(model disagrees)", cases[i][1])
    errs = sum(1 for _, e in cases if e[0] == 1)
    env.count(len(cases), (f"parse:{s}" for s, e in cases if e[0] == 0 and len(e) > 3))
    env.note("parser_cases", env.coverage_extra.get("parser_cases", 0) + len(cases))
    env.note("parser_error_cases", env.coverage_extra.get("parser_error_cases", 0) + errs)
    return [cases[i][0] for i in bad]
