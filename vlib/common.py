"""Shared machinery of the checks: paths, translator + Coq build, evaluation of
the model inside Coq, implementation-side helpers, known findings, evidence,
verdict.  Standard library only."""
from __future__ import annotations

import fcntl
import hashlib
import json
import multiprocessing
import os
import random
import re
import signal
import subprocess
import sys
import time
import traceback

ROOT = os.path.dirname(os.path.dirname(os.path.abspath(__file__)))
REPO = os.environ.get("VERIF_REPO", "/repo")
COQ = os.path.join(ROOT, "coq")
GEN = os.path.join(COQ, "Gen")
BUILD = os.path.join(ROOT, "build")
EVIDENCE = os.path.join(ROOT, "evidence")
REPLAYS = os.path.join(ROOT, "replays")
CORPUS = os.path.join(ROOT, "corpus")
NPROC = int(os.environ.get("VERIF_NPROC", "16"))

sys.path.insert(0, os.path.join(ROOT, "tools"))

TRUSTED_BASE = [
    "Coq 8.16.1 kernel (coqc); vm_compute used for finite table sweeps and for evaluating the model on correspondence cases; no native_compute",
    "Coq standard library only; no axioms declared by this development (Print Assumptions output recorded per run)",
    "translator tools/gen_tables.py (+ per-property generators) reading /repo with Python's ast; fail-closed",
    "correspondence harness (generators, canonicalisation, comparison evaluated inside Coq) under vlib/ and props/",
    "CPython 3.12 / sympy 1.14 executing /repo (the implementation side of every comparison)",
]


# ----------------------------------------------------------------------------
# small utilities
# ----------------------------------------------------------------------------

def log(*a):
    print(*a, file=sys.stderr, flush=True)


def sh(cmd, timeout=None, cwd=None, env=None, input=None):
    """Run a command; returns (rc, combined output).  rc = 124 on timeout."""
    try:
        p = subprocess.run(
            cmd, cwd=cwd, env=env, input=input, timeout=timeout,
            stdout=subprocess.PIPE, stderr=subprocess.STDOUT, text=True,
            shell=isinstance(cmd, str),
        )
        return p.returncode, p.stdout
    except subprocess.TimeoutExpired as e:
        out = e.stdout.decode() if isinstance(e.stdout, bytes) else (e.stdout or "")
        return 124, out + "\n[timeout]"


class _Lock:
    """exclusive for regenerate + make; shared while scratch files are evaluated against the
    compiled project, so that a concurrent check cannot rebuild the .vo files underneath"""

    def __init__(self, name, shared=False):
        os.makedirs(BUILD, exist_ok=True)
        self.path = os.path.join(BUILD, name)
        self.shared = shared

    def __enter__(self):
        self.f = open(self.path, "a")
        fcntl.flock(self.f, fcntl.LOCK_SH if self.shared else fcntl.LOCK_EX)
        return self

    def __exit__(self, *a):
        fcntl.flock(self.f, fcntl.LOCK_UN)
        self.f.close()


def cstr(s: str) -> str:
    """Python str -> Coq `list N` literal (code points)."""
    if not s:
        return "([] : list N)"
    return "[" + "; ".join(str(ord(c)) for c in s) + "]%N"


def cZ(n: int) -> str:
    return f"({n})%Z"


def clist(items, ty=None) -> str:
    items = list(items)
    if not items:
        return "[]" if ty is None else f"([] : list {ty})"
    return "[" + "; ".join(items) + "]"


# ----------------------------------------------------------------------------
# translator + Coq build
# ----------------------------------------------------------------------------

GEN_MODULE_FILES = {"gen_dispatch": "Dispatch", "gen_sinks": "Sinks", "gen_mutation": "Mutation",
                    "gen_quirks": "StackTemplates", "gen_books": "BookFacts"}


def regenerate():
    """Regenerate coq/Gen from REPO's working tree.  Returns (ok, message, tables).
    tables["_failed"] maps each translator section that could not read the source to the
    reason; such a section keeps its last readable output (see gen_tables.generate)."""
    import gen_tables

    try:
        tables, changed = gen_tables.generate(REPO, GEN)
        failed = tables["_failed"]
        import gen_known
        extra = gen_known.generate(ROOT, GEN)
        # per-property generators register themselves here
        for modname in ("gen_dispatch", "gen_sinks", "gen_mutation", "gen_quirks", "gen_books"):
            try:
                mod = __import__(modname)
            except ImportError:
                continue
            try:
                tables[modname], ch = mod.generate(REPO, GEN)
                extra += ch
            except Exception as e:  # noqa: BLE001
                msg = str(e) if isinstance(e, gen_tables.TranslatorError) else f"crashed: {type(e).__name__}: {e}"
                if not os.path.exists(os.path.join(GEN, GEN_MODULE_FILES[modname] + ".v")):
                    raise gen_tables.TranslatorError(f"{modname}: {msg} (and no earlier output to fall back on)")
                failed[modname] = msg
                tables[modname] = None
        note = f"regenerated (changed: {changed + extra})"
        if failed:
            note += "; UNREADABLE sections kept from the last readable tree: " + "; ".join(f"{k}: {v}" for k, v in failed.items())
        return True, note, tables
    except gen_tables.TranslatorError as e:
        return False, f"translator (fail-closed): {e}", None
    except Exception as e:  # the source no longer parses, a file is missing, ...
        return False, f"translator crashed: {type(e).__name__}: {e}", None


def section_owns(section, module, const):
    import gen_tables
    if section in gen_tables.SECTION_OWNS:
        return gen_tables.SECTION_OWNS[section](module, const)
    return GEN_MODULE_FILES.get(section) == module


GEN_MODULES = ("Codepage", "ParserConsts", "Elements", "Yaml", "TemplateShapes", "Known",
               "Dispatch", "Sinks", "Mutation", "StackTemplates", "BookFacts")


def theorem_gen_dependencies(prop):
    """For each statement of Properties/<prop>.v, the constants of coq/Gen its proof term
    depends on (Coq's own `Print All Dependencies`).  Returns {theorem: set((module, const))}
    or None when Coq cannot be asked."""
    src = os.path.join(COQ, "Properties", prop + ".v")
    with open(src, encoding="utf-8") as f:
        names = re.findall(r"^\s*(?:Theorem|Lemma|Corollary|Example)\s+([A-Za-z_][A-Za-z_0-9']*)", f.read(), re.M)
    os.makedirs(BUILD, exist_ok=True)
    deps = {}
    for nm in names:
        path = os.path.join(BUILD, f"deps_{prop}_{os.getpid()}.v")
        with open(path, "w", encoding="utf-8") as f:
            f.write(f"From Vy Require Import Properties.{prop}.\nPrint All Dependencies {nm}.\n")
        rc, out = sh(["coqc", "-q", "-Q", COQ, "Vy", path], timeout=600, cwd=BUILD)
        for ext in (".v", ".vo", ".vok", ".vos", ".glob"):
            try:
                os.remove(path[:-2] + ext)
            except OSError:
                pass
        if rc != 0:
            return None
        found = set()
        for m in re.finditer(r"^(?:Vy\.Gen\.)?([A-Z][A-Za-z]*)\.([A-Za-z_][A-Za-z_0-9']*) :", out, re.M):
            if m.group(1) in GEN_MODULES:
                found.add((m.group(1), m.group(2)))
        deps[nm] = found
    return deps


def _project_files():
    files = []
    with open(os.path.join(COQ, "_CoqProject")) as f:
        for line in f:
            line = line.strip()
            if line.endswith(".v"):
                files.append(line)
    return files


def coq_makefile():
    """_CoqProject lists every .v under Model/ Gen/ Proofs/ Properties/ (sorted; coqdep
    orders the build); it and the Makefile are rewritten only when the set changes."""
    files = []
    for sub in ("Model", "Gen", "Proofs", "Properties"):
        d = os.path.join(COQ, sub)
        if os.path.isdir(d):
            files += sorted(f"{sub}/{f}" for f in os.listdir(d) if f.endswith(".v") and not f.startswith("."))
    text = "-Q . Vy\n-arg -w -arg -notation-overridden,-deprecated-hint-without-locality\n" + "\n".join(files) + "\n"
    proj = os.path.join(COQ, "_CoqProject")
    mk = os.path.join(COQ, "Makefile")
    old = open(proj).read() if os.path.exists(proj) else None
    if old != text or not os.path.exists(mk):
        with open(proj, "w") as f:
            f.write(text)
        rc, out = sh(["coq_makefile", "-f", "_CoqProject", "-o", "Makefile"], cwd=COQ, timeout=120)
        if rc != 0:
            raise RuntimeError("coq_makefile failed: " + out)


def coq_make(targets=None, timeout=2400):
    """Full .vo build (never -vos) of the given targets (default: all)."""
    coq_makefile()
    cmd = ["make", f"-j{NPROC}"] + (targets or [])
    rc, out = sh(cmd, cwd=COQ, timeout=timeout)
    return rc == 0, out


def coqc_file(path, timeout=900):
    """Compile one file of the project (after its dependencies), capturing stdout."""
    rc, out = sh(
        ["coqc", "-q", "-Q", ".", "Vy", "-w", "-notation-overridden,-deprecated-hint-without-locality", path],
        cwd=COQ, timeout=timeout,
    )
    return rc == 0, out


RUN_ID = os.getpid()   # of the check's main process (pool workers are forked from it)


def scratch_dir(prop):
    """Case files of this run: one directory per running check, so that two runs of the same
    property (two tiers, or a builder testing a change) never overwrite each other's cases."""
    return os.path.join(BUILD, f"{prop}.{RUN_ID}")


def coq_eval(prop, name, text, timeout=900):
    """Compile a scratch .v (correspondence cases) against the built project.
    Returns (ok, stdout)."""
    d = scratch_dir(prop)
    os.makedirs(d, exist_ok=True)
    path = os.path.join(d, name + ".v")
    with open(path, "w", encoding="utf-8") as f:
        f.write(text)
    rc, out = sh(
        ["coqc", "-q", "-Q", COQ, "Vy", "-Q", d, "Scratch", "-w", "-notation-overridden,-deprecated-hint-without-locality", path],
        cwd=d, timeout=timeout,
    )
    for ext in (".vo", ".vok", ".vos", ".glob"):
        try:
            os.remove(os.path.join(d, name + ext))
        except OSError:
            pass
    try:
        os.remove(os.path.join(d, "." + name + ".aux"))
    except OSError:
        pass
    return rc == 0, out


def coq_eval_many(prop, files, timeout=900):
    """files: list of (name, text).  Compiled in parallel.  Returns list of (ok, out)."""
    if not files:
        return []
    with _Lock("coq.lock", shared=True):
        with multiprocessing.get_context("fork").Pool(min(NPROC, len(files))) as pool:
            return pool.starmap(coq_eval, [(prop, n, t, timeout) for n, t in files])


_NATLIST = re.compile(r"=\s*\[([^\]]*)\]\s*:\s*list nat", re.S)


def parse_nat_list(out):
    """Parse the single `= [..] : list nat` answer printed by `Eval vm_compute in`."""
    m = _NATLIST.search(out)
    if not m:
        return None
    body = m.group(1).strip()
    if not body:
        return []
    return [int(x.strip().replace("%nat", "")) for x in body.split(";")]


def parse_assumptions(out):
    """Split coqc output of a Properties file into per-theorem assumption reports."""
    closed = out.count("Closed under the global context")
    axioms = []
    for m in re.finditer(r"Axioms:\n((?:.+\n?)+?)(?:\n|\Z)", out):
        axioms.append(m.group(1).strip())
    return closed, axioms


# ----------------------------------------------------------------------------
# implementation side
# ----------------------------------------------------------------------------

def import_repo():
    """Make `import vyxal` resolve to REPO's working tree."""
    if sys.path[0] != REPO:
        sys.path.insert(0, REPO)
    for k in list(sys.modules):
        if k == "vyxal" or k.startswith("vyxal."):
            f = getattr(sys.modules[k], "__file__", "") or ""
            if not f.startswith(REPO):
                del sys.modules[k]


class Timeout(BaseException):
    """not an Exception: code under test that catches Exception must not swallow the watchdog"""


def _alarm(signum, frame):
    raise Timeout()


def _guarded_inner(fn, item, tmo):
    signal.signal(signal.SIGALRM, _alarm)
    # repeating: if the first alarm is swallowed by a bare except the next one still ends the call
    signal.setitimer(signal.ITIMER_REAL, tmo, 0.5)
    try:
        return ("ok", fn(item))
    except Timeout:
        return ("timeout", None)
    except RecursionError:
        return ("exc", "RecursionError")
    except BaseException as e:  # noqa: BLE001  (SystemExit from `Q` included)
        return ("exc", type(e).__name__ + ": " + str(e)[:200])
    finally:
        signal.setitimer(signal.ITIMER_REAL, 0)


def _guarded(args):
    fn, item, tmo = args
    try:
        return _guarded_inner(fn, item, tmo)
    except Timeout:  # the alarm fired while the handler above was unwinding
        signal.setitimer(signal.ITIMER_REAL, 0)
        return ("timeout", None)


def _quiet_worker():
    """workers never talk on stdout: whatever a program under test prints outside the
    harness' own capture must not reach the check's output"""
    try:
        fd = os.open(os.devnull, os.O_WRONLY)
        os.dup2(fd, 1)
    except OSError:
        pass


def _pmap_worker(fn, items, idxs, conn, tmo):
    _quiet_worker()
    try:
        import resource
        resource.setrlimit(resource.RLIMIT_AS, (8 << 30, 8 << 30))   # a runaway case cannot eat the machine
    except Exception:  # noqa: BLE001
        pass
    batch = []
    last = time.time()
    for i in idxs:
        batch.append((i, _guarded((fn, items[i], tmo))))
        if len(batch) >= 64 or time.time() - last > 0.5:
            try:
                conn.send(batch)
            except BaseException:  # noqa: BLE001  (unpicklable result, MemoryError, ...)
                try:
                    conn.send([(j, ("exc", "worker could not deliver the result")) for j, _ in batch])
                except BaseException:  # noqa: BLE001
                    return
            batch = []
            last = time.time()
    try:
        if batch:
            conn.send(batch)
        conn.send(None)
    except BaseException:  # noqa: BLE001
        pass


def pmap(fn, items, timeout=10.0, procs=None, chunksize=None, hard=None):
    """Map a module-level function over items in forked workers.  Each call runs under a
    repeating alarm (soft timeout, raises a BaseException inside the worker); a call that
    blocks inside C code, where the alarm is not delivered, is ended by killing its worker
    after `hard` seconds (default 3*timeout + 15) and the worker's remaining items go to a
    fresh process.  Returns a list of (status, value), status ok | timeout | exc."""
    from multiprocessing.connection import wait
    items = list(items)
    n = len(items)
    if not n:
        return []
    procs = max(1, min(procs or NPROC, n))
    hard = hard or (3 * timeout + 15)
    if procs == 1 and n < 4:
        return [_guarded((fn, it, timeout)) for it in items]
    mp = multiprocessing.get_context("fork")
    out = [None] * n
    live = {}

    def spawn(idxs):
        if not idxs:
            return
        r, w = mp.Pipe(duplex=False)
        pr = mp.Process(target=_pmap_worker, args=(fn, items, idxs, w, timeout), daemon=True)
        pr.start()
        w.close()
        live[r] = {"proc": pr, "idxs": idxs, "pos": 0, "t": time.time()}

    for k in range(procs):
        spawn(list(range(k, n, procs)))
    while live:
        ready = wait(list(live), timeout=1.0)
        now = time.time()
        for r in ready:
            st = live[r]
            try:
                msg = r.recv()
            except (EOFError, OSError):
                msg = "dead"
            if msg is None or msg == "dead":
                st["proc"].join(timeout=1)
                if st["proc"].is_alive():
                    st["proc"].kill()
                rest = st["idxs"][st["pos"]:]
                del live[r]
                r.close()
                if msg == "dead" and rest:
                    out[rest[0]] = ("exc", "worker died")
                    spawn(rest[1:])
                continue
            for i, val in msg:
                out[i] = val
            st["pos"] += len(msg)
            st["t"] = now
        for r in list(live):
            st = live[r]
            if now - st["t"] > hard:
                st["proc"].kill()
                st["proc"].join(timeout=2)
                rest = st["idxs"][st["pos"]:]
                del live[r]
                r.close()
                if rest:
                    out[rest[0]] = ("timeout", None)
                    spawn(rest[1:])
    return [o if o is not None else ("exc", "lost") for o in out]


# ----------------------------------------------------------------------------
# known findings
# ----------------------------------------------------------------------------

def load_known():
    p = os.path.join(ROOT, "known_findings.json")
    if not os.path.exists(p):
        return []
    with open(p, encoding="utf-8") as f:
        return json.load(f)["findings"]


def canon(x):
    return json.dumps(x, ensure_ascii=False, sort_keys=True)


# ----------------------------------------------------------------------------
# the per-run environment handed to props/Cxx.py
# ----------------------------------------------------------------------------

class Env:
    def __init__(self, prop, tier, seed):
        self.prop = prop
        self.tier = tier
        self.seed = seed
        self.rng = random.Random(seed)
        self.t0 = time.time()
        self.tables = None
        self.coq_ok = True
        self.coq_log = ""
        self.broken = []          # proof obligations / translator failures: (what, detail)
        self.disagreements = []   # model vs implementation: dicts
        self.failures = []        # property fails on the implementation: dicts (unmatched)
        self.known_hits = {}      # finding id -> (entry, example)
        self.known = [k for k in load_known() if k.get("property") == prop]
        self.evaluations = 0
        self.distinct = set()
        self.samples = []
        self.rule = ""
        self.coverage_extra = {}
        self.assumptions = []
        self.obligations = 0
        self.discharged = 0
        self.print_assumptions = ""
        self.checker_cmd = ""

    # -- bookkeeping -----------------------------------------------------
    @property
    def thorough(self):
        return self.tier == "thorough"

    def budget(self, quick, thorough):
        return thorough if self.thorough else quick

    def count(self, n=1, keys=()):
        """n evaluations; keys = canonical forms of the non-trivial ones among them."""
        self.evaluations += n
        for k in keys:
            if len(self.distinct) < 2_000_000:
                self.distinct.add(k if isinstance(k, (str, int, tuple)) else canon(k))

    def sample(self, x, limit=12):
        if len(self.samples) < limit:
            self.samples.append(x)

    # keys the evidence schema types (extra coverage facts must not collide with them)
    _TYPED = {"evaluations": int, "distinct_nontrivial": int, "rule": str, "samples": list, "states": int, "transitions": int,
              "traces_validated_against_impl": int, "obligations": int, "discharged": int, "checker_cmd": str,
              "trusted_base": list, "programs": int, "disagreements_checked": int, "explanation": str, "exhaustive": bool}

    def note(self, key, value):
        t = self._TYPED.get(key)
        if t is not None and (not isinstance(value, t) or (t is int and isinstance(value, bool))):
            key = key + "_detail"
        self.coverage_extra[key] = value

    def assume(self, text):
        if text not in self.assumptions:
            self.assumptions.append(text)

    # -- verdict inputs --------------------------------------------------
    def proof_broken(self, what, detail=""):
        self.broken.append({"what": what, "detail": detail[-4000:]})

    def disagree(self, component, input, model, impl):
        if len(self.disagreements) < 50:
            self.disagreements.append({"component": component, "input": input, "model": model, "impl": impl})
        else:
            self.disagreements.append(None)

    def fail(self, input, what, cls=None, extra=None):
        """The property itself fails on the implementation for this concrete input."""
        c = canon(input)
        for k in self.known:
            if k.get("status") != "known":
                continue
            if (cls is not None and (k.get("class") == cls or cls in k.get("classes", []))) or c in [canon(i) for i in k.get("inputs", [])]:
                if k["id"] not in self.known_hits:
                    self.known_hits[k["id"]] = (k, input)
                return False
        if len(self.failures) < 50:
            self.failures.append({"input": input, "what": what, "class": cls, "extra": extra})
        return True

    # -- Coq evaluation of correspondence cases ---------------------------
    def coq_mismatches(self, name, preamble, cases_def, checker, n, shard=400, timeout=900):
        """Evaluate `checker : <case> -> bool` over the cases inside Coq and return
        the indices on which it is false.  `cases_def(lo, hi)` returns the Coq text of
        the list literal for cases[lo:hi].  Sharded into files of <= shard cases that
        are compiled in parallel.  Returns (ok, indices, raw_output_of_failures)."""
        files = []
        for lo in range(0, n, shard):
            hi = min(n, lo + shard)
            text = (
                preamble
                + "\nFrom Coq Require Import List. Import ListNotations.\n"
                + "Fixpoint vy_bad {A} (f : A -> bool) (i : nat) (l : list A) : list nat :=\n"
                + "  match l with [] => [] | x :: r => if f x then vy_bad f (S i) r else i :: vy_bad f (S i) r end.\n"
                + f"Definition vy_cases := {cases_def(lo, hi)}.\n"
                + f"Eval vm_compute in (vy_bad ({checker}) 0 vy_cases).\n"
            )
            files.append((f"{name}_{lo}", text))
        res = coq_eval_many(self.prop, files, timeout)
        bad = []
        ok_all = True
        logs = []
        for (fname, _), (ok, out), lo in zip(files, res, range(0, n, shard)):
            idx = parse_nat_list(out) if ok else None
            if idx is None:
                ok_all = False
                logs.append(f"{fname}: {out[-1500:]}")
            else:
                bad += [lo + i for i in idx]
        return ok_all, bad, "\n".join(logs)

    # -- verdict ----------------------------------------------------------
    def finish(self):
        os.makedirs(EVIDENCE, exist_ok=True)
        ndis = len(self.disagreements)
        violations = 0
        lines = []
        for fid, (k, example) in sorted(self.known_hits.items()):
            lines.append(f"KNOWN-FINDING: property={self.prop} {k['what']} [{fid}; e.g. {canon(example)[:160]}]")
        replay = None
        if self.failures:
            violations = len(self.failures)
            replay = {"property": self.prop, "kind": "failing-input", "tier": self.tier, "seed": self.seed,
                      "failure": self.failures[0], "more": self.failures[1:10],
                      "broken": self.broken, "disagreements": [d for d in self.disagreements if d][:10]}
            suffix = ""
        elif self.broken or ndis:
            violations = len(self.broken) + ndis
            replay = {"property": self.prop, "kind": "no-failing-input-found", "tier": self.tier, "seed": self.seed,
                      "broken": self.broken, "disagreements": [d for d in self.disagreements if d][:10],
                      "note": "a proof obligation or the model/implementation correspondence no longer checks; the search found no input on which the property itself fails"}
            suffix = " no-failing-input-found"
        cov = {
            "obligations": self.obligations,
            "discharged": self.discharged,
            "checker_cmd": self.checker_cmd,
            "trusted_base": TRUSTED_BASE,
            "print_assumptions": self.print_assumptions[-3000:],
            "evaluations": self.evaluations,
            "distinct_nontrivial": len(self.distinct),
            "rule": self.rule,
            "samples": self.samples or ["(none)"],
            "disagreements_checked": ndis,
            "known_findings_printed": sorted(self.known_hits),
            "proof_obligations_broken": [b["what"] for b in self.broken],
        }
        if self.discharged == 0:
            # a broken build discharges nothing: the proof-level keys would not validate with 0,
            # so the run is described by its exploration counts and says so explicitly
            del cov["discharged"]
            cov["discharged_count"] = 0
            cov["explanation"] = "proof obligations NOT discharged on this run (build or translator failure); see proof_obligations_broken"
        cov.update(self.coverage_extra)
        ev = {
            "property_id": self.prop, "tier": self.tier, "seed": self.seed, "level": "proof",
            "coverage": cov, "assumptions": self.assumptions,
            "wall_s": round(time.time() - self.t0, 2), "violations": violations,
        }
        with open(os.path.join(EVIDENCE, self.prop + ".json"), "w", encoding="utf-8") as f:
            json.dump(ev, f, ensure_ascii=False, indent=1)
        for l in lines:
            print(l)
        if replay is not None:
            d = os.path.join(REPLAYS, self.prop)
            os.makedirs(d, exist_ok=True)
            h = hashlib.sha256(canon(replay).encode()).hexdigest()[:12]
            path = os.path.join(d, h + ".json")
            with open(path, "w", encoding="utf-8") as f:
                json.dump(replay, f, ensure_ascii=False, indent=1)
            # what the replay file says, in short, so that a log of the run is enough to see it
            if self.failures:
                f0 = self.failures[0]
                print(f"DETAIL: failing input {canon(f0.get('input'))[:300]} :: {str(f0.get('what'))[:300]}")
            for b in self.broken[:3]:
                print(f"DETAIL: no longer checks: {b['what'][:300]}")
            for dgr in [x for x in self.disagreements if x][:2]:
                print(f"DETAIL: model and implementation disagree ({dgr['component']}) on {canon(dgr['input'])[:300]}")
            print(f"VIOLATION property={self.prop} replay={path}{suffix}")
            sys.stdout.flush()
            return 1
        print(f"OK property={self.prop} tier={self.tier} obligations={self.obligations}/{self.discharged} "
              f"evaluations={self.evaluations} distinct={len(self.distinct)} wall={ev['wall_s']}s")
        return 0


def gen_fingerprint():
    h = hashlib.sha256()
    try:
        for fn in sorted(os.listdir(GEN)):
            if fn.endswith(".v"):
                with open(os.path.join(GEN, fn), "rb") as f:
                    h.update(fn.encode() + b"\0" + f.read())
    except OSError:
        pass
    return h.hexdigest()


def run_check(prop, tier, seed):
    # coq/Gen is shared by every check run from this directory.  If a concurrent run pointed at
    # ANOTHER tree (VERIF_REPO) regenerated it while this one was evaluating, what this run saw
    # is meaningless: it is detected by the fingerprint and the run is repeated.
    for attempt in range(3):
        env, fp = _run_once(prop, tier, seed)
        if attempt < 2 and (env.broken or env.disagreements or env.failures) and gen_fingerprint() != fp:
            log(f"[{prop}] coq/Gen changed during the run (a concurrent check regenerated it from another tree); running again")
            continue
        rc = env.finish()
        if not os.environ.get("VERIF_KEEP_BUILD"):
            import shutil
            shutil.rmtree(scratch_dir(prop), ignore_errors=True)
        return rc


def _run_once(prop, tier, seed):
    env = Env(prop, tier, seed)
    mod = __import__("props." + prop, fromlist=["x"])
    with _Lock("coq.lock"):
        ok, msg, tables = regenerate()
        env.tables = tables
        log(f"[{prop}] {msg}")
        target = f"Properties/{prop}.vo"
        env.checker_cmd = f"cd {COQ} && make -j{NPROC} {target} && coqc -Q . Vy Properties/{prop}.v"
        src = os.path.join(COQ, "Properties", prop + ".v")
        with open(src, encoding="utf-8") as f:
            text = f.read()
        env.obligations = len(re.findall(r"^\s*(?:Theorem|Lemma|Corollary|Example)\s", text, re.M))
        if not ok:
            env.coq_ok = False
            env.proof_broken("translator", msg)
            # the sources no longer have the shape the translator understands: nothing is
            # proved on this run.  The search for a failing input still runs, generating its
            # inputs from the last tables that could be read (stale, used for inputs only).
            try:
                with open(os.path.join(GEN, "tables.json"), encoding="utf-8") as f:
                    tables = json.load(f)
                env.tables = tables
                env.note("tables_stale", True)
            except Exception:  # noqa: BLE001
                tables = None
        else:
            t = time.time()
            ok, out = coq_make([target])
            log(f"[{prop}] make {target}: {'ok' if ok else 'FAILED'} ({time.time()-t:.1f}s)")
            if not ok:
                env.coq_ok = False
                env.coq_log = out
                m = re.search(r'File "([^"]+)", line (\d+)', out)
                where = f"{m.group(1)}:{m.group(2)}" if m else target
                env.proof_broken(f"coq build of {target} failed at {where}", out)
            else:
                ok2, out2 = coqc_file(f"Properties/{prop}.v")
                env.print_assumptions = out2
                if ok2:
                    env.discharged = env.obligations
                else:
                    env.coq_ok = False
                    env.proof_broken(f"Properties/{prop}.v no longer compiles", out2)
                closed, axioms = parse_assumptions(out2)
                env.note("assumption_reports", {"closed_under_global_context": closed, "axioms": axioms})
            failed = (tables or {}).get("_failed") or {}
            if failed:
                # some translator sections could not read the source and kept their last readable
                # output.  A theorem whose proof term mentions a constant of such a section was
                # re-checked against values that may no longer be the code's: it is unsupported.
                # Theorems that do not mention them stand as proved.
                deps = theorem_gen_dependencies(prop) if env.coq_ok else None
                hit = {}
                for sec, why in failed.items():
                    if deps is None:
                        hit[sec] = ["(dependencies could not be computed)"]
                        continue
                    thms = sorted(t for t, cs in deps.items() if any(section_owns(sec, m, c) for m, c in cs))
                    if thms:
                        hit[sec] = thms
                env.note("translator_sections_unreadable", failed)
                env.note("theorems_depending_on_unreadable_sections", hit)
                for sec, thms in hit.items():
                    env.coq_ok = False
                    env.proof_broken(f"translator section '{sec}'",
                                     f"{failed[sec]}\nThe section kept the values of the last readable tree; theorems whose proofs depend on them: {', '.join(thms)}")
                if hit:
                    env.discharged = 0
                else:
                    env.assume("translator sections that could not read the rewritten source (" + ", ".join(sorted(failed))
                               + ") define no constant that any theorem of this property depends on (Print All Dependencies); "
                               "they kept the values of the last readable tree, which the correspondence still compares with the implementation")
        fp = gen_fingerprint()
        semantic = (tables or {}).get("_semantic") or {}
        if semantic:
            # sections whose source no longer has the shape the syntactic reader understands but
            # whose values were obtained from what the code computes (gen_tables.read_*_semantic)
            env.note("translator_sections_read_semantically", semantic)
            env.note("translator_semantic_reader_notes", (tables or {}).get("_semantic_notes") or {})
            env.assume("translator sections " + ", ".join(sorted(semantic)) + " were read SEMANTICALLY (the syntactic reader did not "
                       "recognise the rewritten source): their table values come from running the checkout's own modules in a "
                       "subprocess (module constants after import; exhaustive probing of the identifier sanitisers over all Unicode "
                       "scalar values; systematic probing of tokenise / parse against the model's own ladder) instead of from the "
                       "text of the source; behaviour outside those probes is covered by the correspondences only")
    # the property module does correspondence + oracle search
    try:
        if tables is None:
            # the sources no longer have the shape the translator understands: the
            # search must still run on the implementation where it can
            if hasattr(mod, "search_without_tables"):
                mod.search_without_tables(env)
        else:
            mod.run(env)
    except Exception:  # harness error: never a silent pass
        tb = traceback.format_exc()
        log(tb)
        env.proof_broken("harness error in props/%s.py" % prop, tb)
    return env, fp
