"""Correspondence of coq/Model/Transpile.v with vyxal.transpile.transpile
(dict_compress=False): exact text equality after renaming the random lambda / loop ids
by first appearance; parse and transpile errors compared by class."""
from __future__ import annotations

import re

from . import common as V

PREAMBLE = ("From Coq Require Import List NArith ZArith Bool.\n"
            "From Vy Require Import Model.Base Model.Lexer Model.Parser Model.Transpile.\nImport ListNotations.\n"
            "Definition vy_same (o : outcome) (code : nat) (text : list N) : bool :=\n"
            "  match o, code with\n"
            "  | OText s, 0%nat => str_eqb s text\n"
            "  | OParseErr EIndex, 1%nat | OParseErr EValue, 2%nat | OParseErr EAssert, 3%nat => true\n"
            "  | OTranspileErr TValue, 4%nat => true\n"
            "  | _, _ => false end.\n")
CHECKER = "fun c => match c with (s, code, text) => vy_same (transpile_nodict s) code text end"

_LAM = re.compile(r"_lambda_[0-9a-f]{32}")
_LOOP = re.compile(r"VAR_LOOP[0-9a-f]{32}")


def normalise(text):
    seen = {}

    def lam(m):
        return seen.setdefault(m.group(0), "_lambda_%d" % sum(1 for k in seen if k.startswith("_l")))

    def loop(m):
        return seen.setdefault(m.group(0), "VAR_LOOP%d" % sum(1 for k in seen if k.startswith("VAR")))

    text = _LAM.sub(lam, text)
    return _LOOP.sub(loop, text)


ERR = {"IndexError": 1, "ValueError": 2, "AssertionError": 3}


def impl_transpile(src):
    from vyxal.lexer import tokenise
    from vyxal.parse import parse
    from vyxal.transpile import transpile_ast
    try:
        tree = parse(tokenise(src))
    except (IndexError, ValueError, AssertionError) as e:
        return (ERR[type(e).__name__], "")
    try:
        return (0, normalise(transpile_ast(tree, dict_compress=False)))
    except ValueError:
        return (4, "")


def case_coq(src, code, text):
    return f"({V.cstr(src)}, {code}%nat, {V.cstr(text)})"


def check(env, sources, name="trans", shard=300):
    V.import_repo()
    sources = list(dict.fromkeys(sources))
    res = V.pmap(impl_transpile, sources, timeout=20)
    cases = []
    skipped = 0
    for s, (st, r) in zip(sources, res):
        if st != "ok":
            skipped += 1
            continue
        cases.append((s, r[0], r[1]))
    ok, bad, logs = env.coq_mismatches(
        name, PREAMBLE, lambda lo, hi: "[" + ";\n".join(case_coq(*c) for c in cases[lo:hi]) + "]", CHECKER, len(cases), shard=shard,
    )
    if not ok:
        env.proof_broken("transpiler correspondence cases failed to evaluate in Coq", logs)
    for i in bad:
        env.disagree("transpiler", {"source": cases[i][0]}, "(model text differs)", {"code": cases[i][1], "text": cases[i][2][:400]})
    env.count(len(cases), (f"tr:{s}" for s, c, t in cases if c == 0 and t.count("\n") > 3))
    env.note("transpiler_cases", env.coverage_extra.get("transpiler_cases", 0) + len(cases))
    env.note("transpiler_error_cases", env.coverage_extra.get("transpiler_error_cases", 0) + sum(1 for c in cases if c[1]))
    env.note("transpiler_impl_other_exceptions", env.coverage_extra.get("transpiler_impl_other_exceptions", 0) + skipped)
    return [cases[i][0] for i in bad]
