"""Grammar-based generator of well-formed Vyxal programs (shared by the parser,
transpiler and machine checks).  A program is produced as a list of pieces
(text, role) so that callers can drop trailing closers (C04), substitute literal
payloads (C03) or inject text (C18).  Every random choice comes from the rng given."""
from __future__ import annotations

CLOSER = "closer"      # structure closer or closing string delimiter
CODE = "code"
PAYLOAD = "payload"    # contents of a literal (kind in piece[2])

CORE_ELEMENTS = list("+-*N›‹d¬ḃ:D$_^!Ww\"JLhtfṘ∑n?,…₴MFṡR†=<>")
SAFE_ELEMENTS = list("+-*N›‹d¬:$_\"JLhtf=<>")
MONADIC = list("v&~ßƒɖ")
SYNTAX_PAYLOAD = list("|;])}⟩Xxv⁽&~ßƒɖ₌‡₍≬[({λƛ'µ⟨@")


class ProgGen:
    def __init__(self, rng, elements=None, with_break=True, with_functions=True, with_modifiers=True,
                 payload_chars=None, max_items=3, with_while=True):
        self.rng = rng
        self.elements = elements or CORE_ELEMENTS
        self.with_break = with_break
        self.with_functions = with_functions
        self.with_modifiers = with_modifiers
        self.payload_chars = payload_chars or (list("abz019 ") + SYNTAX_PAYLOAD)
        self.max_items = max_items
        self.with_while = with_while

    # -- literals -------------------------------------------------------------
    def payload(self, n, forbid=""):
        r = self.rng
        return "".join(r.choice([c for c in self.payload_chars if c not in forbid]) for _ in range(n))

    def literal(self):
        r = self.rng
        k = r.randrange(9)
        if k == 0:
            return [(str(r.randrange(0, 30)), CODE)]
        if k == 1:
            return [("`", CODE), (self.payload(r.randrange(0, 4), "`\\"), PAYLOAD, "string"), ("`", CLOSER)]
        if k == 2:
            return [("‛", CODE), (self.payload(2), PAYLOAD, "twochar")]
        if k == 3:
            return [("\\", CODE), (self.payload(1), PAYLOAD, "char")]
        if k == 4:
            return [("»", CODE), (self.payload(r.randrange(1, 3), "»"), PAYLOAD, "compnum"), ("»", CLOSER)]
        if k == 5:
            return [("«", CODE), (self.payload(r.randrange(1, 3), "«"), PAYLOAD, "compstr"), ("«", CLOSER)]
        if k == 6:
            return [("⁺", CODE), (self.payload(1), PAYLOAD, "cpnum")]
        if k == 7:
            return [("→" + r.choice(["a", "b", "_c", ""]), CODE), (" ", CODE)]
        return [("←" + r.choice(["a", "b", "_c", ""]), CODE), (" ", CODE)]

    def element(self):
        return [(self.rng.choice(self.elements), CODE)]

    # -- items ------------------------------------------------------------------
    def single(self, d):
        """exactly one parsed structure (usable as a modifier operand)"""
        r = self.rng
        x = r.random()
        if x < 0.45 or d <= 0:
            return self.element() if r.random() < 0.7 else self.literal_single()
        return self.structure(d)

    def literal_single(self):
        # literals that parse to exactly one structure and need no separator
        while True:
            l = self.literal()
            if l[0][0][0] not in "→←":
                return l

    def item(self, d):
        r = self.rng
        x = r.random()
        if x < 0.35:
            return self.element()
        if x < 0.6:
            return self.literal()
        if x < 0.66 and self.with_break:
            return [(r.choice("Xx"), CODE)]
        if d > 0 and x < 0.9:
            return self.structure(d)
        if d > 0 and self.with_modifiers:
            return self.modified(d)
        return self.element()

    def body(self, d, lo=0):
        out = []
        for _ in range(self.rng.randrange(lo, self.max_items + 1)):
            out += self.item(d)
        return out

    def modified(self, d):
        r = self.rng
        k = r.random()
        if k < 0.6:
            return [(r.choice(MONADIC + ["⁽"]), CODE)] + self.single(d - 1)
        if k < 0.9:
            return [(r.choice("₌₍‡"), CODE)] + self.single(d - 1) + self.single(d - 1)
        return [("≬", CODE)] + self.single(d - 1) + self.single(d - 1) + self.single(d - 1)

    def structure(self, d):
        r = self.rng
        k = r.randrange(12 if self.with_functions else 10)
        b = lambda lo=0: self.body(d - 1, lo)  # noqa: E731
        if k == 0:
            out = [("[", CODE)] + b()
            for _ in range(r.choice([0, 1, 1, 2, 3])):
                out += [("|", CODE)] + b()
            return out + [("]", CLOSER)]
        if k == 1:
            out = [("(", CODE)]
            if r.random() < 0.3:
                out += [(r.choice(["i", "ab", "_x"]), CODE), ("|", CODE)]
            return out + b() + [(")", CLOSER)]
        if k == 2 and not self.with_while:
            k = 1
        if k == 2:
            out = [("{", CODE)]
            if r.random() < 0.6:
                out += b(1) + [("|", CODE)]
            return out + b() + [("}", CLOSER)]
        if k == 3:
            out = [("λ", CODE)]
            if r.random() < 0.4:
                out += [(str(r.randrange(0, 4)), CODE), ("|", CODE)]
            return out + b() + [(";", CLOSER)]
        if k in (4, 5, 6):
            return [("ƛ'µ"[k - 4], CODE)] + b() + [(";", CLOSER)]
        if k in (7, 8, 9):
            out = [("⟨", CODE)] + b()
            for _ in range(r.choice([0, 1, 2])):
                out += [("|", CODE)] + b()
            return out + [("⟩", CLOSER)]
        if k == 10:
            name = r.choice(["f", "g", "fn"])
            params = r.choice(["", ":1", ":2", ":a", ":a:b", ":*", ":1:x"])
            return [("@", CODE), (name + params, CODE), ("|", CODE)] + b() + [(";", CLOSER)]
        return [("@", CODE), (r.choice(["f", "g", "fn"]), CODE), (";", CLOSER)]

    def program(self, depth=3):
        return self.body(depth, 1)


def text(pieces):
    return "".join(p[0] for p in pieces)


def trailing_closers(pieces):
    """number of trailing pieces that are closers"""
    n = 0
    for p in reversed(pieces):
        if p[1] == CLOSER:
            n += 1
        else:
            break
    return n


def truncations(pieces):
    """the closed program text and each text obtained by dropping 1..k trailing closers"""
    k = trailing_closers(pieces)
    full = text(pieces)
    outs = []
    cut = 0
    for i in range(1, k + 1):
        cut += len(pieces[-i][0])
        outs.append(full[: len(full) - cut])
    return full, outs
