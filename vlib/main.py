"""CLI of the verification machinery (see ../check)."""
import json
import os
import sys
import time

sys.path.insert(0, os.path.dirname(os.path.dirname(os.path.abspath(__file__))))
from vlib import common as V  # noqa: E402


def setup():
    t = time.time()
    with V._Lock("coq.lock"):
        ok, msg, _ = V.regenerate()
        print(msg)
        if not ok:
            return 1
        ok, out = V.coq_make(None, timeout=3000)
        if not ok:
            print(out[-6000:])
            return 1
    print(f"setup ok ({time.time()-t:.1f}s)")
    return 0


def replay(prop, path):
    mod = __import__("props." + prop, fromlist=["x"])
    with open(path, encoding="utf-8") as f:
        rec = json.load(f)
    if hasattr(mod, "replay"):
        return mod.replay(rec)
    print(json.dumps(rec, ensure_ascii=False, indent=1))
    return 0


def main(argv):
    if not argv or argv[0] in ("-h", "--help"):
        print(__doc__)
        return 2
    if argv[0] == "--setup":
        return setup()
    if argv[0] == "--coqchk":
        # independent re-check of every compiled property file and everything it depends on;
        # prints the axioms they rely on (takes a few minutes)
        import glob
        mods = sorted("Vy.Properties." + os.path.basename(f)[:-2] for f in glob.glob(os.path.join(V.COQ, "Properties", "*.v")))
        rc, out = V.sh(["coqchk", "-silent", "-o", "-Q", ".", "Vy"] + mods, cwd=V.COQ, timeout=3600)
        with open(os.path.join(V.EVIDENCE, "coqchk.txt"), "w") as f:
            f.write("$ cd coq && coqchk -silent -o -Q . Vy " + " ".join(mods) + "\n" + out)
        print(out[-1200:])
        return rc
    if argv[0] == "--build":
        # development helper: regenerate + make the given targets under the build lock
        with V._Lock("coq.lock"):
            ok, msg, _ = V.regenerate()
            print(msg)
            ok2, out = V.coq_make([f"Properties/{a}.vo" if not a.endswith(".vo") else a for a in argv[1:]] or None)
        print(out[-5000:])
        return 0 if ok and ok2 else 1
    prop = argv[0]
    tier = os.environ.get("VERIF_TIER", "quick")
    seed = int(os.environ.get("VERIF_SEED", "0") or 0)
    i = 1
    while i < len(argv):
        if argv[i] == "--tier":
            tier = argv[i + 1]
            i += 2
        elif argv[i] == "--seed":
            seed = int(argv[i + 1])
            i += 2
        elif argv[i] == "--replay":
            return replay(prop, argv[i + 1])
        else:
            print("unknown argument", argv[i])
            return 2
    if tier not in ("quick", "thorough"):
        tier = "quick"
    return V.run_check(prop, tier, seed)


if __name__ == "__main__":
    sys.exit(main(sys.argv[1:]))
