"""Correspondence of coq/Model/Lexer.v with vyxal.lexer.tokenise: the implementation
tokenises each string, the expected token list is written into a Coq case file, and
the comparison `tokens_eqb (tokenise_dv dv s) expected` is evaluated inside Coq."""
from __future__ import annotations

import itertools

from . import common as V

KIND = {
    "string": "KString", "number": "KNumber", "character": "KCharacter", "general": "KGeneral",
    "compressed_number": "KCompNumber", "compressed_string": "KCompString",
    "variable_get": "KVarGet", "variable_set": "KVarSet", "codepage_number": "KCpNumber",
}

LEX_ALPHABET = ["\\", "`", "»", "«", "0", "1", ".", "°", "‛", "→", "←", "#", "\n", "k", "∆", "¨", "|", "⁺", "a", "_", "X", ";", "[", " "]

PREAMBLE = "From Coq Require Import List NArith Bool.\nFrom Vy Require Import Model.Base Model.Lexer.\nImport ListNotations.\n"
CHECKER = "fun c => match c with (dv, s, toks) => tokens_eqb (tokenise_dv dv s) toks end"


def impl_tokens(item):
    s, dv = item
    from vyxal import lexer
    return [(t.name.value, t.value) for t in lexer.tokenise(s, dv)]


def tok_coq(toks):
    return V.clist((f"Tok {KIND[k]} {V.cstr(v)}" for k, v in toks), "token")


def case_coq(s, dv, toks):
    return f"({'true' if dv else 'false'}, {V.cstr(s)}, {tok_coq(toks)})"


def gen_strings(env, tables, exhaustive_len, n_random):
    cp = tables["encoding"]["codepage"]
    out = []
    for n in range(0, exhaustive_len + 1):
        for tup in itertools.product(LEX_ALPHABET, repeat=n):
            out.append(("".join(tup), False))
    for n in range(0, min(exhaustive_len, 3) + 1):
        for tup in itertools.product(["→", "←", "a", "_", "1", "|", "b"], repeat=n):
            out.append(("".join(tup), True))
    for e in tables["elements"]:
        out.append((e["key"], False))
    for c in cp:
        out.append((c, False))
    rng = env.rng
    uni = [chr(i) for i in (0, 9, 13, 127, 128, 255, 256, 0x2028, 0xFFFF, 0x1F600)]
    for _ in range(n_random):
        n = rng.randint(1, 60)
        mode = rng.random()
        if mode < 0.45:
            s = "".join(rng.choice(cp) for _ in range(n))
        elif mode < 0.85:
            s = "".join(rng.choice(LEX_ALPHABET) if rng.random() < 0.6 else rng.choice(cp) for _ in range(n))
        else:
            s = "".join(rng.choice(uni) if rng.random() < 0.3 else rng.choice(cp) for _ in range(n))
        out.append((s, rng.random() < 0.1))
    # strings built from the lexer's OWN constants and regex patterns (a special case keyed on
    # a fixed sequence of characters shows only on strings holding that sequence)
    try:
        from . import nasty
        d = nasty.source_dictionary(V.REPO, ["vyxal/lexer.py"])
        frags = [f for f in d["fragments"] if len(f) <= 6]
        ds = nasty.dictionary_strings(rng, frags, priority=d["from_regex"], filler=list("a1 `\n"),
                                      pair_cap=max(400, n_random // 2), n_triples=max(100, n_random // 8))
        # regex-derived fragments also inside each kind of literal
        for f in d["from_regex"][:12]:
            for g in d["from_regex"][:12]:
                for wrap in ("`%s`", "\u00ab%s\u00ab", "\u00bb%s\u00bb", "#%s\n1"):
                    ds.append((wrap % (f + "a" + g), (f, g)))
        for text, _ in ds:
            out.append((text, False))
        env.note("lexer_dictionary", {"fragments": len(frags), "from_regex": d["from_regex"][:20], "strings": len(ds),
                                      "unreadable": d["unreadable"]})
    except Exception as e:  # noqa: BLE001 - the dictionary is an extra stream, never a reason to stop
        env.note("lexer_dictionary", f"unavailable: {type(e).__name__}: {e}")
    return out


def check(env, items, name="lex"):
    """items: list of (string, dv).  Registers disagreements on env; returns count."""
    V.import_repo()
    res = V.pmap(impl_tokens, items, timeout=5)
    cases = []
    for (s, dv), (st, toks) in zip(items, res):
        if st != "ok":
            env.disagree("lexer", {"source": s, "dv": dv}, "token list", f"{st}: {toks}")
            continue
        cases.append((s, dv, toks))
    ok, bad, logs = env.coq_mismatches(
        name, PREAMBLE, lambda lo, hi: "[" + ";\n".join(case_coq(*c) for c in cases[lo:hi]) + "]", CHECKER, len(cases), shard=1500,
    )
    if not ok:
        env.proof_broken("lexer correspondence cases failed to evaluate in Coq", logs)
    for i in bad:
        s, dv, toks = cases[i]
        env.disagree("lexer", {"source": s, "dv": dv}, "(model disagrees)", toks)
    nontriv = [(s, dv) for s, dv, toks in cases if len(toks) >= 1]
    env.count(len(cases), (f"lex:{int(dv)}:{s}" for s, dv in nontriv))
    kinds = {}
    for _, _, toks in cases:
        for k, _ in toks:
            kinds[k] = kinds.get(k, 0) + 1
    env.note("lexer_token_kind_distribution", kinds)
    env.note("lexer_cases", len(cases))
    return len(bad)
