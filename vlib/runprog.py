"""Running a Vyxal program on the implementation and observing what the checks need
(final stack, stdout, the four bookkeeping depths, error class) with no hook in
/repo: execute_vyxal's locals are captured on return through sys.setprofile."""
from __future__ import annotations

import contextlib
import io
import sys


def canon(v, depth=0):
    """Canonical, JSON-friendly form of a Vyxal value (DESIGN 4.3)."""
    import types
    import sympy
    from vyxal.LazyList import LazyList
    if isinstance(v, bool):
        return ["bool", int(v)]
    if isinstance(v, int):
        return ["int", str(v)]
    if isinstance(v, sympy.Integer):
        return ["int", str(int(v))]
    if isinstance(v, sympy.Rational):
        return ["rat", str(v.p), str(v.q)]
    if isinstance(v, str):
        return ["str", v]
    if isinstance(v, types.FunctionType):
        return ["fun"]
    if isinstance(v, LazyList):
        if depth > 6:
            return ["deep"]
        out = []
        for i, x in enumerate(v):
            if i >= 200:
                out.append(["..."])
                break
            out.append(canon(x, depth + 1))
        return ["list", out]
    if isinstance(v, (list, tuple)):
        return ["list", [canon(x, depth + 1) for x in v]]
    if isinstance(v, float):
        return ["NONRATIONAL", "float"]
    if isinstance(v, sympy.Basic):
        return ["NONRATIONAL", type(v).__name__]
    return ["other", type(v).__name__]


def run(prog, inputs=(), flags="", online=False):
    """Returns dict(stack, out, depths, error).  `inputs`: list of strings as given on
    the command line (vy_eval evaluates each).  Never raises."""
    import vyxal.main as M
    cap = {}

    def prof(frame, event, arg):
        if event == "return" and frame.f_code is M.execute_vyxal.__code__:
            cap["ctx"] = frame.f_locals.get("ctx")
            cap["stack"] = frame.f_locals.get("stack")

    out = io.StringIO()
    err = None
    online_out = {1: "", 2: ""}
    sys.setprofile(prof)
    try:
        with contextlib.redirect_stdout(out):
            if online:
                M.execute_vyxal(prog, flags + "e", "\n".join(inputs), online_out, True)
            else:
                M.execute_vyxal(prog, flags + "e", list(inputs))
    except SystemExit:
        err = "SystemExit"
    except RecursionError:
        err = "RecursionError"
    except Exception as e:  # noqa: BLE001
        err = type(e).__name__
    finally:
        sys.setprofile(None)
    ctx = cap.get("ctx")
    depths = None
    if ctx is not None:
        depths = [len(ctx.context_values), len(ctx.inputs), len(ctx.stacks), len(ctx.function_stack)]
    stack = None
    if cap.get("stack") is not None and err is None:
        try:
            stack = [canon(x) for x in cap["stack"]]
        except Exception as e:  # noqa: BLE001
            stack = ["uncanonical", type(e).__name__]
    return {"stack": stack, "out": out.getvalue(), "depths": depths, "error": err,
            "online": online_out if online else None}
