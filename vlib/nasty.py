"""A shared pool of "nasty" scalar values and builders of lists that mix them, for the
input generators of the property checks.  Standard library only at import time; the
implementation's classes (sympy.Rational, vyxal LazyList) are imported only by
`to_value`, inside the process that runs the implementation.

Value specs are json-able (so they can be written into replays and evidence):

    int | str | {"q": [p, q]}  (a Rational p/q, q > 1, in lowest terms) | [spec, ...]

Two families of trouble are covered:

* NUMERIC EXTREMES.  Anything that silently goes through a float, an epsilon, a hash of
  a rounded value or a fixed-width integer gets these wrong: integers around 2**53
  (first integers a double cannot hold), 2**63 / 2**64, 10**20; rationals within
  1e-10 .. 1e-15 of an integer, tiny rationals, rationals with huge denominators.
  Results on them must be compared EXACTLY (as (p, q) pairs), never as floats.
* SPELLING TWINS.  Values of different types that print alike: 3 and "3", 1/2 and
  "1/2", 0 and "0", [1, 2] and "[1, 2]", plus "" and repeated items.  Anything keyed by
  str(x) / repr(x) / f"{x}" (memo tables, de-duplication, set membership through
  strings) confuses them when both occur in ONE list, at any nesting level.
"""
from __future__ import annotations

# ----------------------------------------------------------------------------
# numeric extremes
# ----------------------------------------------------------------------------

HUGE_INTS = (
    2 ** 53 - 1, 2 ** 53, 2 ** 53 + 1,          # doubles stop being exact here
    -(2 ** 53 + 1),
    2 ** 63 - 1, 2 ** 63, 2 ** 64 - 1, 2 ** 64, 2 ** 64 + 1,   # fixed-width boundaries
    10 ** 15 + 1, 10 ** 20 + 7, -(10 ** 20 + 7),
)

# (p, q), q > 1, gcd(p, q) = 1
NEAR_INTEGER_RATS = (
    (10 ** 11 + 1, 10 ** 11),            # 1 + 1e-11
    (10 ** 12 + 1, 10 ** 12),            # 1 + 1e-12
    (10 ** 12 - 1, 10 ** 12),            # 1 - 1e-12
    (3 * 10 ** 15 + 1, 10 ** 15),        # 3 + 1e-15
    (-(2 * 10 ** 13) - 1, 10 ** 13),     # -2 - 1e-13
    (7 * 10 ** 9 + 1, 10 ** 9),          # 7 + 1e-9  (outside a 1e-10 epsilon: must stay distinct as well)
)
TINY_RATS = (
    (1, 10 ** 11), (-1, 10 ** 11), (1, 10 ** 12), (3, 10 ** 15), (1, 2 ** 60),
)
BIG_DENOMINATOR_RATS = (
    (1, 10 ** 20 + 7), (10 ** 20 + 7, 10 ** 20 + 9), (2 ** 53 + 1, 2 ** 53), (2, 3 ** 40), (355, 113),
)
ORDINARY_RATS = ((1, 2), (-3, 4), (5, 3), (7, 2), (1, 3))


def rat(p, q):
    return {"q": [p, q]}


NASTY_RATS = tuple(rat(p, q) for p, q in NEAR_INTEGER_RATS + TINY_RATS + BIG_DENOMINATOR_RATS)
NASTY_INTS = HUGE_INTS
NASTY_NUMBERS = NASTY_INTS + NASTY_RATS

# values every spelling-twin list should be able to contain
TWIN_BASES = (0, 1, 2, 3, -1, 10, 12, rat(1, 2), rat(-3, 4), rat(7, 2), rat(1, 10 ** 11), 2 ** 53 + 1)
AWKWARD_STRINGS = ("", "0", "-0", "00", " 3", "3 ", "3.0", "1/2", "2/4", "-", "[]", "[1, 2]", "None", "True")


# ----------------------------------------------------------------------------
# spelling
# ----------------------------------------------------------------------------

def is_rat(spec):
    return isinstance(spec, dict) and "q" in spec


def spell(spec, inner=False):
    """What Python's str() prints for the value (an eager list of such values prints
    its items with repr: strings quoted)."""
    if isinstance(spec, bool):
        spec = int(spec)
    if isinstance(spec, int):
        return str(spec)
    if isinstance(spec, str):
        return repr(spec) if inner else spec
    if is_rat(spec):
        return f"{spec['q'][0]}/{spec['q'][1]}"
    if isinstance(spec, dict):
        return str(spec.get("e", spec))
    return "[" + ", ".join(spell(x, True) for x in spec) + "]"


def SPELLING_TWINS(spec):
    """(value, the string that spells it): 3 -> (3, "3"); 1/2 -> (1/2, "1/2");
    [1, 2] -> ([1, 2], "[1, 2]")."""
    return (spec, spell(spec))


spelling_twins = SPELLING_TWINS


# ----------------------------------------------------------------------------
# list builders (all random choices from the rng handed in)
# ----------------------------------------------------------------------------

def pick_number(rng, p_nasty=0.5):
    if rng.random() < p_nasty:
        return rng.choice(NASTY_NUMBERS)
    if rng.random() < 0.5:
        return rng.choice((0, 1, 2, 3, -1, -2, 5, 10))
    return rat(*rng.choice(ORDINARY_RATS))


def nasty_number_list(rng, depth, maxlen, length=None, p_nasty=0.6):
    """Numbers only, a good share of them extremes, nested to `depth`, with repeats."""
    n = length if length is not None else rng.randint(1, maxlen)
    out = []
    for _ in range(n):
        if depth > 1 and rng.random() < 0.4:
            out.append(nasty_number_list(rng, depth - 1, maxlen, None, p_nasty))
        elif out and rng.random() < 0.2:
            prev = [x for x in out if not isinstance(x, list)]
            out.append(rng.choice(prev) if prev else pick_number(rng, p_nasty))
        else:
            out.append(pick_number(rng, p_nasty))
    return out


def twin_bases(rng, k=None):
    """A few values whose twins are going to share lists."""
    k = k or rng.randint(1, 3)
    return [rng.choice(TWIN_BASES) if rng.random() < 0.85 else rng.choice(NASTY_NUMBERS) for _ in range(k)]


def twin_leaf(rng, bases):
    b = rng.choice(bases)
    r = rng.random()
    if r < 0.45:
        return b
    if r < 0.9:
        return spell(b)
    return rng.choice(AWKWARD_STRINGS)


def twin_list(rng, bases, depth, maxlen, length=None):
    """A list over a few base values AND the strings that spell them, so that a value
    and its twin (and repeats of both) meet inside one list, at every nesting level;
    now and then a sublist meets the string that spells it."""
    n = length if length is not None else rng.randint(2, max(2, maxlen))
    out = []
    for _ in range(n):
        if depth > 1 and rng.random() < 0.4:
            sub = twin_list(rng, bases, depth - 1, maxlen)
            out.append(sub)
            if len(out) < n and rng.random() < 0.3:
                out.append(spell(sub))
        else:
            out.append(twin_leaf(rng, bases))
        if len(out) >= n:
            break
    # make sure one value/twin pair really is present at the top level
    if len(out) >= 2:
        leaves = [x for x in out if not isinstance(x, list)]
        if not any(spell(a) == spell(b) and type(a) is not type(b) for a in leaves for b in leaves):
            b = rng.choice(bases)
            i = rng.randrange(len(out))
            j = rng.choice([k for k in range(len(out)) if k != i])
            out[i], out[j] = b, spell(b)
    return out


FIXED_TWIN_LISTS = (
    [3, "3"], ["3", 3], [0, "0", ""], ["", 0], [rat(1, 2), "1/2"], [1, 1, "1"], [2, "2", 2, "2"],
    [[3, "3"], ["3", 3]], [[1, 2], "[1, 2]"], [12, ["12", 12], "12"], [-1, "-1"],
)
FIXED_EXTREME_LISTS = (
    [rat(1, 10 ** 11)], [rat(10 ** 12 + 1, 10 ** 12), 1], [rat(10 ** 12 - 1, 10 ** 12), rat(1, 10 ** 12), 0],
    [2 ** 53, 2 ** 53 + 1], [rat(3 * 10 ** 15 + 1, 10 ** 15), 3], [[rat(-1, 10 ** 11)], rat(1, 2 ** 60)],
    [10 ** 20 + 7, rat(1, 10 ** 20 + 7)],
)


def leaves_of(spec):
    if isinstance(spec, list):
        for x in spec:
            yield from leaves_of(x)
    else:
        yield spec


def has_twin_pair(spec):
    """Some list inside `spec` holds two items of different types that spell alike."""
    if not isinstance(spec, list):
        return False
    seen = {}
    for x in spec:
        k = spell(x)
        t = "list" if isinstance(x, list) else "str" if isinstance(x, str) else "num"
        if seen.setdefault(k, t) != t:
            return True
    return any(has_twin_pair(x) for x in spec)


def is_extreme(leaf):
    if isinstance(leaf, int) and not isinstance(leaf, bool):
        return abs(leaf) >= 2 ** 53 - 1
    if is_rat(leaf):
        p, q = leaf["q"]
        return q >= 10 ** 9
    return False


# ----------------------------------------------------------------------------
# implementation values
# ----------------------------------------------------------------------------

def to_value(spec, lazy="E", top=True):
    """spec -> implementation value.  lazy: E = Python lists; L = LazyList at every
    level; T = LazyList at the top only; I = Python list at the top, LazyList below."""
    import sympy
    from vyxal.LazyList import LazyList
    if isinstance(spec, list):
        is_lazy = lazy == "L" or (lazy == "T" and top) or (lazy == "I" and not top)
        items = [to_value(s, lazy, False) for s in spec]
        return LazyList(iter(items)) if is_lazy else items
    if is_rat(spec):
        return sympy.Rational(spec["q"][0], spec["q"][1])
    return spec


def exact(x):
    """An implementation number as an exact json-able value: int, or {"q": [p, q]};
    None for anything inexact (float, symbolic): callers must not compare those as floats."""
    import sympy
    if isinstance(x, bool):
        return int(x)
    if isinstance(x, int):
        return x
    if isinstance(x, sympy.Integer):
        return int(x)
    if isinstance(x, sympy.Rational):
        return {"q": [int(x.p), int(x.q)]}
    return None


# ----------------------------------------------------------------------------
# degenerate list / index / shape arguments (added for C10; plain data + helpers)
#
# A shape is a nested Python list of ints; {"L": items} marks a node to be built as a
# LazyList over `items` (build_shape).  Use them at EVERY position of every element that
# takes a list, an index, a list of indices or a shape: code that treats "the first item"
# or "a non-empty list" specially goes wrong exactly here.
# ----------------------------------------------------------------------------

# written for a subject list of length 3: positions 0..2 are valid
NASTY_INDEXES = (0, 1, 2, -1, -3, 3, -4, 7, 10 ** 6)
#                first     last  -len len -len-1 beyond huge

DEGENERATE_SHAPES = (
    [],                      # empty
    [[]],                    # nested empty
    [[], []],
    [[[]]],
    [0],                     # singletons
    [[0]],
    [-1],
    [3],                     # singleton, out of range for length 3
    [[], 0],                 # empty first
    [0, []],                 # empty last
    [0, [], 1],              # empty in the middle
    [[[]], 1, 2],            # nested empty first, then two indices
    [[], [], 0],
    [[0], [1]],              # lists of lists of indices
    [[0, 1], [2]],
    [[0, [1]], 2],
    [[], -1],
    [[], 7],                 # empty first, then out of range
    [0, 0],                  # repeated index
    [[], [0, []], 1],
)
# the smallest ones, for places where only a handful can be afforded
DEGENERATE_SHAPES_CORE = ([], [[]], [0], [[], 0], [[[]], 1, 2], [0, [], 1])


def lazy_node(items):
    return {"L": list(items)}


def is_lazy_node(x):
    return isinstance(x, dict) and set(x) == {"L"}


def lazify(shape, mode):
    """mode 'outer': the top list becomes lazy; 'inner': every list but the top one;
    'all': every list"""
    def go(x, top):
        if isinstance(x, list):
            kids = [go(i, False) for i in x]
            if mode == "all" or (mode == "outer" and top) or (mode == "inner" and not top):
                return lazy_node(kids)
            return kids
        return x
    return go(shape, True)


def degenerate_shapes(modes=("outer",), shapes=None):
    """the plain shapes followed by their lazy versions, without duplicates"""
    import json
    out, seen = [], set()
    for m in (None,) + tuple(modes):
        for s in (shapes if shapes is not None else DEGENERATE_SHAPES):
            v = s if m is None else lazify(s, m)
            k = json.dumps(v)
            if k not in seen:
                seen.add(k)
                out.append(v)
    return out


def build_shape(x, LazyList):
    """-> (value, kept): lazy nodes become LazyList over a list that is also returned in
    `kept` (the very object the LazyList reads), so a caller can check it afterwards"""
    if is_lazy_node(x):
        pairs = [build_shape(i, LazyList) for i in x["L"]]
        src = [p[0] for p in pairs]
        return LazyList(src), src
    if isinstance(x, list):
        pairs = [build_shape(i, LazyList) for i in x]
        return [p[0] for p in pairs], [p[1] for p in pairs]
    return x, x


def vyxal_literal(x):
    """Vyxal source text of a plain shape (ints and lists only): [[], 0] -> ⟨⟨⟩|0⟩"""
    if isinstance(x, list):
        return "⟨" + "|".join(vyxal_literal(i) for i in x) + "⟩"
    if isinstance(x, int) and x < 0:
        return f"{-x}N"
    return str(x)


def shape_text(x):
    if is_lazy_node(x):
        return "LazyList([" + ", ".join(shape_text(i) for i in x["L"]) + "])"
    if isinstance(x, list):
        return "[" + ", ".join(shape_text(i) for i in x) + "]"
    return repr(x)


# ----------------------------------------------------------------------------
# hard integers for number-theory builtins (primality, factors, divisors, totient,
# next/previous prime, gcd/lcm, digits ...) and an INDEPENDENT reference to decide
# them: no sympy here (the implementation uses sympy), standard library only.
# ----------------------------------------------------------------------------

import itertools as _itertools  # noqa: E402  (this section is self-contained)

FIRST_PRIMES = (2, 3, 5, 7, 11, 13, 17, 19, 23, 29, 31, 37, 41)

# psi_k = the smallest composite that is a strong probable prime to each of the first k
# prime bases (Pomerance-Selfridge-Wagstaff, Jaeschke, Jiang-Deng, Sorenson-Webster;
# OEIS A014233), k = 1..13.  `_build_hard` re-verifies every entry with `sprp` and the
# published factorisation, so a typo here fails loudly instead of weakening a check.
PSI = (
    2047, 1373653, 25326001, 3215031751, 2152302898747, 3474749660383,
    341550071728321, 341550071728321, 3825123056546413051, 3825123056546413051,
    3825123056546413051, 318665857834031151167461, 3317044064679887385961981,
)
PSI_FACTORS = {
    2047: [23, 89], 1373653: [829, 1657], 25326001: [2251, 11251], 3215031751: [151, 751, 28351],
    2152302898747: [6763, 10627, 29947], 3474749660383: [1303, 16927, 157543],
    341550071728321: [10670053, 32010157], 3825123056546413051: [149491, 747451, 34233211],
    318665857834031151167461: [399165290221, 798330580441],
    3317044064679887385961981: [1287836182261, 2575672364521],
}


def sprp(n, a):
    """n odd > 2: is n a strong probable prime to base a (Miller-Rabin round)?"""
    a %= n
    if a == 0:
        return True
    d, s = n - 1, 0
    while d % 2 == 0:
        d //= 2
        s += 1
    x = pow(a, d, n)
    if x == 1 or x == n - 1:
        return True
    for _ in range(s - 1):
        x = x * x % n
        if x == n - 1:
            return True
    return False


def isqrt_ref(n):
    """floor(sqrt(n)) by Newton iteration on integers."""
    if n < 2:
        return n
    x = 1 << ((n.bit_length() + 1) // 2)
    while True:
        y = (x + n // x) // 2
        if y >= x:
            return x
        x = y


def jacobi(a, n):
    a %= n
    t = 1
    while a:
        while a % 2 == 0:
            a //= 2
            if n % 8 in (3, 5):
                t = -t
        a, n = n, a
        if a % 4 == 3 and n % 4 == 3:
            t = -t
        a %= n
    return t if n == 1 else 0


def lucas_sprp(n):
    """Strong Lucas probable prime test with Selfridge's parameters (n odd, > 2)."""
    r = isqrt_ref(n)
    if r * r == n:
        return False
    D = 5
    while True:
        j = jacobi(D, n)
        if j == -1:
            break
        if j == 0 and abs(D) % n:
            return False
        D = -(D + 2) if D > 0 else -(D - 2)
    Q = (1 - D) // 4
    d, s = n + 1, 0
    while d % 2 == 0:
        d //= 2
        s += 1
    U, V, Qk = 1, 1, Q % n
    inv2 = (n + 1) // 2
    for bit in bin(d)[3:]:
        U, V = U * V % n, (V * V - 2 * Qk) % n
        Qk = Qk * Qk % n
        if bit == "1":
            U, V = (U + V) * inv2 % n, (D * U + V) * inv2 % n
            Qk = Qk * Q % n
    if U == 0 or V == 0:
        return True
    for _ in range(s - 1):
        V = (V * V - 2 * Qk) % n
        Qk = Qk * Qk % n
        if V == 0:
            return True
    return False


def is_prime_ref(n):
    """Primality without sympy.  Deterministic (a proof) for n < psi_13 = 3.3 * 10^24:
    trial division by the primes below 100, then strong probable prime to the first 13
    prime bases; at and above psi_13 a strong Lucas test is added (Baillie-PSW and more:
    no composite passing it is known)."""
    if n < 2:
        return False
    for p in (2, 3, 5, 7, 11, 13, 17, 19, 23, 29, 31, 37, 41, 43, 47, 53, 59, 61, 67, 71, 73, 79, 83, 89, 97):
        if n % p == 0:
            return n == p
    if n < 101 * 101:
        return True
    for a in FIRST_PRIMES:
        if not sprp(n, a):
            return False
    if n < PSI[12]:
        return True
    return lucas_sprp(n)


def next_prime_ref(n):
    m = max(n + 1, 2)
    while not is_prime_ref(m):
        m += 1
    return m


def prev_prime_ref(n):
    """largest prime < n (n > 2)."""
    m = n - 1
    while not is_prime_ref(m):
        m -= 1
    return m


def _gcd(a, b):
    while b:
        a, b = b, a % b
    return a


def _rho(n):
    """A non-trivial divisor of the odd composite n (Pollard rho, Brent's variant,
    deterministic parameters)."""
    for c in range(1, 200):
        y, r, q, g = 2, 1, 1, 1
        f = lambda v: (v * v + c) % n  # noqa: E731
        while g == 1:
            x = y
            for _ in range(r):
                y = f(y)
            k = 0
            while k < r and g == 1:
                ys = y
                for _ in range(min(128, r - k)):
                    y = f(y)
                    q = q * abs(x - y) % n
                g = _gcd(q, n)
                k += 128
            r *= 2
        if g == n:
            g = 1
            while g == 1:
                ys = f(ys)
                g = _gcd(abs(x - ys), n)
        if g != n:
            return g
    raise ValueError(f"no factor of {n} found")


HARD_FACTORS: dict = {}   # n -> ascending prime factors, for numbers built from their factors


def factor_ref(n):
    """Ascending prime factors of n >= 1 with multiplicity, without sympy: the recorded
    factorisation of a constructed number, else trial division below 2000, perfect
    squares/cubes, Pollard rho; primality of every factor by `is_prime_ref`."""
    if n in HARD_FACTORS:
        return list(HARD_FACTORS[n])
    out = []
    d = 2
    while d < 2000 and d * d <= n:
        while n % d == 0:
            out.append(d)
            n //= d
        d += 1 if d == 2 else 2
    stack = [n] if n > 1 else []
    while stack:
        m = stack.pop()
        if m in HARD_FACTORS:
            out += HARD_FACTORS[m]
        elif is_prime_ref(m):
            out.append(m)
        else:
            r = isqrt_ref(m)
            if r * r == m:
                stack += [r, r]
                continue
            c = round(m ** (1 / 3)) if m < 2 ** 150 else 0
            hit = [x for x in (c - 1, c, c + 1) if x > 1 and x * x * x == m]
            if hit:
                stack += [hit[0]] * 3
                continue
            g = _rho(m)
            stack += [g, m // g]
    return sorted(out)


def divisors_ref(n):
    """Ascending positive divisors of n >= 1 from `factor_ref`."""
    ds = [1]
    fs = factor_ref(n)
    for p in sorted(set(fs)):
        e = fs.count(p)
        ds = [d * p ** i for d in ds for i in range(e + 1)]
    return sorted(ds)


def totient_ref(n):
    t = n
    for p in set(factor_ref(n)):
        t = t // p * (p - 1)
    return t


def _record(n, factors):
    fs = sorted(factors)
    prod = 1
    for p in fs:
        prod *= p
    if prod != n or not all(is_prime_ref(p) for p in fs):
        raise AssertionError(f"bad recorded factorisation of {n}: {fs}")
    HARD_FACTORS[n] = fs
    return n


_HARD = None


def _build_hard():
    """(n, kind) pairs, built by construction; every number is non-negative."""
    out = []
    add = lambda n, kind: out.append((n, kind))  # noqa: E731
    for n in range(0, 33):
        add(n, "small")
    # strong pseudoprimes to the first k prime bases: the published minima, verified
    for k, n in enumerate(PSI, 1):
        fs = PSI_FACTORS[n]
        _record(n, fs)
        if not all(sprp(n, a) for a in FIRST_PRIMES[:k]) or (k < 13 and PSI[k] != n and sprp(n, FIRST_PRIMES[k])):
            raise AssertionError(f"psi_{k} = {n} is not as published")
        add(n, f"psi_{k}")
        add(n - 2, "psi-2"), add(n + 2, "psi+2")
    # ... and the family they come from: p * (r (p - 1) + 1), both prime, kept when a strong
    # pseudoprime to base 2; tagged with the number of leading prime bases it fools
    fam = []
    p = 3
    while p < 12000:
        for r in (2, 3, 4, 5, 6, 7):
            q = r * (p - 1) + 1
            if is_prime_ref(q) and sprp(p * q, 2):
                n = p * q
                k = 1
                while k < 13 and sprp(n, FIRST_PRIMES[k]):
                    k += 1
                fam.append((k, n, p, q))
        p = next_prime_ref(p)
    fam.sort(key=lambda t: (-t[0], t[1]))
    for k, n, p, q in fam[:60]:
        add(_record(n, [p, q]), f"spsp-first-{k}-bases")
    # Carmichael numbers: Korselt's criterion over products of three small primes, and
    # Chernick's (6k+1)(12k+1)(18k+1)
    sp = [q for q in range(3, 120) if is_prime_ref(q)]
    car = []
    for a, b, c in _itertools.combinations(sp, 3):
        n = a * b * c
        if all((n - 1) % (q - 1) == 0 for q in (a, b, c)):
            car.append((n, [a, b, c]))
    for quad in _itertools.combinations([q for q in sp if q < 62], 4):
        n = quad[0] * quad[1] * quad[2] * quad[3]
        if all((n - 1) % (q - 1) == 0 for q in quad):
            car.append((n, list(quad)))
    for n, fs in sorted(car)[:40]:
        add(_record(n, fs), "carmichael")
    got = 0
    k = 1
    while got < 14:
        fs = [6 * k + 1, 12 * k + 1, 18 * k + 1]
        if all(is_prime_ref(q) for q in fs):
            add(_record(fs[0] * fs[1] * fs[2], fs), "carmichael-chernick")
            got += 1
        k += 1 if got < 8 else 997
    # Fermat pseudoprimes to base 2 (Poulet numbers), the first ones by search
    cnt = 0
    n = 9
    while cnt < 40:
        if pow(2, n - 1, n) == 1 and not is_prime_ref(n):
            add(n, "fermat-psp-2")
            cnt += 1
        n += 2
    # primes of every size, their neighbours, squares, cubes, and products of two close primes
    anchors = [10 ** e for e in range(1, 13)] + [2 ** 15, 2 ** 16, 2 ** 31, 2 ** 32, 2 ** 53, 2 ** 61, 2 ** 63, 2 ** 64, 10 ** 15, 10 ** 18, 10 ** 20]
    for a in anchors:
        lo, hi = prev_prime_ref(a), next_prime_ref(a)
        hi2 = next_prime_ref(hi)
        for q in (lo, hi):
            add(q, "prime"), add(q - 1, "prime-1"), add(q + 1, "prime+1")
        if a <= 10 ** 9 or a in (2 ** 15, 2 ** 16, 2 ** 31, 2 ** 32):
            add(_record(lo * lo, [lo, lo]), "prime^2")
            add(_record(hi * hi * hi, [hi] * 3), "prime^3")
            add(_record(lo * hi, [lo, hi]), "close-primes")
            add(_record(hi * hi2, [hi, hi2]), "close-primes")
            add(_record(2 * hi, [2, hi]), "2*prime")
    for q in FIRST_PRIMES:
        add(q * q, "prime^2"), add(q ** 3, "prime^3"), add(q ** 4, "prime^4")
    # Mersenne and Fermat numbers, 2^k and its neighbours, the word-size boundaries
    for e in (2, 3, 5, 7, 11, 13, 17, 19, 23, 29, 31, 37, 41, 43, 47, 53, 59, 61, 67, 89, 107, 127):
        add(2 ** e - 1, "mersenne")
    for e in range(0, 7):
        add(2 ** 2 ** e + 1, "fermat")
    for e in list(range(1, 67)) + [70, 80, 96, 100, 127, 128]:
        add(2 ** e, "2^k"), add(2 ** e + 1, "2^k+1"), add(2 ** e - 1, "2^k-1")
    for b in (2 ** 31, 2 ** 32, 2 ** 53, 2 ** 63, 2 ** 64):
        for dlt in range(-3, 4):
            add(b + dlt, "word-boundary")
    for e in range(1, 25):
        add(10 ** e, "10^k"), add(10 ** e - 1, "10^k-1"), add(10 ** e + 1, "10^k+1")
    f = 1
    for i in range(1, 26):
        f *= i
        add(f, "factorial"), add(f - 1, "factorial-1"), add(f + 1, "factorial+1")
    # highly composite / primorials: many divisors
    pr = 1
    for q in (2, 3, 5, 7, 11, 13, 17, 19, 23, 29, 31, 37, 41, 43, 47):
        pr *= q
        add(pr, "primorial"), add(pr - 1, "primorial-1"), add(pr + 1, "primorial+1")
    for n in (720720, 735134400, 963761198400, 2 ** 10 * 3 ** 6 * 5 ** 3 * 7 ** 2 * 11 * 13):
        add(n, "highly-composite")
    seen, uniq = set(), []
    for n, kind in out:
        if n >= 0 and n not in seen:
            seen.add(n)
            uniq.append((n, kind))
    uniq.sort()
    return uniq


def hard_integers(limit=None, signed=False):
    """The classical hard inputs of number-theory code, built by construction:
    strong pseudoprimes to the first k prime bases (psi_1..psi_13 and the p(r(p-1)+1)
    family), Carmichael numbers (Korselt triples, Chernick), Fermat pseudoprimes base 2,
    primes near every power of ten / word size with their neighbours, squares, cubes and
    products of two close primes, Mersenne and Fermat numbers, 2^k, 10^k, n!, primorials
    with +-1, 0, 1, 2.  Returns ascending (n, kind) pairs with n <= limit; signed=True adds
    the negative counterparts."""
    global _HARD
    if _HARD is None:
        _HARD = _build_hard()
    xs = [(n, k) for n, k in _HARD if limit is None or n <= limit]
    if signed:
        xs = [(-n, "-" + k) for n, k in reversed(xs) if n] + xs
    return xs


def __getattr__(name):   # HARD_INTEGERS / HARD_NONNEG are built on first use
    if name == "HARD_NONNEG":
        return [n for n, _ in hard_integers()]
    if name == "HARD_INTEGERS":
        return [n for n, _ in hard_integers(signed=True)]
    raise AttributeError(name)


# ============================================================================
# Added by the C16 check (append-only; everything above is unchanged).
# Same spec convention: int | str | {"q": [p, q]} | [spec, ...].
# ============================================================================
import itertools as _it
import random as _random
from fractions import Fraction as _Fraction


def frac(spec):
    """Number spec -> exact Python number (int or fractions.Fraction) for oracles that
    want to compute with builtins (sorted, max, sum, ...); lists item by item."""
    if isinstance(spec, list):
        return [frac(x) for x in spec]
    if is_rat(spec):
        return _Fraction(spec["q"][0], spec["q"][1])
    return spec


def unfrac(x):
    """Inverse of `frac`: json-able spec of an exact Python number / nested list."""
    if isinstance(x, list):
        return [unfrac(y) for y in x]
    if isinstance(x, _Fraction):
        return x.numerator if x.denominator == 1 else rat(x.numerator, x.denominator)
    return x


def exact_fraction(x):
    """Implementation number -> int / Fraction (None if inexact), cf. `exact`."""
    e = exact(x)
    return frac(e) if e is not None else None


def _r(fr):
    return unfrac(fr)


# groups of DISTINCT exact numbers that are one and the same double (float(x) ties,
# float() overflow) or closer than any fixed tolerance: max/min/sort/uniquify/index/
# count through float, round(), an epsilon or a float hash confuse the members
FLOAT_TIES = (
    (2 ** 53, 2 ** 53 + 1),
    (2 ** 53 + 2, 2 ** 53 + 3),
    (-(2 ** 53), -(2 ** 53) - 1),
    (10 ** 20 + 3, 10 ** 20 + 5, 10 ** 20 + 7),
    (-(10 ** 20) - 3, -(10 ** 20) - 5),
    (2 ** 64, 2 ** 64 + 1, 2 ** 64 - 1),
    (10 ** 30, 10 ** 30 + 1),
    (2 ** 1030, 2 ** 1030 + 1),                                   # float() overflows
    (rat(1, 3), _r(_Fraction(1, 3) + _Fraction(1, 10 ** 20)), _r(_Fraction(1, 3) - _Fraction(1, 10 ** 20))),
    (rat(1, 10 ** 30), rat(1, 10 ** 30 + 1), rat(2, 2 * 10 ** 30 + 1)),
    (rat(10 ** 20 + 1, 10 ** 20), rat(10 ** 20 + 2, 10 ** 20), 1),
    (rat(-1, 7), _r(_Fraction(-1, 7) - _Fraction(1, 10 ** 25))),
    (rat(2 ** 53 + 1, 2), rat(2 ** 53 + 3, 2)),                   # huge numerator, not an integer
    (0, rat(1, 10 ** 40), rat(-1, 10 ** 40)),
    (rat(123456789123456789123, 1000), rat(123456789123456789127, 1000)),
)


def float_twins(spec):
    """The other members of the tie groups of a number: distinct numbers a double
    cannot tell from it."""
    return [y for g in FLOAT_TIES if spec in g for y in g if y != spec]


def near(spec):
    """Exact neighbours of ANY number (the smallest steps a lossy comparison loses)."""
    x = frac(spec)
    if isinstance(x, bool) or not isinstance(x, (int, _Fraction)):
        return []
    step = 1 if isinstance(x, int) else _Fraction(1, 10 ** 20)
    return [unfrac(x + step), unfrac(x - step)]


def tie_list(rng, maxlen=8, ints_only=False):
    """A flat list drawn from a few tie groups (float-equal distinct items AND true
    duplicates, in random order); ints_only for consumers modelled over Z."""
    groups = [g for g in FLOAT_TIES if not ints_only or all(isinstance(x, int) for x in g)]
    pool = [x for g in rng.sample(groups, rng.randint(1, min(3, len(groups)))) for x in g]
    if rng.random() < 0.4:
        pool += [rng.randint(-3, 3) for _ in range(2)]
    return [rng.choice(pool) for _ in range(rng.randint(1, maxlen))]


# ---- nesting: plain lists and LazyLists mixed at EVERY level ------------------
# (to_value above offers E/L/T/I; a fast path keyed on type(x) is list needs plain rows
# holding lazy rows holding plain rows ..., and siblings of different representation)

# representation by depth, cyclic; depth 0 = top level; p = list, l = LazyList
MIX_PATTERNS = ("p", "l", "pl", "lp", "ppl", "plp", "lpp", "pll", "lpl", "llp", "pplp", "plpl")


def _is_lazy(pattern, rng, d):
    return (rng.random() < 0.5) if rng is not None else (pattern[d % len(pattern)] == "l")


def realise(spec, pattern):
    """spec -> implementation value, every list level represented as `pattern` says:
    a string over {p, l} indexed by depth (cyclic), or an int seed: every node tosses
    its own coin, so siblings differ.  Run it in the process that uses the value."""
    import sympy
    from vyxal.LazyList import LazyList
    rng = _random.Random(pattern) if isinstance(pattern, int) else None

    def go(x, d):
        if isinstance(x, list):
            kids = [go(y, d + 1) for y in x]
            return LazyList(iter(kids)) if _is_lazy(pattern, rng, d) else kids
        if is_rat(x):
            return sympy.Rational(x["q"][0], x["q"][1])
        return x
    return go(spec, 0)


def describe(spec, pattern):
    """Readable rendering of realise(spec, pattern): L[...] marks a LazyList."""
    rng = _random.Random(pattern) if isinstance(pattern, int) else None

    def go(x, d):
        if isinstance(x, list):
            kids = [go(y, d + 1) for y in x]
            return ("L[" if _is_lazy(pattern, rng, d) else "[") + ", ".join(kids) + "]"
        return spell(x, True)
    return go(spec, 0)


def nesting_depth(spec):
    return 1 + max((nesting_depth(y) for y in spec), default=0) if isinstance(spec, list) else 0


def nested_list(rng, maxdepth=4, width=4, leaf=None):
    """A random nested list of depth <= maxdepth with rows of every kind: leaves only,
    lists only, mixed, empty."""
    leaf = leaf or (lambda: rng.randint(-9, 9))

    def go(d):
        kind = rng.random()
        out = []
        for _ in range(rng.randint(0, width)):
            if d < maxdepth and (kind < 0.3 or (kind < 0.7 and rng.random() < 0.5)):
                out.append(go(d + 1))
            else:
                out.append(leaf())
        return out
    return go(1)


def mixed_variants(spec, rng=None, extra_random=2):
    """The representation patterns worth trying on one nested value: every depth
    pattern of MIX_PATTERNS that is distinguishable on it, plus per-node random mixes."""
    d = max(nesting_depth(spec), 1)
    seen, out = set(), []
    for p in MIX_PATTERNS:
        key = "".join(p[i % len(p)] for i in range(d))
        if key not in seen:
            seen.add(key)
            out.append(p)
    if rng is not None and d > 1:
        out += [rng.randrange(1, 2 ** 30) for _ in range(extra_random)]
    return out


def all_patterns(d):
    return ["".join(t) for t in _it.product("pl", repeat=max(d, 1))]


# ----------------------------------------------------------------------------
# source dictionary (fuzzer-style): the literal text the CURRENT sources look for
# ----------------------------------------------------------------------------
# A scanner that searches its input for a fixed multi-character sequence (a regex
# pre-pass, a str.find / startswith / replace) only misbehaves on inputs holding that
# very sequence — often two of them in a given order — which random strings over a 256
# character alphabet practically never contain.  `source_dictionary` harvests, on every
# run, the string constants and the literal fragments of the regex patterns of the given
# source files, so generators can plant them (see `dictionary_strings`).  Standard
# library only; nothing of the target is imported, the files are only parsed.

_RE_FUNCS = ("compile", "sub", "subn", "match", "search", "fullmatch", "split", "findall", "finditer", "template")
_RE_CLASS_ESCAPES = "dDwWsSbBAZ"
_RE_CHAR_ESCAPES = {"n": "\n", "t": "\t", "r": "\r", "f": "\f", "v": "\v", "a": "\a", "0": "\0"}


def regex_fragments(pattern):
    """The literal pieces of a regex pattern: backslashes dropped (\\{ -> {, \\n -> newline),
    split at every metacharacter group: . ^ $ | ( ) (?...) [...] * + ? {m,n} and class
    escapes (\\d \\w \\s \\b ...).  Returns (fragments, class_members): the runs of literal
    characters in order of appearance, and the single literal characters named inside
    [...] classes (range end points excluded)."""
    frags, members, cur = [], [], []
    i, n = 0, len(pattern)

    def flush():
        if cur:
            frags.append("".join(cur))
            cur.clear()

    while i < n:
        c = pattern[i]
        if c == "\\" and i + 1 < n:
            d = pattern[i + 1]
            i += 2
            if d in _RE_CLASS_ESCAPES or d.isdigit() and d != "0":
                flush()
            elif d in "xuU" and i < n:
                width = {"x": 2, "u": 4, "U": 8}[d]
                try:
                    cur.append(chr(int(pattern[i:i + width], 16)))
                    i += width
                except ValueError:
                    flush()
            else:
                cur.append(_RE_CHAR_ESCAPES.get(d, d))
        elif c == "[":
            flush()
            j = i + 1
            if j < n and pattern[j] == "^":
                j += 1
            first = True
            while j < n and (pattern[j] != "]" or first):
                first = False
                if pattern[j] == "\\" and j + 1 < n:
                    d = pattern[j + 1]
                    if d not in _RE_CLASS_ESCAPES:
                        members.append(_RE_CHAR_ESCAPES.get(d, d))
                    j += 2
                elif j + 2 < n and pattern[j + 1] == "-" and pattern[j + 2] != "]":
                    j += 3
                else:
                    members.append(pattern[j])
                    j += 1
            i = j + 1
        elif c == "(":
            flush()
            i += 1
            if i < n and pattern[i] == "?":
                i += 1
                if pattern[i:i + 2] in ("P<", "P="):
                    close = pattern.find(">" if pattern[i + 1] == "<" else ")", i)
                    i = n if close < 0 else close + (pattern[i + 1] == "<")
                elif pattern[i:i + 2] in ("<=", "<!"):
                    i += 2
                elif i < n and pattern[i] in ":=!>":
                    i += 1
                else:                      # inline flags (?i) / (?i:
                    while i < n and (pattern[i].isalpha() or pattern[i] == "-"):
                        i += 1
                    if i < n and pattern[i] == ":":
                        i += 1
        elif c == "{":
            j = i + 1
            while j < n and (pattern[j].isdigit() or pattern[j] == ","):
                j += 1
            if j < n and pattern[j] == "}" and j > i + 1:   # a counted repeat
                flush()
                i = j + 1
            else:
                cur.append(c)
                i += 1
        elif c in ".^$|)*+?":
            flush()
            i += 1
        else:
            cur.append(c)
            i += 1
    flush()
    return frags, members


def _harvest_file(text, maxlen):
    """(short string constants, regex patterns) of one Python source text."""
    import ast
    tree = ast.parse(text)
    doc = set()
    for node in ast.walk(tree):
        body = getattr(node, "body", None)
        if isinstance(node, (ast.Module, ast.FunctionDef, ast.AsyncFunctionDef, ast.ClassDef)) and body:
            if isinstance(body[0], ast.Expr) and isinstance(body[0].value, ast.Constant) and isinstance(body[0].value.value, str):
                doc.add(id(body[0].value))
    # names the re module / its functions go by in this file
    re_modules, re_names = {"re"}, {}
    for node in ast.walk(tree):
        if isinstance(node, ast.Import):
            for a in node.names:
                if a.name in ("re", "regex"):
                    re_modules.add(a.asname or a.name)
        elif isinstance(node, ast.ImportFrom) and node.module in ("re", "regex"):
            for a in node.names:
                re_names[a.asname or a.name] = a.name
    # simple constant bindings  NAME = "text"  (a pattern is often named first)
    bound = {}
    for node in ast.walk(tree):
        if isinstance(node, ast.Assign) and isinstance(node.value, ast.Constant) and isinstance(node.value.value, str):
            for t in node.targets:
                if isinstance(t, ast.Name):
                    bound.setdefault(t.id, []).append(node.value.value)

    def texts_of(arg):
        if isinstance(arg, ast.Constant) and isinstance(arg.value, str):
            return [arg.value]
        if isinstance(arg, ast.JoinedStr):      # f-string: its constant parts, holes split
            return [v.value for v in arg.values if isinstance(v, ast.Constant) and isinstance(v.value, str)]
        if isinstance(arg, ast.Name):
            return bound.get(arg.id, [])
        if isinstance(arg, ast.BinOp):          # "a" + "b", "a" % x
            return texts_of(arg.left) + texts_of(arg.right)
        return []

    consts, patterns = [], []
    for node in ast.walk(tree):
        if isinstance(node, ast.Constant) and isinstance(node.value, str) and id(node) not in doc:
            if 1 <= len(node.value) <= maxlen:
                consts.append(node.value)
        elif isinstance(node, ast.Call):
            f = node.func
            is_re = (isinstance(f, ast.Attribute) and f.attr in _RE_FUNCS and isinstance(f.value, ast.Name) and f.value.id in re_modules) \
                or (isinstance(f, ast.Name) and re_names.get(f.id) in _RE_FUNCS)
            if is_re:
                arg = node.args[0] if node.args else next((k.value for k in node.keywords if k.arg == "pattern"), None)
                patterns += texts_of(arg)
    return consts, patterns


def source_dictionary(repo, files, maxlen=12):
    """Harvest the fuzzing dictionary of the CURRENT sources `files` (paths relative to
    `repo`): every string constant of 1..maxlen characters (docstrings excluded) and,
    for every pattern handed to re.compile / re.sub / re.match / ... (a literal, an
    f-string, or a name bound to a literal — module-level `X = re.compile(...)` included),
    its literal fragments (`regex_fragments`) and the characters named in its classes.

    Returns a dict:
      fragments   every distinct fragment, regex fragments first, then constants (stable order)
      from_regex  the fragments that come from regex patterns (the searched-for sequences)
      constants   the string constants
      patterns    the regex patterns met
      by_file     {file: {"constants": n, "patterns": n}}
      unreadable  files that could not be read / parsed (never raises for those)"""
    import os
    consts, from_regex, members, patterns, by_file, unreadable = [], [], [], [], {}, []
    for rel in files:
        try:
            with open(os.path.join(repo, rel), encoding="utf-8") as fh:
                c, p = _harvest_file(fh.read(), maxlen)
        except (OSError, SyntaxError, ValueError) as e:
            unreadable.append(f"{rel}: {type(e).__name__}")
            continue
        by_file[rel] = {"constants": len(set(c)), "patterns": len(set(p))}
        consts += c
        for pat in p:
            if pat not in patterns:
                patterns.append(pat)
                fr, mem = regex_fragments(pat)
                from_regex += [x for x in fr if len(x) <= 2 * maxlen]
                members += mem
    from_regex = list(dict.fromkeys(x for x in from_regex + members if x))
    consts = list(dict.fromkeys(consts))
    return {"fragments": list(dict.fromkeys(from_regex + consts)), "from_regex": from_regex, "constants": consts,
            "patterns": patterns, "by_file": by_file, "unreadable": unreadable}


def dictionary_strings(rng, fragments, priority=(), filler=None, pair_cap=20000, n_triples=4000, max_filler=3):
    """Test strings holding TWO or THREE dictionary fragments, with random filler
    (possibly empty) before, between and after them:
      * every ORDERED pair of fragments (both orders, a fragment with itself too) as long
        as there are at most pair_cap of them; beyond that every ordered pair with a
        `priority` fragment (e.g. the regex-derived ones) and a random sample of the rest;
      * every ordered pair and triple of `priority` fragments glued without any filler;
      * n_triples random ordered triples (each in a random one of its 6 orders, so over
        the run every order of a set occurs), a `priority` fragment in about half of them.
    `filler` = characters to draw filler from (default: letters, digit, space, newline).
    Returns a list of (string, parts) with parts = the fragments in order; deterministic in rng."""
    import itertools
    frags = list(dict.fromkeys(f for f in fragments if f))
    prio = [f for f in dict.fromkeys(priority) if f in frags]
    filler = list(filler or "abXz 0\n")
    if not frags:
        return []

    def fill(p_empty):
        if rng.random() < p_empty:
            return ""
        return "".join(rng.choice(filler) for _ in range(rng.randint(1, max_filler)))

    def glue(parts):
        s = fill(0.6)
        for k, p in enumerate(parts):
            s += p + (fill(0.35) if k + 1 < len(parts) else fill(0.6))
        return s

    out = []
    if len(frags) ** 2 <= pair_cap:
        pairs = list(itertools.product(frags, repeat=2))
    else:
        pairs = list(dict.fromkeys([(a, b) for a in prio for b in frags] + [(a, b) for a in frags for b in prio]))
        pairs += [(rng.choice(frags), rng.choice(frags)) for _ in range(max(0, pair_cap - len(pairs)))]
    out += [(glue(p), p) for p in pairs]
    small = prio[:12]
    for k in (2, 3):
        out += [("".join(p), p) for p in itertools.product(small, repeat=k)]
    for _ in range(n_triples):
        p = [rng.choice(prio) if prio and rng.random() < 0.5 else rng.choice(frags), rng.choice(frags), rng.choice(frags)]
        rng.shuffle(p)
        out.append((glue(p), tuple(p)))
    return out
