"""C06 — quoting a string and evaluating the quoted text returns the same string.

Deciding method: theorems in coq/Properties/C06.v (for every string of quotable
characters — in particular every code-page string — the quoted text is one STRING token
whose re-escaped value Python decodes to the original string, meeting only the escapes
\\\\ \\" \\n; dictionary decompression is the identity on quoted printable-ASCII strings for
every dictionary; a back-quoted literal pushes its contents in any program context) about
the hand-written models of elements.quotify, the lexer, transpile_token's STRING branch,
helpers.uncompress_dict and Python's reading of a double-quoted literal.  The models are
tied to the implementation (and to ast.literal_eval) by correspondence evaluated inside
Coq; the oracle states the property on the implementation: run the output of the quote
element as a program and compare the pushed value with the original string."""
from __future__ import annotations

import ast
import contextlib
import io
import itertools
import os
import warnings

from vlib import common as V
from vlib import lexcorr, nasty, transcorr

PROCS = min(V.NPROC, int(os.environ.get("VERIF_C06_PROCS", "8")))
ESC = ["\\", "`", '"', "'", "\n", "a", "n", "x", "0", "λ"]
_G = None
# the sources whose literal text (string constants, regex patterns) is harvested on every run into
# the fuzzing dictionary: everything between the program text and the generated Python
DICT_FILES = ["vyxal/lexer.py", "vyxal/parse.py", "vyxal/transpile.py", "vyxal/helpers.py"]

# a small stand-in dictionary for the correspondence of uncompress_dict (the model is
# parametric in the dictionary; the real one has 20k+ words)
SMALL = ["ab", "c d", "\\e", "", "Zq`", "\"", "x\ny"]
CONTENTS = ["w%d" % i if i % 7 else ["", "a\\", "`b", "q\"r", " s", "λt"][(i // 7) % 6] for i in range(200)]


# ----------------------------------------------------------------------------
# implementation side (module level: runs in forked workers)
# ----------------------------------------------------------------------------

def _globals():
    global _G
    if _G is None:
        import vyxal.main as M
        _G = dict(vars(M))  # the globals main.execute_vyxal hands to exec()
    return _G


def run_text(src, dict_compress, stack=None):
    """Stack after executing transpile(src) the way main.execute_vyxal does.  A
    SyntaxWarning (Python met an escape sequence it does not know) is an error."""
    from vyxal.context import Context
    from vyxal.transpile import transpile
    stack = [] if stack is None else stack
    ctx = Context()
    ctx.dictionary_compression = dict_compress
    text = transpile(src, dict_compress)
    with warnings.catch_warnings():
        warnings.simplefilter("error", SyntaxWarning)
        code = compile(text, "<vyxal>", "exec")
    with contextlib.redirect_stdout(io.StringIO()):  # a mis-quoted text is an arbitrary program
        exec(code, dict(_globals(), stack=stack, ctx=ctx))  # noqa: S102
    return stack


def printable_ascii(s):
    return all(32 <= ord(c) <= 126 for c in s)


def roundtrip(s):
    """None if quoting s and running the quoted text pushes s; else (s, cls, what)."""
    from vyxal.context import Context
    from vyxal.elements import quotify
    try:
        q = quotify(s, Context())
        via_element = run_text("q", True, [s])
    except V.Timeout:
        raise
    except Exception as e:  # noqa: BLE001
        return (s, "quote:element", f"quoting raises {type(e).__name__}: {str(e)[:100]}")
    if via_element != [q] or type(q) is not str:
        return (s, "quote:element", f"element q leaves {via_element!r}, quotify returns {q!r}")
    for dc in ((False, True) if printable_ascii(s) else (False,)):
        cls = "quote:dict-on" if dc else "quote:dict-off"
        try:
            st = run_text(q, dc)
        except V.Timeout:
            raise
        except Exception as e:  # noqa: BLE001
            return (s, cls, f"running {q!r} raises {type(e).__name__}: {str(e)[:100]}")
        if len(st) != 1 or type(st[0]) is not str or st[0] != s:
            return (s, cls, f"running {q!r} pushes {st!r}")
    return None


def roundtrips(strs):
    return [r for r in map(roundtrip, strs) if r is not None]


def context_variations():
    """Every single boolean attribute of a fresh Context flipped (the flags a program can be run with end up there), plus the
    default.  -> list of (name, {attr: value})"""
    from vyxal.context import Context
    base = Context()
    out = [("default", {})]
    for k, v in sorted(vars(base).items()):
        if isinstance(v, bool) and k not in ("online", "online_mode", "use_top_input"):
            out.append((f"{k}={not v}", {k: (not v)}))
    return out


def roundtrip_ctx(s):
    """the quote element under every context variation: what it leaves must be the same text as under the default context, or at
    least text that pushes s"""
    from vyxal.context import Context
    from vyxal.elements import quotify
    bad = []
    try:
        q0 = quotify(s, Context())
    except Exception:  # noqa: BLE001   (reported by roundtrip)
        return []
    for name, attrs in context_variations()[1:]:
        ctx = Context()
        for k, v in attrs.items():
            setattr(ctx, k, v)
        try:
            q = quotify(s, ctx)
            if q == q0:
                continue
            st = run_text(q, False)
            if len(st) != 1 or type(st[0]) is not str or st[0] != s:
                bad.append((s, "quote:context", f"with context {name} element q leaves {q!r}, which pushes {st!r}"))
        except V.Timeout:
            raise
        except Exception as e:  # noqa: BLE001
            bad.append((s, "quote:context", f"with context {name}: {type(e).__name__}: {str(e)[:80]}"))
    return bad


def roundtrips_ctx(strs):
    return [b for x in strs for b in roundtrip_ctx(x)]


def through_main(item):
    from vlib import runprog
    s, flags = item
    from vyxal.context import Context
    from vyxal.elements import quotify
    r = runprog.run(quotify(s, Context()) + " 1", flags=flags)
    return r["stack"], r["error"]


def impl_quotify(s):
    from vyxal.context import Context
    from vyxal.elements import quotify
    return quotify(s, Context())


def impl_string_token(v):
    """(text with compression off, uncompress_dict(v) and text with compression on) under the stand-in dictionary."""
    import vyxal.dictionary as D
    from vyxal import helpers
    from vyxal.lexer import Token, TokenType
    from vyxal.transpile import transpile_token
    old = (D.small_dictionary, D.contents)
    D.small_dictionary, D.contents = SMALL, CONTENTS
    try:
        tok = Token(TokenType.STRING, v)
        return transpile_token(tok, 0, False), helpers.uncompress_dict(v), transpile_token(tok, 0, True)
    finally:
        D.small_dictionary, D.contents = old


def impl_undict_real(v):
    from vyxal import helpers
    return helpers.uncompress_dict(v)


def in_decoder_domain(body):
    i = 0
    while i < len(body):
        c = body[i]
        if c == "\\":
            if i + 1 >= len(body) or body[i + 1] not in '\\"nr':
                return False
            i += 2
        else:
            if c in '"\n\r\0' or 0xD800 <= ord(c) <= 0xDFFF:
                return False
            i += 1
    return True


def py_decode(body):
    try:
        with warnings.catch_warnings():
            warnings.simplefilter("error", SyntaxWarning)
            v = ast.literal_eval('"' + body + '"')
        return v if isinstance(v, str) else None
    except Exception:  # noqa: BLE001
        return None


# ----------------------------------------------------------------------------
# correspondence of Model/Quote.v (+ escape_string / token_text of Model/Transpile.v)
# ----------------------------------------------------------------------------

def preamble():
    return ("From Coq Require Import List NArith ZArith Bool String Ascii.\n"
            "From Vy Require Import Model.Base Model.Lexer Model.Parser Model.Transpile Model.Literals Model.Quote.\nImport ListNotations.\n"
            f"Definition vy_small : list str := {V.clist((V.cstr(w) for w in SMALL), 'str')}.\n"
            f"Definition vy_contents : list str := {V.clist((V.cstr(w) for w in CONTENTS), 'str')}.\n"
            "Definition vy_txt (r : tres str) (t : str) : bool := match r with TOk x => str_eqb x t | TErr _ => false end.\n"
            "Inductive vy_case :=\n"
            "| CQuot (s q : str)\n"
            "| CTok (v off u on : str)\n"
            "| CReal (v u : str)\n"
            "| CDec (body : str) (indom : bool) (val : str).\n"
            "Definition vy_check (c : vy_case) : bool :=\n"
            "  match c with\n"
            "  | CQuot s q => str_eqb (quotify_str s) q\n"
            "                 && tokens_eqb (tokenise q) [Tok KString (quote_body s)]\n"
            "  | CTok v off u on =>\n"
            "      vy_txt (transpile_token (fun x => x) (Tok KString v) 0) off\n"
            "      && str_eqb (uncompress_dict vy_small vy_contents v) u\n"
            "      && vy_txt (transpile_token (uncompress_dict vy_small vy_contents) (Tok KString v) 0) on\n"
            "  | CReal v u => str_eqb (uncompress_dict [] [] v) u\n"
            "  | CDec body indom val =>\n"
            "      match py_dq_decode body with\n"
            "      | Some s => indom && str_eqb s val\n"
            "      | None => negb indom\n"
            "      end\n"
            "      && (if indom then match pushed_string (L \"stack.append(\"\"\" ++ body ++ L \"\"\")\") with\n"
            "                        | Some s => str_eqb s val | None => false end else true)\n"
            "  end.\n")


def correspondence(env, strings, tables):
    rng = env.rng
    cp = list(tables["encoding"]["codepage"])
    comp = list(tables["encoding"]["compression"])
    cases = []   # (coq text, description)
    # quotify_str and the lexing of its output
    qs = strings[: env.budget(4000, 16000)]
    for s, (st, q) in zip(qs, V.pmap(impl_quotify, qs, timeout=10, procs=PROCS)):
        if st != "ok":
            env.disagree("quotify", {"string": s}, "quoted text", f"{st}: {q}")
            continue
        cases.append((f"CQuot {V.cstr(s)} {V.cstr(q)}", {"fn": "quotify", "s": s}))
    # the STRING branch of transpile_token with and without (stand-in) dictionary
    vs = ["", "\\", "\\\\", "a\\", "\\`", "\\\"", "\"", "\n", "\\n", "\\a", "`", "λ", "λλ", "λ a", "λ", "\\λ", "aλ\\", "λλλ", "ƛ b", "λ\\ c"]
    for _ in range(env.budget(1500, 12000)):
        r = rng.random()
        n = rng.randint(0, 12)
        if r < 0.35:
            alpha = ESC + [" "]
        elif r < 0.8:
            alpha = comp[:3] + comp[:2] + [comp[1], comp[39], comp[40], comp[100], comp[159]] + ["\\", "\\", " ", " ", "a", "`", "\"", "\n"]
        else:
            alpha = cp
        vs.append("".join(rng.choice(alpha) for _ in range(n)))
    vs = list(dict.fromkeys(vs))
    for v, (st, r) in zip(vs, V.pmap(impl_string_token, vs, timeout=10, procs=PROCS)):
        if st != "ok":
            env.disagree("transpile_token/uncompress_dict", {"value": v}, "texts", f"{st}: {r}")
            continue
        cases.append((f"CTok {V.cstr(v)} {V.cstr(r[0])} {V.cstr(r[1])} {V.cstr(r[2])}", {"fn": "string-token", "v": v}))
    # the real dictionary, on values without compression characters (no lookup happens)
    plain = [c for c in cp if c not in comp]
    rv = ["".join(rng.choice(plain + ["\\", "\\"] + comp[:4] * (rng.random() < 0.3)) for _ in range(rng.randint(0, 14))) for _ in range(env.budget(600, 4000))]
    rv = [v for v in dict.fromkeys(rv) if all((c not in comp) or (i > 0 and v[i - 1] == "\\" and (i < 2 or v[i - 2] != "\\")) for i, c in enumerate(v))]
    for v, (st, r) in zip(rv, V.pmap(impl_undict_real, rv, timeout=10, procs=PROCS)):
        if st != "ok":
            env.disagree("uncompress_dict", {"value": v}, "text", f"{st}: {r}")
            continue
        cases.append((f"CReal {V.cstr(v)} {V.cstr(r)}", {"fn": "uncompress_dict-real", "v": v}))
    # Python's own decoding of a double-quoted body
    bodies = []
    for n in range(0, 4):
        for tup in itertools.product(["\\", '"', "n", "a", "\n", "`"], repeat=n):
            bodies.append("".join(tup))
    balpha = ["\\", "\\", '"', "n", "a", "x", "0", "4", "1", "\n", "`", "λ", "'", "\r", "\0", " ", "N", "{", "u", "\ud800", "\U0001F600", "\x0c", "\x85", "\u2028"]
    for _ in range(env.budget(2000, 15000)):
        bodies.append("".join(rng.choice(balpha) for _ in range(rng.randint(1, 9))))
    for c in cp:
        bodies.append(c)
    bodies = list(dict.fromkeys(bodies))
    for b in bodies:
        dom = in_decoder_domain(b)
        val = py_decode(b)
        if dom and val is None:
            env.disagree("py_dq_decode", {"body": b}, "in the modelled domain", "ast.literal_eval rejects it")
            continue
        cases.append((f"CDec {V.cstr(b)} {'true' if dom else 'false'} {V.cstr(val if dom else '')}", {"fn": "py_dq_decode", "body": b}))
    ok, bad, logs = env.coq_mismatches("quote", preamble(), lambda lo, hi: "[" + ";\n".join(c for c, _ in cases[lo:hi]) + "]",
                                       "vy_check", len(cases), shard=1200)
    if not ok:
        env.proof_broken("quote correspondence cases failed to evaluate in Coq", logs)
    for i in bad:
        env.disagree("quote-model", cases[i][1], "(model disagrees)", cases[i][0][:300])
    env.count(len(cases), (V.canon(d) for _, d in cases))
    dist = {}
    for _, d in cases:
        dist[d["fn"]] = dist.get(d["fn"], 0) + 1
    env.note("correspondence_cases_by_function", dist)


def quotable(s):
    """Inside the theorem's class (Model/Quote.v quotable_char): no NUL or surrogate."""
    return all(c not in "\0" and not 0xD800 <= ord(c) <= 0xDFFF for c in s)


def safe_quotify(strs):
    out = []
    for s in strs:
        try:
            out.append(impl_quotify(s))
        except Exception:  # noqa: BLE001  (the oracle reports a quotify that raises)
            pass
    return out


def dictionary_stream(env):
    """Strings holding two or three fragments of the dictionary harvested from the CURRENT sources
    (vlib.nasty.source_dictionary), in every order, random filler around them.  Returns
    (strings, parts-by-string, the strings built only from regex-derived fragments)."""
    sd = nasty.source_dictionary(V.REPO, DICT_FILES)
    frags = [f for f in sd["fragments"] if quotable(f)]
    prio = [f for f in sd["from_regex"] if quotable(f)]
    filler = ESC + ["b", "X", " ", "1", "#", "|", ";", "»"]
    built = nasty.dictionary_strings(env.rng, frags, priority=prio, filler=filler,
                                     pair_cap=env.budget(20000, 60000), n_triples=env.budget(4000, 30000))
    parts = {}
    for s, p in built:
        parts.setdefault(s, p)
    from_regex_only = [s for s, p in parts.items() if all(x in prio for x in p)]
    n_parts = {}
    for p in parts.values():
        n_parts[len(p)] = n_parts.get(len(p), 0) + 1
    env.note("dictionary_size", len(frags))
    env.note("dictionary", {
        "files": sd["by_file"], "unreadable_files": sd["unreadable"], "regex_patterns": sd["patterns"],
        "fragments_from_regex": prio, "string_constants": len(sd["constants"]),
        "fragments_outside_the_quotable_class_dropped": len(sd["fragments"]) - len(frags),
        "fragment_length_distribution": dict(sorted((n, sum(1 for f in frags if len(f) == n)) for n in {len(f) for f in frags})),
        "fragments_with_escape_relevant_or_non_ascii_char": sum(1 for f in frags if any(c in '\\`"\n' or ord(c) > 126 for c in f)),
        "ordered_pairs_exhaustive": len(frags) ** 2 <= env.budget(20000, 60000),
        "strings_by_number_of_fragments": dict(sorted(n_parts.items())),
        "strings_from_regex_fragments_only": len(from_regex_only),
        "string_length_distribution": dict(sorted((k, sum(1 for s in parts if len(s) // 10 * 10 == k)) for k in {len(s) // 10 * 10 for s in parts})),
    })
    if sd["unreadable"] or not frags:
        env.proof_broken("the source dictionary could not be harvested", str(sd["unreadable"] or "no fragment found"))
    return list(parts), parts, from_regex_only


def chunks(lst, n):
    return [lst[i:i + n] for i in range(0, len(lst), n)]


def run(env):
    env.rule = ("oracle on the implementation: for a string s, the text left by element q on [s] (= elements.quotify(s)) is run as a "
                "program (exec of transpile, as main.execute_vyxal does; an unknown escape sequence in the generated Python is an error) "
                "with dictionary compression off, and also on when s is printable ASCII; the stack must be exactly [s].  Exhaustive: all "
                "strings of length <= 3 over the escape-relevant set {\\ ` \" ' newline a n x 0 λ}; all code-page strings of length <= 1 "
                "(quick) / <= 2 (thorough); random strings to length 40 over the code page, over the escape-relevant set and over "
                "printable ASCII; strings built from the SOURCE DICTIONARY — every string constant of <= 12 characters and every literal "
                "fragment of every regex pattern harvested on this run from the current lexer.py, parse.py, transpile.py and helpers.py — "
                "holding two fragments (every ordered pair) or three (random triples in random order; all pairs and triples of the "
                "regex-derived fragments also without filler) with random filler of 0-3 characters around them; a sample through "
                "main.execute_vyxal.  Correspondence (all of it also on dictionary strings; the lexer model on every one of them, quoted): quotify_str, the lexing of its output, "
                "transpile_token's STRING text with and without a stand-in dictionary, uncompress_dict, and py_dq_decode / pushed_string "
                "against ast.literal_eval.  Non-trivial = the string contains a backslash, back-quote, double quote, newline or a "
                "non-ASCII character, or is built from dictionary fragments; distinct by string.")
    t = env.tables
    rng = env.rng
    cp = list(t["encoding"]["codepage"])
    V.import_repo()

    strings = []
    for n in range(0, 4):
        for tup in itertools.product(ESC, repeat=n):
            strings.append("".join(tup))
    n_esc = len(strings)
    for n in range(1, env.budget(1, 2) + 1):
        for tup in itertools.product(cp, repeat=n):
            strings.append("".join(tup))
    n_cp = len(strings) - n_esc
    lens = {}
    ascii_chars = [chr(i) for i in range(32, 127)]
    for _ in range(env.budget(4000, 40000)):
        r = rng.random()
        n = rng.randint(1, 40)
        lens[n // 10 * 10] = lens.get(n // 10 * 10, 0) + 1
        if r < 0.5:
            strings.append("".join(rng.choice(cp) for _ in range(n)))
        elif r < 0.75:
            strings.append("".join(rng.choice(ESC) for _ in range(n)))
        else:
            strings.append("".join(rng.choice(ascii_chars + ["\\", "`", '"', "\\", "`"]) for _ in range(n)))
    # long strings: a run of one escape-relevant character of every length 1..100 and at 128 / 257 / 1025, alone and between letters;
    # long random strings over the escape-relevant set (where a line / literal width limit or a chunked copy would cut)
    long_strings = []
    run_lengths = list(range(1, 101)) + [127, 128, 129, 255, 256, 257, 1024, 1025]
    for ch in ("\\", "`", '"', "\n", "'", "a", "λ"):
        for n in (run_lengths if ch in "\\`\"\n" else run_lengths[::7]):
            long_strings += [ch * n, "x" + ch * n + "y"]
    for _ in range(env.budget(300, 3000)):
        n = rng.choice([60, 79, 80, 81, 100, 158, 200, 400, 1000])
        long_strings.append("".join(rng.choice(ESC + ["\\", "\\", "a"]) for _ in range(n)))
    env.note("long_strings", {"count": len(long_strings), "run_lengths": "1..100, 127-129, 255-257, 1024, 1025", "random_lengths": "60..1000"})
    strings += long_strings
    strings = list(dict.fromkeys(strings))
    n_plain = len(strings)
    dict_strings, dict_parts, dict_regex_only = dictionary_stream(env)
    strings = list(dict.fromkeys(strings + dict_strings))

    # 1. models against the implementation
    dict_sample = list(dict.fromkeys(dict_regex_only[:300] + rng.sample(dict_strings, min(len(dict_strings), env.budget(700, 3000)))))
    sample_for_corr = strings[:n_esc] + [s for s in strings[n_esc:n_esc + n_cp] if len(s) == 1] + dict_sample \
        + rng.sample(strings[n_esc:n_plain], min(n_plain - n_esc, env.budget(1200, 9000)))
    sample_for_corr = list(dict.fromkeys(sample_for_corr))
    correspondence(env, sample_for_corr, t)
    quoted = safe_quotify(sample_for_corr[: env.budget(1200, 5000)])
    # the lexer model meets every dictionary string: quoted (one STRING token expected) and, for a sample, bare as a program
    dict_quoted = safe_quotify(dict_strings)
    dict_bare = dict_regex_only[:300] + rng.sample(dict_strings, min(len(dict_strings), env.budget(1500, 6000)))
    lexcorr.check(env, [(q, False) for q in dict.fromkeys(quoted + dict_quoted + dict_bare)], name="lexquote")
    env.note("lexer_correspondence_dictionary_strings", {"quoted": len(dict_quoted), "bare": len(dict_bare)})
    transcorr.check(env, quoted[: env.budget(500, 2500)] + safe_quotify(dict_sample[: env.budget(300, 1500)]), name="transquote", shard=400)

    # 2. the oracle
    counter = {}
    res = V.pmap(roundtrips, chunks(strings, 400), timeout=300, procs=PROCS, chunksize=1)
    for st, val in res:
        if st != "ok":
            env.fail({"kind": "worker"}, f"evaluation did not finish: {st} {val}")
            continue
        for s, cls, what in val:
            counter[cls] = counter.get(cls, 0) + 1
            env.fail({"string": s}, what, cls=cls)
    # the quote element under every context variation (each boolean attribute of the context flipped)
    ctx_strings = strings[:n_esc] + rng.sample(strings[n_esc:], min(len(strings) - n_esc, env.budget(600, 6000)))
    for st, val in V.pmap(roundtrips_ctx, chunks(ctx_strings, 200), timeout=300, procs=PROCS, chunksize=1):
        if st != "ok":
            env.fail({"kind": "worker"}, f"evaluation did not finish: {st} {val}")
            continue
        for s_, cls, what in val:
            counter[cls] = counter.get(cls, 0) + 1
            if counter[cls] <= 5:
                env.fail({"string": s_}, what, cls=cls)
    env.note("context_variations", {"variations": [n for n, _ in context_variations()], "strings": len(ctx_strings)})
    special = set('\\`"\n')
    env.count(len(strings) + len(ctx_strings), (f"q:{s}" for s in strings if s in dict_parts or any(c in special or ord(c) > 126 for c in s)))
    env.note("strings_exhaustive_escape_set_len_le_3", n_esc)
    env.note("strings_exhaustive_codepage", n_cp)
    env.note("strings_random", n_plain - n_esc - n_cp)
    env.note("strings_from_source_dictionary", len(strings) - n_plain)
    env.note("random_length_distribution", dict(sorted(lens.items())))
    env.note("strings_run_with_compression_on", sum(1 for s in strings if printable_ascii(s)))
    env.note("oracle_failures_by_class", counter)

    # 3. a sample through main.execute_vyxal itself (flag D = compression off)
    sample = [(s, "D") for s in strings[:n_esc:7]] + [(s, "D") for s in rng.sample(strings[n_esc:n_plain], env.budget(60, 400))]
    sample += [(s, "D") for s in dict_regex_only[:20] + rng.sample(dict_strings, min(len(dict_strings), env.budget(60, 400)))]
    sample += [(s, "") for s, _ in sample if printable_ascii(s)]
    for (s, flags), (st, val) in zip(sample, V.pmap(through_main, sample, timeout=60, procs=PROCS)):
        if st != "ok" or val[1] is not None or val[0] != [["str", s]]:
            env.fail({"string": s, "flags": flags}, f"main.execute_vyxal on the quoted text leaves {val}", cls="quote:execute_vyxal")
    env.count(len(sample), (f"main:{f}:{s}" for s, f in sample))

    for s in ("a\\`\"\nλ", "\\", "\\n", "`", "λλ", "hello \\`world\\`"):
        env.sample({"string": s, "quoted": impl_quotify(s)})
    env.sample({"obligation": "C06_raw: forall s, forallb quotable_char s = true -> exists v, tokenise (quotify_str s) = [STRING v] /\\ py_dq_decode (escape_string v) = Some s /\\ pushed_string (token_text id (STRING v)) = Some s"})
    env.sample({"obligation": "C06_dict: forall small contents s, forallb printable_ascii s = true -> uncompress_dict small contents v = v /\\ pushed_string (token_text (uncompress_dict small contents) (STRING v)) = Some s"})
    env.assume("py_dq_decode is Python's decoding of a double-quoted literal body on its stated domain (checked against ast.literal_eval, not proved)")
    env.assume("the models of quotify, the lexer, transpile_token's STRING branch and uncompress_dict equal the implementation (checked by the correspondence, not proved); uncompress_dict is modelled for every dictionary and compared under a stand-in dictionary and, without compression characters, under the real one")
    env.assume("strings containing NUL or a surrogate are outside the theorem and outside the code page (C06_raw_class_is_needed: a NUL reaches the generated Python raw)")
