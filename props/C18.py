"""C18 — generated Python contains program text only as constants.

Deciding method: theorems in coq/Properties/C18.v about the TEXT model of transpile.py
(coq/Model/Transpile.v; sanitising character classes, lexer classes and template texts are
regenerated from /repo on every run): for every source string, every dictionary function and
both lexer modes the returned text is a sequence of chunks <spaces><core>"\\n" whose core is a
line of the fixed vocabulary or a fixed prefix/suffix around a payload that is the body of a
quoted literal, a decimal, or [A-Za-z0-9_]* (C18, C18_tree, C18_string_*, C18_ident_*, ...).
The model is tied to vyxal.transpile by exact-text correspondence on adversarial inputs
(vlib/transcorr.py); the oracle states the property on the implementation itself, with
Python's own `ast`, independently of the model."""
from __future__ import annotations

import ast
import itertools
import re
import time

from vlib import common as V
from vlib import lexcorr, progs, transcorr

ALPHABET = ['"', "'", "\\", "\n", "[", "]", "(", ")", "^", "`", ":", ";", "a", "Z", "0", "9", "_", " "]

# every syntactic position that accepts program-chosen text; § is the payload
POSITIONS = [
    ("string", "`§`"),
    ("string_unterminated", "1 `§"),
    ("twochar_string", "‛§"),
    ("escaped_character", "\\§"),
    ("variable_get", "←§ +"),
    ("variable_set", "3 →§ +"),
    ("for_variable", "3(§|n)"),
    ("function_call_name", "@§;"),
    ("function_def_name", "@§|1;"),
    ("function_def_name_with_params", "@§:a|1;"),
    ("parameter_1", "@f:§|1;"),
    ("parameter_2", "@f:a:§|1;"),
    ("parameter_3", "@f:2:*:§|1;"),
    ("lambda_arity", "λ§|1;"),
    ("compressed_string", "«§«"),
    ("compressed_number", "»§»"),
    ("codepage_number", "⁺§"),
    ("string_in_structures", "[λ⟨`§`|1⟩;|(x|→§)]"),
    ("modifier_operand_string", "v`§`"),
]

MARKERS = ["\\\");ZQX(1)#", "\\\\\");ZQX(1)#", "\");ZQX(1)#", "\\');ZQX(1)#", "a\\\");ZQX(1)#", "ZQX","__import__('os').system('ZQX')", 'ZQX");__import__("os").system("ZQX")#', "ZQX\\", "\\ZQX\"", "ZQX\n__import__('os')",
           "ZQX[0]", "ZQX[ZQX]", "a[ZQX]", "ZQX[ZQX][ZQX]", "ZQX[ZQX]^ZQX", "[ZQX]", "ZQX.ZQX", "ZQX=1;ZQX", "ZQX)(ZQX", "ZQX:ZQX", "ZQX|ZQX", "1ZQX", "ZQX`ZQX", "ZQX;ZQX", "ZQX\rZQX", "ZQX\\\nZQX", "ZQX'''ZQX", 'ZQX"""ZQX',
           "ZQX\x00", "ZQX\u2028ZQX", "ZQX\x0cZQX", "ZQX#ZQX", "ZQX\\\\", "ZQX\\\"", "{ZQX}", "ZQX%sZQX", "ZQXé", "ＺＱＸ", "ZQX\N{KELVIN SIGN}", "ZQX²"]

# backslash runs of every parity before every character the escaping treats specially (an escaping that
# looks a fixed number of characters back gets the parity of a longer run wrong) ...
MARKERS += [pre + "\\" * k + sp + ");ZQX(1)#" for k in range(0, 8) for sp in ('"', "\n", "\r", "`", "'") for pre in ("", "a")]
# ... and length extremes: anything that counts (a `count=` argument, a buffer, a recursion) only shows beyond it
MARKERS += [junk * n + "ZQX if 0 else ZQX" for junk in ("-", ".", " ", "é") for n in (257, 1025)]
MARKERS += ["\\" * n + '");ZQX(1)#' for n in (257, 258)] + ['"' * 300 + ");ZQX(1)#", "\n" * 300 + "ZQX"]

# longer payloads over the alphabet that both tiers try at every position (a closed
# subscription needs three characters)
SEEDS = ["[Z]", "a[Z]", "Z[a]", "a[a]", "[a][Z]", "a[Z]^Z", "Z[:]", "a(Z)", "a()", "(Z)", "a;Z", "a:Z", "Z`Z`", "a\\Z", "a]Z[",
         'a"Z"', "a'Z'", '\\"', '"\\"', "\\\\", "\\\n", '"\n"', "a\nZ", "\\`", "\\\\`", "```", 'Z"""Z', "Z'''Z"]

IDENT = re.compile(r"(VAR_|_lambda_)[A-Za-z0-9_]*\Z")

# every line of transpile.py that carries no program text, and every payload-carrying line
# with a neutral payload, assembled into snippets that parse (the same list as
# Provenance.fixed_lines / payload_shapes, which the Coq proof shows to be complete for the model)
FIXED_SNIPPETS = [
    "pass",
    "stack.append(ctx.ghost_variable)",
    "ctx.ghost_variable = pop(stack, 1, ctx=ctx)",
    "parameters += wrapify(arg_stack, pop(arg_stack, 1, ctx=ctx), ctx=ctx)",
    "ctx.context_values.pop()",
    "while 1:\n break\n continue",
    "def f():\n ret = [pop(stack, 1, ctx=ctx)]\n return ret\n return stack\n return res\n return pop(stack, 1, ctx=ctx)\n if len(stack) == 0: return",
    "ctx.inputs.pop()", "ctx.stacks.pop()", "ctx.function_stack.pop()",
    "stack.append(this(stack, this, ctx=ctx))",
    "stack += this(stack, this, ctx=ctx)",
    "stack += ctx.function_stack[-2](stack, ctx.function_stack[-2], ctx=ctx)",
    "vy_print(stack, ctx=ctx)",
    "if arity != -1: stack = wrapify(arg_stack, arity, ctx=ctx)\nelif 'stored_arity' in dir(self): stack = wrapify(arg_stack, self.stored_arity, ctx)\n"
    "else: stack = wrapify(arg_stack, ctx.default_arity, ctx)",
    "if arity != -1: pass\nelif 1: pass\nelse: stack = wrapify(arg_stack, 1, ctx)",
    "this = self",
    "ctx.function_stack.append(this)",
    "ctx.context_values.append(list(deep_copy(stack)) if len(stack) != 1 else deep_copy(stack[0]))",
    "ctx.inputs.append([list(deep_copy(stack))[::-1], 0]);",
    "ctx.stacks.append(stack);",
    "res = [pop(stack, 1, ctx)]",
    "def list_item(s, ctx):\n stack = list(deep_copy(s))",
    "f = list_item(stack, ctx)",
    "if f is not None: temp_list.append(f)",
    "temp_list = []",
    "stack.append(list(deep_copy(temp_list)))",
    "condition = pop(stack, 1, ctx=ctx)",
    "if boolify(condition, ctx):\n pass\nelse:\n pass",
    "for ctx.ghost_variable in iterable(pop(stack, 1, ctx=ctx), range, ctx):\n ctx.context_values.append(ctx.ghost_variable)",
    "while boolify(condition, ctx):\n ctx.context_values.append(condition)",
    "parameters = []",
    "stack = parameters[::]",
    "ctx.context_values.append(parameters[::])",
    "ctx.stacks.append(stack)",
    "ctx.inputs.append([parameters[::-1], 0])",
    "function_A = pop(stack, 1, ctx)", "function_B = pop(stack, 1, ctx)", "function_C = pop(stack, 1, ctx)",
    # payload-carrying shapes, neutral payload
    'stack.append("x")',
    'stack.append(sympy.Rational("1.5"))',
    'stack.append(sympy.nsimplify("1"))',
    "stack.append(1)",
    "stack.append(VAR_x);",
    "stack.append(ctx.VAR_x)",
    "VAR_x = pop(stack, 1, ctx=ctx)",
    "ctx.VAR_x = pop(stack, 1, ctx)",
    "for VAR_x in iterable(pop(stack, 1, ctx=ctx), range, ctx):\n    ctx.context_values.append(VAR_x)",
    "stack += VAR_x(stack, self=None, ctx=ctx)",
    "def VAR_x(arg_stack, self, arity=-1, ctx=None):\n this = VAR_x",
    "VAR_x =pop(arg_stack, 1, ctx=ctx)",
    "parameters += wrapify(arg_stack, 1, ctx)",
    "def _lambda_0(arg_stack, self, arity=-1, ctx=None):\n pass",
    "_lambda_0.arity = 1",
    "_lambda_0.arity = ctx.default_arity",
    "stack.append(_lambda_0)",
]

VOCAB = {}   # filled by build_vocab before the workers fork


def canon_ident(name):
    if name.startswith("VAR_") and IDENT.match(name):
        return "VAR_"
    if name.startswith("_lambda_") and IDENT.match(name):
        return "_lambda_"
    return name


_BODY_FIELDS = ("body", "orelse", "finalbody", "handlers")


def _sd(x, top):
    """canonical text of a node: constants blanked to their type, program identifiers to their
    prefix, expression contexts and positions dropped; at the top (a statement) the nested
    statement lists are left out"""
    if isinstance(x, ast.Constant):
        return "C:" + type(x.value).__name__
    if isinstance(x, ast.Name):
        return "N:" + canon_ident(x.id)
    if isinstance(x, ast.AST):
        parts = [type(x).__name__]
        for name, value in ast.iter_fields(x):
            if name in ("ctx", "type_comment"):
                continue
            if top and name in _BODY_FIELDS and isinstance(value, list) and all(isinstance(v, (ast.stmt, ast.excepthandler)) for v in value):
                continue
            if isinstance(value, str) and name in ("attr", "name"):
                value = canon_ident(value)
            parts.append(name + "=" + _sd(value, False))
        return "(" + " ".join(parts) + ")"
    if isinstance(x, list):
        return "[" + ",".join(_sd(v, False) for v in x) + "]"
    return repr(x)


def stmt_shape(node):
    """canonical text of one statement without the statements nested in it (the tree is not modified)"""
    return _sd(node, True)


def names_of(tree):
    """(plain names, attribute names, call keyword / parameter names) used in a tree"""
    names, attrs, kws = set(), set(), set()
    for n in ast.walk(tree):
        if isinstance(n, ast.Name):
            names.add(n.id)
        elif isinstance(n, ast.Attribute):
            attrs.add(n.attr)
        elif isinstance(n, ast.keyword) and n.arg:
            kws.add(n.arg)
        elif isinstance(n, ast.arg):
            kws.add(n.arg)
            names.add(n.arg)
        elif isinstance(n, (ast.FunctionDef, ast.ClassDef)):
            names.add(n.name)
        elif isinstance(n, ast.alias):
            names.add(n.asname or n.name)
    return names, attrs, kws


def build_vocab(tables):
    shapes, names, attrs, kws, types = set(), set(), set(), set(), set()
    unparsed = []
    texts = [e["text"] for e in tables["elements"]] + [m["text"] for m in tables["modifiers"]] + FIXED_SNIPPETS
    for text in texts:
        try:
            tree = ast.parse(text)
        except SyntaxError:
            unparsed.append(text[:60])
            continue
        a, b, c = names_of(tree)
        names |= a
        attrs |= b
        kws |= c
        for n in ast.walk(tree):
            types.add(type(n).__name__)
            if isinstance(n, ast.stmt):
                shapes.add(stmt_shape(n))
    VOCAB.update(shapes=shapes, names=names, attrs=attrs, kws=kws, types=types, unparsed=unparsed)
    return VOCAB


_AUDIT_CACHE = {}


def audit(code, marker):
    """the property on one generated text; returns None or (class, message)"""
    key = (code, marker)
    if key not in _AUDIT_CACHE:
        if len(_AUDIT_CACHE) > 20000:
            _AUDIT_CACHE.clear()
        _AUDIT_CACHE[key] = _audit(code, marker)
    return _AUDIT_CACHE[key]


def _audit(code, marker):
    tree = ast.parse(code)
    v = VOCAB
    const_hits = 0
    ident_hits = 0
    for n in ast.walk(tree):
        t = type(n).__name__
        if t not in v["types"]:
            return ("foreign-node:" + t, f"node type {t} does not occur in the vocabulary")
        if isinstance(n, ast.Name):
            if n.id not in v["names"] and not IDENT.match(n.id):
                return ("foreign-name", f"name {n.id!r} is neither vocabulary nor VAR_/_lambda_ + [A-Za-z0-9_]*")
            if marker and IDENT.match(n.id):
                ident_hits += n.id.count(marker)
        elif isinstance(n, ast.Attribute):
            if n.attr not in v["attrs"]:
                if not (n.attr.startswith("VAR_") and IDENT.match(n.attr) and isinstance(n.value, ast.Name) and n.value.id == "ctx"):
                    return ("foreign-attribute", f"attribute {n.attr!r} is neither vocabulary nor ctx.VAR_ + [A-Za-z0-9_]*")
            if marker and n.attr.startswith("VAR_"):
                ident_hits += n.attr.count(marker)
        elif isinstance(n, ast.keyword):
            if n.arg is not None and n.arg not in v["kws"]:
                return ("foreign-keyword", f"keyword argument {n.arg!r}")
        elif isinstance(n, ast.arg):
            if n.arg not in v["kws"]:
                return ("foreign-parameter", f"parameter {n.arg!r}")
        elif isinstance(n, ast.FunctionDef):
            if n.name not in v["names"] and not IDENT.match(n.name):
                return ("foreign-name", f"function name {n.name!r}")
            if marker and IDENT.match(n.name):
                ident_hits += n.name.count(marker)
        elif isinstance(n, ast.Call):
            f = n.func
            if not isinstance(f, (ast.Name, ast.Attribute, ast.Subscript)):
                return ("foreign-call-target", f"call target {type(f).__name__}")
        elif isinstance(n, ast.Constant) and marker and isinstance(n.value, str):
            const_hits += n.value.count(marker)
        if isinstance(n, ast.stmt):
            s = stmt_shape(n)
            if s not in v["shapes"]:
                return ("foreign-statement", f"statement outside the vocabulary: {ast.unparse(n)[:120]!r}")
    if marker:
        total = code.count(marker)
        if total != const_hits + ident_hits:
            return ("marker-outside-constant", f"marker occurs {total} times in the text, {const_hits} inside string constants, {ident_hits} inside VAR_ identifiers")
    return None


def oracle_one(item):
    """item = (source, dict_compress, variables_as_digraphs, marker)"""
    src, dc, dv, marker = item
    from vyxal.transpile import transpile
    try:
        code = transpile(src, dict_compress=dc, variables_as_digraphs=dv)
    except Exception as e:  # noqa: BLE001  nothing is returned: nothing can run
        return ("raise", type(e).__name__)
    if not isinstance(code, str):
        return ("bad", ("not-a-string", f"transpile returned {type(code).__name__}"))
    try:
        bad = audit(code, marker)
    except (SyntaxError, ValueError) as e:   # ValueError: null byte in the source text
        # the text does not parse, so nothing of it can run; what can still be said about the
        # text itself: an identifier the transpiler builds never continues outside [A-Za-z0-9_]
        # (\w is Unicode-aware, the class in IDENT is explicit ASCII)
        if "VAR_" not in src and "_lambda_" not in src:
            for m in re.finditer(r"(?:VAR_|_lambda_)\w*", code):
                if not IDENT.match(m.group(0)):
                    return ("bad", ("non-ascii-identifier-text", f"identifier text {m.group(0)!r} continues outside [A-Za-z0-9_] (and the text does not compile: {type(e).__name__})", code[:600]))
        return ("syntax", type(e).__name__)
    if bad is None:
        return ("ok", code.count("\n"))
    return ("bad", bad + (code[:600],))


# ------------------------------------------------------------------------------------------------

def payloads(maxlen):
    for n in range(0, maxlen + 1):
        for tup in itertools.product(ALPHABET, repeat=n):
            yield "".join(tup)


def inject(template, payload):
    return template.replace("§", payload)


def gen_position_sources(maxlen):
    out = []
    for name, tpl in POSITIONS:
        for p in itertools.chain(payloads(maxlen), (q for q in SEEDS if len(q) > maxlen)):
            out.append((name, p, inject(tpl, p)))
    return out


def random_codepage(env, cp, n, maxlen=60):
    rng = env.rng
    hot = ["`", "\\", '"', "\n", "@", ":", "|", ";", "→", "←", "(", "λ", "«", "»", "‛", "⁺", "'", "[", "]"]
    out = []
    for _ in range(n):
        ln = rng.randint(1, maxlen)
        if rng.random() < 0.5:
            out.append("".join(rng.choice(cp) for _ in range(ln)))
        else:
            out.append("".join(rng.choice(hot) if rng.random() < 0.45 else rng.choice(cp) for _ in range(ln)))
    return out


def random_unicode(env, cp, n, maxlen=60):
    rng = env.rng
    special = [chr(i) for i in (0, 9, 11, 12, 13, 0x1c, 0x1d, 0x1e, 0x85, 0xa0, 0x2028, 0x2029, 0xfeff, 0x212a, 0xff21, 0xff3f, 0x1d7d8, 0x661, 0xb2, 0x1F600, 0xd7ff, 0xe000)]
    hot = ["`", "\\", '"', "@", ":", "|", ";", "→", "←", "(", "λ", "‛", "»", "«", "⁺"]
    out = []
    for _ in range(n):
        ln = rng.randint(1, maxlen)
        s = []
        for _ in range(ln):
            x = rng.random()
            if x < 0.3:
                s.append(rng.choice(special))
            elif x < 0.45:
                s.append(chr(rng.choice([rng.randrange(0x20, 0x3000), rng.randrange(0x3000, 0xd800), rng.randrange(0xe000, 0x110000)])))
            elif x < 0.7:
                s.append(rng.choice(hot))
            else:
                s.append(rng.choice(cp))
        out.append("".join(s))
    return out


ARROWS = ["\u2192", "\u2190"]    # variable set, variable get


def letter_like(cp):
    """code-page characters a careless scan might take for part of a name (Unicode-aware
    isalnum / isnumeric / isidentifier), plus the ASCII digits, a, Z and _"""
    out = [c for c in cp if (c.isalnum() or c.isnumeric() or c.isidentifier()) and not (c.isascii() and c.isalpha())]
    return out + ["a", "Z"]


def variable_sources(cp):
    """(singles, pairs): every code-page character directly after the arrow (plain and in the
    `_`-prefixed ctx.VAR_ form, alone, followed by code, after a letter), and all pairs over
    the letter-like / digit-like characters"""
    singles, pairs = [], []
    for ar in ARROWS:
        for c in cp:
            singles += [ar + c, ar + "_" + c, ar + c + " +", ar + "a" + c, "1 " + ar + c + "a"]
        ll = letter_like(cp)
        for x in ll:
            for y in ll:
                pairs.append(ar + x + y)
            pairs.append(ar + "_" + x + "a")
    return list(dict.fromkeys(singles)), list(dict.fromkeys(pairs))


PREAMBLE_DV = transcorr.PREAMBLE + (
    "Definition transpile_dv (src : list N) : outcome :=\n"
    "  match parse_tokens (tokenise_dv true src) with\n"
    "  | Ok l => match transpile_ast (fun s => s) l with TOk x => OText x | TErr e => OTranspileErr e end\n"
    "  | Err e => OParseErr e\n"
    "  | OutOfFuel => OFuel\n"
    "  end.\n")
CHECKER_DV = "fun c => match c with (s, code, text) => vy_same (transpile_dv s) code text end"


def impl_transpile_dv(src):
    from vyxal.lexer import tokenise
    from vyxal.parse import parse
    from vyxal.transpile import transpile_ast
    try:
        tree = parse(tokenise(src, True))
    except (IndexError, ValueError, AssertionError) as e:
        return (transcorr.ERR[type(e).__name__], "")
    try:
        return (0, transcorr.normalise(transpile_ast(tree, dict_compress=False)))
    except ValueError:
        return (4, "")


def check_dv(env, sources):
    """exact-text correspondence in variables-as-digraphs mode (Model/Lexer.v tokenise_dv true)"""
    sources = list(dict.fromkeys(sources))
    res = V.pmap(impl_transpile_dv, sources, timeout=20)
    cases = [(s, r[0], r[1]) for s, (st, r) in zip(sources, res) if st == "ok"]
    ok, bad, logs = env.coq_mismatches(
        "c18dv", PREAMBLE_DV, lambda lo, hi: "[" + ";\n".join(transcorr.case_coq(*c) for c in cases[lo:hi]) + "]", CHECKER_DV, len(cases), shard=400)
    if not ok:
        env.proof_broken("transpiler correspondence (variables-as-digraphs mode) failed to evaluate in Coq", logs)
    for i in bad:
        env.disagree("transpiler-dv", {"source": cases[i][0], "variables_as_digraphs": True}, "(model text differs)",
                     {"code": cases[i][1], "text": cases[i][2][:400]})
    env.count(len(cases), (f"trdv:{s}" for s, c, t in cases if c == 0))
    env.note("transpiler_dv_cases", len(cases))
    env.note("transpiler_dv_impl_other_exceptions", len(sources) - len(cases))


def run(env, with_model=True):
    t = env.tables
    cp = list(t["encoding"]["codepage"])
    V.import_repo()
    quick_len, raw_len = env.budget((2, 3), (3, 4))
    env.rule = (
        f"adversarial alphabet of {len(ALPHABET)} symbols (quotes, backslash, newline, brackets, ^, back-quote, colon, semicolon, a Z 0 9 _ space); "
        f"{len(POSITIONS)} injection positions (string, unterminated string, two-character string, escaped character, variable get/set, for-loop "
        "variable, function call name, function definition name with and without parameters, parameter slots 1-3, lambda arity, compressed "
        f"string/number, code-page number, string nested in structures, modifier operand) x all payloads of length <= {quick_len}; all raw strings "
        f"of length <= {raw_len} over the alphabet; random strings to length 60 over the code page; grammar-generated programs with adversarial "
        "payloads.  The oracle sees every one of them; the Coq-side text comparison samples the top payload length (quick: at the six positions "
        "whose output is a whole function / list and for raw strings; thorough: cap of 90000 sources; numbers in correspondence_sampling).  They go through (1) the exact-text correspondence model-vs-vyxal.transpile (dictionary off) and (2) the oracle on the "
        "implementation: transpile(src) in three modes (dictionary on, dictionary off, dictionary off + variables-as-digraphs), ast.parse, every "
        "Name / attribute / keyword / parameter / def name in the vocabulary (names of transpile.py's fixed lines and of all element and modifier "
        "templates, computed with ast from the regenerated tables) or VAR_/_lambda_ + [A-Za-z0-9_]* (ctx.VAR_...), every statement header (constants "
        "blanked to their type, program identifiers to their prefix) equal to a vocabulary statement, and every occurrence of the payload marker ZQX "
        "inside a string constant or such an identifier.  The oracle additionally gets marker payloads at every position and random Unicode "
        "outside the code page.  Variable names get the whole code page: every code-page character directly after each arrow (plain, `_`-prefixed "
        "ctx.VAR_ form, followed by code, after a letter) and all pairs over the letter-like / digit-like code-page characters, in both lexer "
        "modes (variables_as_digraphs off and on) for the oracle, the lexer correspondence and the text correspondence.  Non-trivial = transpile returned code and the payload / string holds at least one non-alphanumeric "
        "character; distinct by (mode, source).")
    vocab = build_vocab(t)
    env.note("vocabulary", {"statement_shapes": len(vocab["shapes"]), "names": len(vocab["names"]), "attributes": len(vocab["attrs"]),
                            "keywords_and_parameters": len(vocab["kws"]), "templates_not_parsed": vocab["unparsed"]})
    if any("ZQX" in s for s in vocab["names"] | vocab["attrs"]):
        env.proof_broken("harness", "the marker ZQX occurs in the vocabulary")

    # ---- inputs ------------------------------------------------------------------------------
    pos = gen_position_sources(quick_len)
    raw = list(payloads(raw_len))
    rnd = random_codepage(env, cp, env.budget(400, 4000))
    g = progs.ProgGen(env.rng, payload_chars=ALPHABET + ["`", "«", "»"])
    gen = [progs.text(g.program(env.rng.randint(1, 4))) for _ in range(env.budget(400, 4000))]
    uni = random_unicode(env, cp, env.budget(1500, 10000))
    marked = [(name, m, inject(tpl, m)) for name, tpl in POSITIONS for m in MARKERS]
    # every code-page character (the dictionary-compression characters among them expand to other text) directly before each way
    # of breaking out of a literal, in every position that holds string text
    char_markers = [ch + q + ");ZQX(1)#" for ch in cp for q in ("'", '"', "", "\\\"")]
    marked += [(name, m, inject(tpl, m)) for name, tpl in POSITIONS if "string" in name for m in char_markers]
    env.note("character_breakout_markers", len(char_markers))
    var_single, var_pair = variable_sources(cp)
    var_pair_corr = env.rng.sample(var_pair, min(len(var_pair), env.budget(1500, 8000)))
    var_pos = [s for name, _, s in pos if name.startswith("variable") or (env.thorough and name == "string_in_structures")]

    # ---- (1) text correspondence (code-page characters only: the text model is exact there) -----
    cpset = set(cp)
    corr = [s for _, _, s in pos] + var_single + var_pair_corr + raw + rnd + gen + [s for _, _, s in marked if set(s) <= cpset]
    # sources longer than 320 characters stay with the oracle (a Coq list literal of that size per case is too heavy)
    corr = [s for s in dict.fromkeys(corr) if set(s) <= cpset and len(s) <= 320]
    escape_runs = set(s for _, m, s in marked if m.endswith(");ZQX(1)#") and len(s) <= 60 and set(s) <= cpset)
    if not env.thorough:
        # quick tier: the Coq-side comparison of long outputs is the expensive part; positions
        # whose output is a whole function / lambda / list get their top payload length
        # sampled, and so do the raw strings of the top length (the oracle sees all of them)
        heavy = {"function_def_name_with_params", "parameter_2", "parameter_3", "string_in_structures", "modifier_operand_string", "function_def_name"}
        drop = [s for name, p, s in pos if name in heavy and len(p) >= quick_len and p not in SEEDS]
        drop_raw = [s for s in raw if len(s) >= raw_len]
        keep_drop = set(env.rng.sample(drop, len(drop) // 4)) | set(env.rng.sample(drop_raw, min(len(drop_raw), 1500)))
        dropped = (set(drop) | set(drop_raw)) - keep_drop - set(var_single) - set(var_pair_corr)
        corr = [s for s in corr if s not in dropped]
        env.note("correspondence_sampling", {"tier": "quick", "heavy_positions_top_length": f"{len(drop) // 4} of {len(drop)}",
                                             "raw_top_length": f"{min(len(drop_raw), 1500)} of {len(drop_raw)}", "sources_compared": len(corr)})
    if not env.thorough and len(corr) > 6000:
        # quick tier budget: the seeds and the single-character variable forms always, the rest sampled
        must = set(SEEDS) | set(var_single) | escape_runs
        rest = [s for s in corr if s not in must]
        corr = [s for s in corr if s in must] + env.rng.sample(rest, max(0, 6000 - len(must & set(corr))))
        env.note("correspondence_quick_sample", {"sources_compared": len(corr)})
    cap = 60000
    if len(corr) > cap:
        # the Coq-side comparison is the expensive part: every position payload up to length
        # quick_len - 1 and every shorter raw string is kept, the top lengths are sampled (the
        # oracle below still sees all of them)
        top_pos = set(s for _, p, s in pos if len(p) >= quick_len and p not in SEEDS)
        top_raw = set(s for s in raw if len(s) >= raw_len)
        keep = [s for s in corr if s not in top_pos and s not in top_raw]
        rest_pos = [s for s in corr if s in top_pos]
        rest_raw = [s for s in corr if s in top_raw and s not in top_pos]
        room = max(0, cap - len(keep))
        take_pos = min(len(rest_pos), room * 2 // 3)
        take_raw = min(len(rest_raw), room - take_pos)
        corr = keep + env.rng.sample(rest_pos, take_pos) + env.rng.sample(rest_raw, take_raw)
        env.note("correspondence_sampling", {"cap": cap, "kept_exhaustive": len(keep), "top_length_position_payloads": f"{take_pos} of {len(rest_pos)}",
                                             "top_length_raw_strings": f"{take_raw} of {len(rest_raw)}"})
    t0 = time.time()
    phase = {}
    if with_model:
        transcorr.check(env, corr, name="c18tr", shard=400)
        phase["text_correspondence_s"] = round(time.time() - t0, 1)
        t0 = time.time()
        # both lexer modes: token lists, and the transpiled text in variables-as-digraphs mode
        lex_items = [(s, dv) for s in var_single + var_pair_corr for dv in (False, True)]
        lexcorr.check(env, lex_items, name="c18lex")
        phase["lexer_correspondence_s"] = round(time.time() - t0, 1)
        t0 = time.time()
        check_dv(env, var_single + var_pair_corr[: env.budget(500, 8000)] + var_pos + rnd[: env.budget(200, 2000)] + gen[: env.budget(200, 2000)])
        phase["dv_text_correspondence_s"] = round(time.time() - t0, 1)
    env.note("variable_name_inputs", {"single_character_forms": len(var_single), "pairs_over_letter_like": len(var_pair),
                                      "letter_like_characters": "".join(letter_like(cp)), "pairs_in_coq_correspondence": len(var_pair_corr),
                                      "modes": "oracle: (dict off, dv off), (dict off, dv on), (dict on, dv on); lexer and text correspondence: dv off and dv on"})
    env.note("correspondence_inputs", {"position_payload": len(pos), "raw": len(raw), "random_codepage": len(rnd), "generated_programs": len(gen)})

    # ---- (2) the oracle on the implementation ------------------------------------------------------
    items = []
    for name, p, s in pos:
        items.append((s, False, False, ""))
        items.append((s, True, False, ""))
        if name.startswith("variable") or name == "string_in_structures":
            items.append((s, False, True, ""))
    for s in raw + rnd + gen + uni:
        items.append((s, False, False, ""))
        items.append((s, True, False, ""))
    for s in var_single:
        for dc, dv in ((False, False), (False, True), (True, True)):
            items.append((s, dc, dv, ""))
    for s in var_pair:
        for dc, dv in env.budget(((False, False), (False, True)), ((False, False), (False, True), (True, True))):
            items.append((s, dc, dv, ""))
    for s in rnd + gen + uni[: len(uni) // 3]:
        items.append((s, False, True, ""))
    for name, m, s in marked:
        for dc, dv in ((False, False), (True, False), (False, True)):
            items.append((s, dc, dv, "ZQX"))
    # markers inside random surroundings
    for _ in range(env.budget(300, 3000)):
        a = env.rng.choice(rnd)
        k = env.rng.randrange(len(a) + 1)
        s = a[:k] + env.rng.choice(MARKERS) + a[k:]
        items.append((s, env.rng.random() < 0.5, False, "ZQX"))
    items = list(dict.fromkeys(items))
    t0 = time.time()
    res = V.pmap(oracle_one, items, timeout=20)
    phase["oracle_s"] = round(time.time() - t0, 1)
    env.note("phase_seconds", phase)
    stats = {"ok": 0, "raise": 0, "syntax": 0, "timeout": 0, "exc": 0, "bad": 0}
    raises = {}
    syntax_samples = []
    keys = []
    for (src, dc, dv, marker), (st, val) in zip(items, res):
        if st != "ok":
            stats[st] = stats.get(st, 0) + 1
            if st == "exc":
                env.proof_broken("harness error in the oracle worker", f"{src!r}: {val}")
            continue
        kind, info = val
        stats[kind] += 1
        if kind == "raise":
            raises[info] = raises.get(info, 0) + 1
        elif kind == "syntax":
            if len(syntax_samples) < 8:
                syntax_samples.append({"source": src, "dict": dc})
        elif kind == "bad":
            cls, msg = info[0], info[1]
            env.fail({"source": src, "dict_compress": dc, "variables_as_digraphs": dv}, msg, cls=cls,
                     extra={"code": info[2] if len(info) > 2 else ""})
        else:
            if re.search(r"[^A-Za-z0-9\s]", src):
                keys.append(f"{int(dc)}{int(dv)}:{src}")
    env.count(len(items), keys)
    env.note("oracle_inputs", {"position_payload_cases": len(pos), "positions": len(POSITIONS), "payloads_per_position": len(pos) // len(POSITIONS),
                               "raw_strings": len(raw), "random_codepage": len(rnd), "generated_programs": len(gen), "random_unicode": len(uni),
                               "marker_cases": len(marked), "markers": len(MARKERS), "evaluations_all_modes": len(items)})
    env.note("oracle_outcomes", stats)
    env.note("oracle_transpile_raised_by_class", raises)
    env.note("oracle_syntax_errors_not_C18", {"count": stats["syntax"], "samples": syntax_samples})
    for name, p, s in pos[:: max(1, len(pos) // 4)][:4]:
        env.sample({"position": name, "payload": p, "source": s})
    for name, m, s in marked[:: max(1, len(marked) // 4)][:4]:
        env.sample({"position": name, "marker_payload": m, "source": s})
    env.sample({"obligation": "C18: forall undict dv src l text, parse_tokens (tokenise_dv dv src) = Ok l -> transpile_ast undict l = TOk text -> safe_text false text"})
    env.sample({"obligation": "forallb ident_char re_keep_fnparam = true (and for / fncall / fndef / param_keep_chars / ascii_letters): classes re-read from the re.sub calls"})
    env.assume("the text model Model/Transpile.v equals vyxal.transpile on code-page input (checked by the exact-text correspondence, not proved); "
               "outside the code page only the oracle speaks")
    env.assume("helpers.indent_str is modelled for texts whose only line boundary is \\n; other Unicode line boundaries inside a string payload make "
               "textwrap.indent insert spaces inside the literal (still a constant; the oracle covers them)")
    env.assume("dictionary decompression is an arbitrary function in the proof (escape_string makes any string safe); secrets.token_hex ids are "
               "modelled as decimal counters (hex digits are within [A-Za-z0-9_] as well)")
    env.assume("a carriage return in a string payload is escaped like a newline (it used to be emitted raw, which made the whole module a "
               "SyntaxError: repaired in /repo); C18_string states the exact one-literal automaton for every string")
    env.assume("safe_text is a per-chunk predicate: that vocabulary lines are emitted only as whole templates is a fact of the model's structure, "
               "and that each template is a complete compilation unit is a translator fact (templates_self_contained)")


def search_without_tables(env):
    """The translator refused the sources (fail-closed): the oracle still runs, with the
    template texts taken from the implementation's own tables."""
    V.import_repo()
    from vyxal import encoding
    from vyxal.elements import elements, modifiers
    env.tables = {
        "encoding": {"codepage": encoding.codepage},
        "elements": [{"key": k, "text": v[0]} for k, v in elements.items()],
        "modifiers": [{"key": k, "text": v} for k, v in modifiers.items()],
    }
    env.note("tables_from_translator", False)
    run(env, with_model=False)
