"""C08 — vectorising elements act element-wise.

Deciding method: theorems in coq/Properties/C08.v.  `C08_sound1/2`: a dispatch skeleton
that passes `vec_complete` makes the generic element of coq/Model/Vectorise.v map
itself over lists (list -> map; list/scalar and scalar/list -> the scalar with every
item; list/list -> position by position, the shorter list continued with 0), for every
length, nesting depth and representation; `C08_table_partial`: every entry of the
curated table -- regenerated on every run by tools/gen_dispatch.py from elements.py
(the skeleton of every element function) and elements.yaml (`vectorise: true`) --
passes, apart from the combinations exempted through known_findings.json.

Tie to /repo: (1) the translator; (2) `vectorise`/`vy_zip` of the model evaluated inside
Coq against elements.vectorise called with a symbolic Python function on the same
arguments; (3) per curated element, the generic element instantiated with the
element's regenerated skeleton and with the implementation's own scalar results as
`base`, evaluated inside Coq against what the element returned for the list.

Oracle (independent of the model): for every curated element, lists of integers,
rationals and short strings, flat and nested, eager and lazy, in the shapes list,
list-scalar, scalar-list, list-list (equal and unequal lengths): the element applied to
the lists must equal the nested list of its own results on the items."""
from __future__ import annotations

import collections
import json
import time

from vlib import common as V
from vlib import nasty as N

MAXITEMS = 4000          # cap when forcing a result
INTS = (0, 1, 2, 3, -1, -2, 4, 5, 7, 10, 12)
RATS = ((1, 2), (-3, 4), (5, 3), (7, 2))
STRS = ("", "a", "ab", "1", "Ab c", "-", "xyz", "12")
TAGNAME = {"TNum": "number", "TStr": "str", "TList": "list", "TLazy": "LazyList"}


# ----------------------------------------------------------------------------
# values: json-able specs <-> Python values <-> Coq terms
# ----------------------------------------------------------------------------
# spec: int | str | {"q": [p, q]} | [spec, ...]

def build(spec, mode, top=True):
    """mode E: Python lists; L: LazyList at every level; T: LazyList at the top only;
    I: Python list at the top, LazyList below."""
    import sympy
    from vyxal.LazyList import LazyList
    if isinstance(spec, list):
        lazy = mode == "L" or (mode == "T" and top) or (mode == "I" and not top)
        items = [build(s, mode, False) for s in spec]
        return LazyList(iter(items)) if lazy else items
    if isinstance(spec, dict):
        if "e" in spec:                     # an irrational number, written as a sympy expression
            return sympy.sympify(spec["e"])
        return sympy.Rational(spec["q"][0], spec["q"][1])
    return spec


def build_args(args, modes):
    """One Python value per argument.  A second mode "=X" makes the second argument THE SAME OBJECT as the
    first (built in representation X); "~X" makes it a different top-level container holding the same item
    objects (so lazy sublists are shared between the two operands)."""
    if len(args) == 2 and modes[1][0] in "=~":
        from vyxal.LazyList import LazyList
        m = modes[1][-1]
        if modes[1][0] == "=":
            a = build(args[0], m)
            return [a, a]
        items = [build(x, m, False) for x in args[0]]
        lazy = m in "LT"
        return [LazyList(iter(list(items))) if lazy else list(items), LazyList(iter(list(items))) if lazy else list(items)]
    return [build(a, m) for a, m in zip(args, modes)]


class Huge(Exception):
    pass


def canon(x, budget=None):
    """Implementation value -> json-able canonical form (lists forced; sympy Integer/
    bool -> int; Rational -> {"q": [p, q]}; anything else an opaque printed form)."""
    import sympy
    import types
    from vyxal.LazyList import LazyList
    if budget is None:
        budget = [MAXITEMS]
    if isinstance(x, bool):
        return int(x)
    if isinstance(x, int):
        return x
    if isinstance(x, str):
        return x
    if isinstance(x, (list, tuple, LazyList, types.GeneratorType, range, map, filter)):
        out = []
        for y in x:
            budget[0] -= 1
            if budget[0] < 0:
                raise Huge()
            out.append(canon(y, budget))
        return out
    if isinstance(x, sympy.Integer):
        return int(x)
    if isinstance(x, sympy.Rational):
        return {"q": [int(x.p), int(x.q)]}
    if isinstance(x, (sympy.Basic, float, complex)):
        # the value as any LazyList delivers it (LazyList.__next__ applies
        # helpers.vyxalify): floats and inexact sympy numbers become exact
        try:
            y = sympy.nsimplify(x, rational=True)
        except Exception:  # noqa: BLE001
            y = x
        if isinstance(y, sympy.Integer):
            return int(y)
        if isinstance(y, sympy.Rational):
            return {"q": [int(y.p), int(y.q)]}
        return {"sym": sympy.srepr(y)} if isinstance(y, sympy.Basic) else {"float": repr(y)}
    if x is None:
        return {"none": 1}
    if isinstance(x, types.FunctionType):
        return {"fn": 1}
    return {"obj": type(x).__name__, "repr": repr(x)[:80]}


def is_list_spec(s):
    return isinstance(s, list)


def tag_of(spec, mode, top=True):
    mode = mode[-1]
    if isinstance(spec, list):
        lazy = mode == "L" or (mode == "T" and top) or (mode == "I" and not top)
        return "TLazy" if lazy else "TList"
    return "TStr" if isinstance(spec, str) else "TNum"


def cv(c):
    """canonical value -> Coq term of type v (lists eager; rationals become reserved
    VNums; other atoms that are neither int nor str become marked strings, injectively)."""
    if isinstance(c, bool):
        c = int(c)
    if isinstance(c, int):
        return f"VNum ({c})%Z"
    if isinstance(c, str):
        return f"VStr {V.cstr(c)}"
    if isinstance(c, list):
        return "VList false " + V.clist(("(" + cv(y) + ")" for y in c), "v")
    if isinstance(c, dict) and "q" in c and abs(c["q"][0]) < 10 ** 22 and c["q"][1] < 10 ** 22:
        # a rational is a NUMBER for vy_type: a VNum in a reserved range (kept short:
        # coqc reads a 400-digit literal in a quarter of a second)
        return f"VNum ({10 ** 47 + (c['q'][0] + 10 ** 22) * 10 ** 23 + c['q'][1]})%Z"
    return f"VStr {V.cstr(chr(1) + json.dumps(c, sort_keys=True))}"


def costly_literal(c):
    """Would the Coq literal of this canonical value be slow to read (coqc converts decimal
    literals in quadratic time)?  Such cases stay in the oracle, they only skip the ties."""
    if isinstance(c, bool):
        return False
    if isinstance(c, int):
        return abs(c) >= 10 ** 60
    if isinstance(c, str):
        return len(c) > 300
    if isinstance(c, list):
        return any(costly_literal(y) for y in c)
    if isinstance(c, dict):
        return any(costly_literal(y) for y in c.values())
    return False


def cv_in(spec, mode, top=True):
    """input spec in a representation mode -> Coq term of type v (with lazy flags)."""
    if isinstance(spec, list):
        lazy = mode == "L" or (mode == "T" and top) or (mode == "I" and not top)
        return f"VList {'true' if lazy else 'false'} " + V.clist(("(" + cv_in(y, mode, False) + ")" for y in spec), "v")
    return cv(spec)


# ----------------------------------------------------------------------------
# the element-wise specification, stated on the implementation
# ----------------------------------------------------------------------------

class ScalarRejects(Exception):
    def __init__(self, args, why):
        self.sargs = args
        self.why = why


def own_call(fn, args, modes, cache):
    """The element's own answer on one application: on scalars (every representation
    mode is then irrelevant) or on a documented overload that takes a list whole."""
    from vyxal.context import Context
    k = json.dumps([args, modes], sort_keys=True)
    if k in cache:
        r = cache[k]
    else:
        try:
            r = ("ok", canon(fn(*build_args(args, modes), ctx=Context())))
        except V.Timeout:
            raise
        except Huge:
            r = ("exc", "result too large")
        except RecursionError:
            r = ("exc", "RecursionError")
        except BaseException as e:  # noqa: BLE001
            r = ("exc", type(e).__name__)
        cache[k] = r
    if r[0] != "ok":
        raise ScalarRejects(args, r[1])
    return r[1]


def tags_of(args, modes):
    return tuple(tag_of(a, m) for a, m in zip(args, modes))


def child_modes(modes):
    # below the top: L stays lazy, T becomes eager, I becomes lazy, E stays eager
    return [{"L": "L", "T": "E", "I": "L", "E": "E"}[m[-1]] for m in modes]


def children(args, modes):
    """The applications of the next level: [(args, modes)]."""
    cm = child_modes(modes)
    if len(args) == 1:
        return [([x], cm) for x in args[0]]
    a, b = args
    if is_list_spec(a) and is_list_spec(b):
        n = max(len(a), len(b))
        return [([a[i] if i < len(a) else 0, b[i] if i < len(b) else 0], cm) for i in range(n)]
    if is_list_spec(a):
        return [([x, b], [cm[0], "E"]) for x in a]
    return [([a, y], ["E", cm[1]]) for y in b]


def spec_apply(fn, args, modes, cache, ex):
    """The nested list of the element's own results that the property demands: list ->
    per item; list/scalar, scalar/list -> the scalar with every item; list/list ->
    position by position, the shorter list continued with 0; recursively.  `ex`: the
    argument-type combinations that are documented overloads of this element -- there
    the element's own answer is a leaf, exactly as for scalars."""
    if not any(is_list_spec(a) for a in args):
        return own_call(fn, args, ["E"] * len(args), cache)
    if tags_of(args, modes) in ex:
        return own_call(fn, args, modes, cache)
    return [spec_apply(fn, a, m, cache, ex) for a, m in children(args, modes)]


def impl_apply(fn, args, modes):
    from vyxal.context import Context
    try:
        return ("ok", canon(fn(*build_args(args, modes), ctx=Context())))
    except V.Timeout:
        raise
    except Huge:
        return ("exc", "result too large")
    except RecursionError:
        return ("exc", "RecursionError")
    except BaseException as e:  # noqa: BLE001
        return ("exc", type(e).__name__ + ": " + str(e)[:80])


def blame(fn, args, modes, cache, ex, depth=0):
    """Smallest sub-application on which the implementation already differs from the
    specification while all of ITS sub-applications agree."""
    if depth < 4 and tags_of(args, modes) not in ex:
        for ch, cm in children(args, modes):
            if not any(is_list_spec(x) for x in ch):
                continue
            try:
                want = spec_apply(fn, ch, cm, cache, ex)
            except ScalarRejects:
                continue
            got = impl_apply(fn, ch, cm)
            if got != ("ok", want):
                return blame(fn, ch, cm, cache, ex, depth + 1)
    return args, modes


def patch_random():
    # a few scalar overloads draw from `random`; make the draws a function of their
    # arguments (this worker process only) so that "the element's result on an item" exists
    import random
    random.choice = lambda seq: seq[0]
    random.randint = lambda a, b: a
    random.shuffle = lambda x: None


def run_case(item):
    """One (element, arguments, representation) case, in a forked worker."""
    fnname, args, modes, ex = item
    from vyxal import elements as E
    patch_random()
    fn = getattr(E, fnname)
    ex = {tuple(t) for t in ex}
    if tags_of(args, modes) in ex:
        return {"s": "documented"}
    cache = {}
    t0 = time.time()
    try:
        want = spec_apply(fn, args, modes, cache, ex)
    except ScalarRejects as r:
        return {"s": "skip", "why": f"{r.why} on argument types ({', '.join(TAGNAME[tag_of(a, 'E')] for a in r.sargs)})"}
    t1 = time.time()
    try:
        got = impl_apply(fn, args, modes)
    except V.Timeout:
        if t1 - t0 < 1.0:
            return {"s": "fail", "what": f"every scalar application finished ({t1 - t0:.2f}s in total) but the application to the lists did not finish",
                    "blame": [args, modes], "want": want, "got": "timeout"}
        raise
    if got == ("ok", want):
        leaves = [(json.loads(k), r[1]) for k, r in cache.items() if r[0] == "ok"]
        return {"s": "ok", "got": want, "leaves": leaves}
    # a scalar overload that answers differently when asked again has no "list of its
    # results": skip
    try:
        again = spec_apply(fn, args, modes, {}, ex)
    except ScalarRejects:
        again = None
    if again != want:
        return {"s": "skip", "why": "scalar overload is not deterministic on these items"}
    bargs, bmodes = blame(fn, args, modes, cache, ex)
    try:
        bwant = spec_apply(fn, bargs, bmodes, cache, ex)
    except ScalarRejects:
        bwant = None
    bgot = impl_apply(fn, bargs, bmodes)
    return {"s": "fail", "what": "the element applied to the lists is not the list of its results on the items",
            "blame": [bargs, bmodes], "want": bwant, "got": bgot[1] if bgot[0] == "ok" else "raises " + bgot[1],
            "top_want": want, "top_got": got[1] if got[0] == "ok" else "raises " + got[1]}


# ----------------------------------------------------------------------------
# input generation (everything from env.rng)
# ----------------------------------------------------------------------------

PROFILES = (("int", 0.22), ("rat", 0.08), ("str", 0.10), ("mix", 0.10), ("twin", 0.28), ("nasty", 0.22))
PROFILE_TEXT = ("22% small integers only, 8% integers+rationals, 10% strings only, 10% mixed, 28% spelling twins (a value and the "
                "string that spells it, repeated, in one list at every level: 3/'3', 1/2/'1/2', 0/'0'/'', [1, 2]/'[1, 2]'), 22% numeric "
                "extremes (integers around 2**53, 2**63, 2**64, 10**20; rationals within 1e-9..1e-15 of an integer; tiny; huge denominators)")


class Profile:
    """The kind of leaves one case draws: a name and, for twins, the shared base values."""

    def __init__(self, rng):
        r, acc = rng.random(), 0.0
        self.name = PROFILES[-1][0]
        for name, w in PROFILES:
            acc += w
            if r < acc:
                self.name = name
                break
        self.bases = N.twin_bases(rng) if self.name == "twin" else None

    def leaf(self, rng):
        p = self.name
        if p == "twin":
            return N.twin_leaf(rng, self.bases) if rng.random() < 0.8 else rng.choice(INTS[:6])
        if p == "nasty":
            return N.pick_number(rng, 0.6)
        r = rng.random()
        if p == "int" or (p == "rat" and r < 0.5) or (p == "mix" and r < 0.4):
            return rng.choice(INTS[:6]) if rng.random() < 0.6 else rng.choice(INTS)
        if p == "rat" or (p == "mix" and r < 0.6):
            return {"q": list(rng.choice(RATS))}
        return rng.choice(STRS)

    def list(self, rng, depth, maxlen, length=None):
        if self.name == "twin" and (length is None or length >= 2):
            return N.twin_list(rng, self.bases, depth, maxlen, length)
        if self.name == "nasty" and (length is None or length >= 1):
            return N.nasty_number_list(rng, depth, maxlen, length)
        n = length if length is not None else (rng.randint(1, maxlen) if rng.random() < 0.9 else 0)
        out = []
        for _ in range(n):
            if depth > 1 and rng.random() < 0.5:
                out.append(self.list(rng, depth - 1, maxlen))
            else:
                out.append(self.leaf(rng))
        return out


def spec_depth(s):
    return 1 + max([spec_depth(x) for x in s] or [0]) if isinstance(s, list) else 0


def gen_inputs(env):
    """-> (monadic cases, dyadic cases); a case = (shape, args, modes)."""
    rng = env.rng
    maxdepth = env.budget(2, 3)
    maxlen = env.budget(3, 5)
    n1 = env.budget(84, 320)
    n2 = env.budget(40, 140)
    modes1 = env.budget(["E", "L"], ["E", "L", "T", "I"])
    modes2 = env.budget([("E", "E"), ("L", "L"), ("E", "L"), ("L", "E")],
                        [("E", "E"), ("L", "L"), ("E", "L"), ("L", "E"), ("T", "I"), ("I", "T")])
    mon, dy = [], []
    fixed1 = [[], [0], [1, 2, 3], [[1, 2], [3]], [[], [1]], ["a", "ab"], [1, "a", {"q": [1, 2]}], [[1, [2, 3]], 4][: maxdepth + 1]]
    fixed1 += [list(x) for x in N.FIXED_TWIN_LISTS + N.FIXED_EXTREME_LISTS]
    specs1 = list(fixed1)
    while len(specs1) < n1:
        specs1.append(Profile(rng).list(rng, rng.randint(1, maxdepth), maxlen))
    for s in specs1:
        for m in modes1:
            mon.append(("list", [s], [m]))
    # the fixed lists against a scalar that is a twin of / equal to one of their items, on both sides
    fixed2 = []
    for lst in N.FIXED_TWIN_LISTS + N.FIXED_EXTREME_LISTS:
        leaves = [x for x in N.leaves_of(list(lst))]
        for sc in (2, leaves[0], N.spell(leaves[0])):
            fixed2.append(("list-scalar", [list(lst), sc]))
            fixed2.append(("scalar-list", [sc, list(lst)]))
        fixed2.append(("list-list-equal", [list(lst), list(reversed(lst))]))
        fixed2.append(("list-list-unequal", [list(lst) + ["0", 0], list(lst)]))
    fixed2 = fixed2[:: env.budget(3, 1)]
    for shape, args in fixed2:
        for ms in modes2[:2]:
            dy.append((shape, args, list(ms)))
    for shape in ("list-scalar", "scalar-list", "list-list-equal", "list-list-unequal"):
        for i in range(n2):
            prof = Profile(rng)
            d = rng.randint(1, maxdepth)
            if shape == "list-scalar":
                args = [prof.list(rng, d, maxlen), prof.leaf(rng)]
            elif shape == "scalar-list":
                args = [prof.leaf(rng), prof.list(rng, d, maxlen)]
            elif shape == "list-list-equal":
                n = rng.randint(0, maxlen) if i else 0
                args = [prof.list(rng, d, maxlen, n), prof.list(rng, rng.randint(1, maxdepth), maxlen, n)]
            else:
                n = rng.randint(0, maxlen)
                m = rng.choice([k for k in range(0, maxlen + 1) if k != n])
                args = [prof.list(rng, d, maxlen, n), prof.list(rng, rng.randint(1, maxdepth), maxlen, m)]
            for ms in modes2:
                dy.append((shape, args, list(ms)))
    return mon, dy


# ----------------------------------------------------------------------------
# oracle-only cases: operands that are / share the same (lazy) object, irrational numbers
# ----------------------------------------------------------------------------
IRRATIONALS = [{"e": "sqrt(2)"}, {"e": "pi"}, {"e": "(1+sqrt(5))/2"}, {"e": "-sqrt(3)/2"}, {"e": "sqrt(2)*sqrt(3)"}, {"e": "2**(1/3)"}]


def gen_extra(env):
    """-> (monadic, dyadic) cases that go to the oracle only (the Coq models have neither object identity
    nor irrational numbers): (1) both operands of a dyad are the same list object, or different lists that
    hold the same item objects -- every representation; two iterators then walk one partially generated
    lazy list; (2) irrational numbers as scalars and as items, beside integers, rationals and strings."""
    rng = env.rng
    mon, dy = [], []
    shared = [[3, 1, 4, 1, 5, 9], [[1, 2], [3, [4, 5]], 6], [], [7], [[1, 2, 3], [4, 5, 6]], ["ab", 2, {"q": [1, 2]}], [0, [0, [0, 1]]]]
    for _ in range(env.budget(3, 12)):
        shared.append(Profile(rng).list(rng, rng.randint(1, 3), 4))
    for lst in shared:
        for m in ("=L", "=E", "=T", "=I", "~L", "~E"):
            dy.append(("same-object" if m[0] == "=" else "shared-items", [lst, lst], [m[-1], m]))
    irr_lists = [[1, IRRATIONALS[0], 2], [[IRRATIONALS[1], 3], [2]], [IRRATIONALS[2], {"q": [1, 2]}, "a"], list(IRRATIONALS[:4]),
                 [[1, [IRRATIONALS[0], 2]], 2], [IRRATIONALS[3], 0, -1], [IRRATIONALS[4], IRRATIONALS[5], 4]]
    for lst in irr_lists:
        for m in ("E", "L"):
            mon.append(("irrational-items", [lst], [m]))
        for sc in (2, 0, {"q": [1, 2]}, IRRATIONALS[0], "a"):
            dy.append(("irrational-list-scalar", [lst, sc], ["L", "E"]))
            dy.append(("irrational-scalar-list", [sc, lst], ["E", "E"]))
    for x in IRRATIONALS:
        for lst in ([1, 2, 3], [[1, 2], {"q": [3, 2]}, 0], ["a", 1], []):
            dy.append(("list-irrational-scalar", [lst, x], ["E", "E"]))
            dy.append(("irrational-scalar-list", [x, lst], ["E", "L"]))
    for a, b in zip(irr_lists, reversed(irr_lists)):
        dy.append(("irrational-list-list", [a, b], ["E", "L"]))
    return mon, dy


# ----------------------------------------------------------------------------
# which extreme values an element can take at all (some scalar overloads build a
# string / a range / a factorial as long as the number: those never finish)
# ----------------------------------------------------------------------------

PROBE_PARTNERS = (0, 2, "ab")


def run_probe(item):
    fnname, args = item
    from vyxal import elements as E
    from vyxal.context import Context
    patch_random()
    t0 = time.time()
    try:
        canon(getattr(E, fnname)(*[build(a, "E") for a in args], ctx=Context()))
    except V.Timeout:
        raise
    except BaseException:  # noqa: BLE001  (a rejected type is handled per case)
        pass
    return time.time() - t0


def probe_extremes(env, gd):
    """-> {function name: set of (argument position, json of the value)} for the extreme
    values on which a scalar application does not finish (soft timeout 1.5 s; calls that
    block inside C are killed).  Two rounds, to keep the number of killed calls small: one
    representative huge integer per (function, position) first -- when that one does not
    finish every huge integer is excluded there -- then all remaining values."""
    by = {r["key"]: r for r in gd["entries"]}
    pool = [x for x in N.NASTY_NUMBERS] + [x for x in N.TWIN_BASES if N.is_extreme(x) and x not in N.NASTY_NUMBERS]
    huge = [x for x in pool if isinstance(x, int)]
    rep = 2 ** 53 + 1
    fns = []
    for key in gd["curated"]:
        r = by[key]
        if (r["fn"], r["arity"]) not in fns:
            fns.append((r["fn"], r["arity"]))

    def items_for(fn, arity, x, positions):
        out = []
        if arity == 1:
            return [((fn, [x]), (fn, 0, x))] if 0 in positions else []
        for p in PROBE_PARTNERS + (x,):
            if 0 in positions:
                out.append(((fn, [x, p]), (fn, 0, x)))
            if 1 in positions:
                out.append(((fn, [p, x]), (fn, 1, x)))
        return out

    t0 = time.time()
    slow = collections.defaultdict(set)
    n = 0
    round1 = [it for fn, ar in fns for it in items_for(fn, ar, rep, (0, 1))]
    res = V.pmap(run_probe, [a for a, _ in round1], timeout=1.5, hard=5)
    n += len(round1)
    bad_pos = set()
    for (_, (fn, pos, x)), (st, _) in zip(round1, res):
        if st != "ok":
            bad_pos.add((fn, pos))
    for fn, pos in bad_pos:
        for x in huge:
            slow[fn].add((pos, json.dumps(x, sort_keys=True)))
    round2 = []
    for fn, ar in fns:
        for x in pool:
            positions = [p for p in range(ar) if not (isinstance(x, int) and (fn, p) in bad_pos)]
            if x != rep:
                round2 += items_for(fn, ar, x, positions)
    res = V.pmap(run_probe, [a for a, _ in round2], timeout=1.5, hard=5)
    n += len(round2)
    for (_, (fn, pos, x)), (st, _) in zip(round2, res):
        if st != "ok":
            slow[fn].add((pos, json.dumps(x, sort_keys=True)))
    V.log(f"[C08] probed {n} scalar applications on extreme values in {time.time() - t0:.1f}s; "
          f"{sum(len(v) for v in slow.values())} (function, position, value) excluded: they do not finish")
    env.note("extreme_values_excluded_as_too_slow", {fn: sorted({f"arg{p}:{x}" for p, x in v}) for fn, v in slow.items()})
    return slow


def usable(slow_fn, args):
    if not slow_fn:
        return True
    for pos, a in enumerate(args):
        for leaf in N.leaves_of(a):
            if N.is_extreme(leaf) and (pos, json.dumps(leaf, sort_keys=True)) in slow_fn:
                return False
    return True


# ----------------------------------------------------------------------------
# the oracle
# ----------------------------------------------------------------------------

def cls_of(key, args, modes):
    return "C08:" + key + ":" + ",".join(tag_of(a, m) for a, m in zip(args, modes))


def oracle(env, gd, mon, dy):
    V.import_repo()
    from vyxal import elements as E  # noqa: F401  (imported before the workers fork)
    by = {r["key"]: r for r in gd["entries"]}
    slow = probe_extremes(env, gd)
    dropped = collections.Counter()
    exempt = collections.defaultdict(list)
    for x in gd.get("doc_exempt", []):
        exempt[x["key"]].append(x["tags"])
    items, meta = [], []
    xmon, xdy = gen_extra(env)
    for key in gd["curated"]:
        r = by[key]
        for shape, args, modes in (mon if r["arity"] == 1 else dy):
            if not usable(slow.get(r["fn"]), args):
                dropped[key] += 1
                continue
            items.append((r["fn"], args, modes, exempt.get(key, [])))
            meta.append((key, shape))
        for shape, args, modes in (xmon if r["arity"] == 1 else xdy):
            if not usable(slow.get(r["fn"]), args):
                dropped[key] += 1
                continue
            items.append((r["fn"], args, modes, exempt.get(key, [])))
            meta.append((key, "x:" + shape))
    t0 = time.time()
    res = V.pmap(run_case, items, timeout=env.budget(5, 8), hard=env.budget(14, 22))
    V.log(f"[C08] oracle: {len(items)} cases in {time.time() - t0:.1f}s")
    per = collections.defaultdict(lambda: collections.Counter())
    skips = collections.defaultdict(collections.Counter)
    keys = []
    passed = []           # (key, shape, args, modes, got, leaves) for the model tie
    nfail = collections.Counter()
    depth_hist, shape_hist, type_hist = collections.Counter(), collections.Counter(), collections.Counter()
    for (key, shape), (fnname, args, modes, _), (st, val) in zip(meta, items, res):
        c = per[key]
        c["cases"] += 1
        if st == "timeout":
            c["timeout"] += 1
            skips[key]["timeout (scalar applications too slow)"] += 1
            continue
        if st == "exc":
            env.proof_broken("harness error in the C08 oracle worker", str(val))
            continue
        if val["s"] == "skip":
            c["skipped"] += 1
            skips[key][val["why"]] += 1
            continue
        if val["s"] == "documented":
            c["documented_overload"] += 1
            skips[key]["documented overload (" + ", ".join(TAGNAME[t] for t in tags_of(args, modes)) + ")"] += 1
            continue
        depth_hist[max(spec_depth(a) for a in args)] += 1
        shape_hist[shape + "/" + "".join(modes)] += 1
        if any(N.has_twin_pair(a) for a in args):
            type_hist["one list holds a value and the string that spells it"] += 1
        if any(N.is_extreme(x) for a in args for x in N.leaves_of(a)):
            type_hist["contains a numeric extreme"] += 1
        if val["s"] == "ok":
            c["ok"] += 1
            keys.append(f"{key}|{json.dumps(args, sort_keys=True)}|{''.join(modes)}")
            if not shape.startswith("x:"):          # oracle-only cases stay out of the model ties
                passed.append((key, shape, args, modes, val["got"], val["leaves"]))
            continue
        c["fail"] += 1
        bargs, bmodes = val["blame"]
        cls = cls_of(key, bargs, bmodes)
        nfail[cls] += 1
        inp = {"element": key, "function": fnname, "shape": shape, "args": args, "representation": modes,
               "smallest_failing_application": {"args": bargs, "representation": bmodes}}
        env.fail(inp, f"{val['what']}: {fnname}{tuple(bargs)} [{','.join(bmodes)}] gives {json.dumps(val['got'], ensure_ascii=False)[:200]}, "
                      f"element-wise it is {json.dumps(val['want'], ensure_ascii=False)[:200]}", cls=cls)
    env.count(sum(c["cases"] for c in per.values()), keys)
    env.note("per_element", {k: dict(c) for k, c in per.items()})
    env.note("skipped_combinations", {k: dict(c) for k, c in skips.items() if c})
    env.note("failures_by_class", dict(nfail))
    env.note("input_distribution", {"max_nesting_depth": dict(depth_hist), "shape/representation": dict(shape_hist),
                                    "max_depth": env.budget(2, 3), "max_length": env.budget(3, 5),
                                    "leaf_pools": {"ints": INTS, "rationals": RATS, "strings": STRS,
                                                   "nasty_numbers (vlib/nasty.py)": [N.spell(x) for x in N.NASTY_NUMBERS],
                                                   "twin_bases": [N.spell(x) for x in N.TWIN_BASES], "awkward_strings": N.AWKWARD_STRINGS},
                                    "evaluated_cases_by_family": dict(type_hist),
                                    "cases_dropped_because_an_extreme_value_is_too_slow_for_the_element": dict(dropped),
                                    "profiles": PROFILE_TEXT})
    never = [k for k, c in per.items() if c["ok"] + c["fail"] == 0]
    env.note("elements_without_an_evaluated_case", never)
    return passed


# ----------------------------------------------------------------------------
# documented-vectorising entries outside the curated table: dynamic only
# ----------------------------------------------------------------------------

def run_template_case(item):
    text, arity, args, modes = item
    import vyxal.elements as E
    from vyxal.context import Context
    g = dict(vars(E))

    def call(*xs, ctx):
        stack = list(xs)
        g2 = dict(g)
        g2.update(stack=stack, ctx=ctx)
        ctx.stacks.append(stack)
        exec(text, g2)  # the table's own template
        return stack[-1]
    call.__name__ = "template"
    cache = {}

    def fn(*xs, ctx):
        return call(*xs, ctx=ctx)
    patch_random()
    import contextlib
    import io
    with contextlib.redirect_stdout(io.StringIO()):
        try:
            want = spec_apply(fn, args, modes, cache, set())
        except ScalarRejects:
            return "skip"
        got = impl_apply(fn, args, modes)
    return "ok" if got == ("ok", want) else "differs"


def dynamic_only(env, gd, mon, dy):
    els = {}
    for e in env.tables["elements"]:
        els[e["key"]] = e
    out = {}
    for u in gd["uncovered"]:
        e = els.get(u["key"])
        rec = {"name": u.get("name", ""), "reason": u["reason"]}
        if e is None or e["arity"] not in (1, 2):
            rec["dynamic"] = "not run (no table entry or arity outside 1..2)"
            out[u["key"]] = rec
            continue
        cases = [c for c in (mon if e["arity"] == 1 else dy)
                 if not any(N.is_extreme(x) for a in c[1] for x in N.leaves_of(a))][: env.budget(40, 160)]
        res = V.pmap(run_template_case, [(e["text"], e["arity"], a, m) for _, a, m in cases], timeout=3, hard=8)
        c = collections.Counter(v if st == "ok" else st for st, v in res)
        rec["dynamic"] = dict(c)
        out[u["key"]] = rec
    env.note("documented_vectorising_outside_curated_table", out)


# ----------------------------------------------------------------------------
# model ties evaluated inside Coq
# ----------------------------------------------------------------------------

PRE = ("From Coq Require Import List NArith ZArith Bool.\n"
       "From Vy Require Import Model.Base Model.Vectorise Gen.Dispatch.\nImport ListNotations.\n")
PRE_MODEL = ("From Coq Require Import List NArith ZArith Bool.\n"
             "From Vy Require Import Model.Base Model.Vectorise.\nImport ListNotations.\n")


def symf1(lhs, ctx=None):
    return ["f", lhs]


def symf2(lhs, rhs, ctx=None):
    return ["f", lhs, rhs]


def run_vectorise(item):
    args, modes = item
    from vyxal import elements as E
    from vyxal.context import Context
    vals = [build(a, m) for a, m in zip(args, modes)]
    r = E.vectorise(symf1 if len(vals) == 1 else symf2, *vals, ctx=Context())
    return canon(r)


def vectorise_tie(env, mon, dy):
    """Model vectorise1/vectorise2/zip_fill vs elements.vectorise/vy_zip on the same
    arguments, the mapped function being symbolic on both sides."""
    cases = []
    seen = set()
    for _, args, modes in mon + dy:
        k = json.dumps([args, modes], sort_keys=True)
        if k not in seen:
            seen.add(k)
            cases.append((args, modes))
    cases += [(["abc"], ["E"]), ([""], ["E"]), (["a", [1, 2]], ["E", "L"]), ([[1, 2], "xy"], ["T", "E"])]
    cap = env.budget(700, 3000)
    if len(cases) > cap:      # evenly, so that every shape stays represented
        cases = [cases[(i * len(cases)) // cap] for i in range(cap)]
    res = V.pmap(run_vectorise, cases, timeout=5)
    good = []
    for (args, modes), (st, val) in zip(cases, res):
        if st != "ok":
            env.disagree("vectorise", {"args": args, "representation": modes}, "(a list)", f"{st}: {val}")
        elif not costly_literal(val):
            good.append((args, modes, val))
    f1 = "(fun a => VList false [VStr [102]%N; a])"
    f2 = "(fun a b => VList false [VStr [102]%N; a; b])"

    def case_coq(c):
        args, modes, val = c
        a = cv_in(args[0], modes[0])
        b = cv_in(args[1], modes[1]) if len(args) == 2 else "VErr"
        return f"({'true' if len(args) == 2 else 'false'}, {a}, {b}, {cv(val)})"
    chk = (f"fun c : (bool * v * v * v) => match c with (dy, a, b, r) => v_eqb (eager (if dy then vectorise2 {f2} a b else vectorise1 {f1} a)) r end")
    ok, bad, logs = env.coq_mismatches("vec", PRE_MODEL, lambda lo, hi: V.clist((case_coq(c) for c in good[lo:hi]), "(bool * v * v * v)"), chk, len(good), shard=250)
    if not ok:
        env.proof_broken("vectorise correspondence cases failed to evaluate", logs)
    for i in bad:
        env.disagree("vectorise", {"args": good[i][0], "representation": good[i][1]}, "(model vectorise/zip_fill disagrees)", good[i][2])
    env.count(len(good), (f"vectorise|{json.dumps(a, sort_keys=True)}|{''.join(m)}" for a, m, _ in good))
    env.note("vectorise_tie_cases", len(good))


def element_tie(env, gd, passed):
    """Generic element of the model, instantiated with the element's regenerated
    skeleton and the implementation's own scalar results, vs the element on lists."""
    per_key = collections.defaultdict(list)
    cap = env.budget(10, 30)
    for rec in passed:
        key, shape, args, modes, got, leaves = rec
        if len(leaves) <= 24 and len(per_key[(key, shape)]) < cap and not costly_literal([args, got, [r for _, r in leaves]]):
            per_key[(key, shape)].append(rec)
    sel = [r for rs in per_key.values() for r in rs]

    def case_coq(c):
        key, shape, args, modes, got, leaves = c
        a = cv_in(args[0], modes[0])
        if len(args) == 2:
            b = cv_in(args[1], modes[1])
            tbl = V.clist((f"({cv_in(k[0][0], k[1][0])}, {cv_in(k[0][1], k[1][1])}, {cv(r)})" for k, r in leaves), "(v * v * v)")
            return f"({V.cstr(key)}, {a}, {b}, ([] : list (v * v)), {tbl}, {cv(got)})"
        tbl = V.clist((f"({cv_in(k[0][0], k[1][0])}, {cv(r)})" for k, r in leaves), "(v * v)")
        return f"({V.cstr(key)}, {a}, VErr, {tbl}, ([] : list (v * v * v)), {cv(got)})"
    chk = ("fun c : (str * v * v * list (v * v) * list (v * v * v) * v) => match c with (k, a, b, t1, t2, r) => match find_entry k curated with "
           "| Some e => v_eqb (eager (match de_arity e with "
           "| 1%nat => elem1 (de_tree e) default_flags (fun _ => false) (lookup1 t1) a "
           "| _ => elem2 (de_tree e) default_flags (fun _ => false) (lookup2 t2) a b end)) r "
           "| None => false end end")
    ty = "(str * v * v * list (v * v) * list (v * v * v) * v)"
    ok, bad, logs = env.coq_mismatches("elem", PRE, lambda lo, hi: V.clist((case_coq(c) for c in sel[lo:hi]), ty), chk, len(sel), shard=200)
    if not ok:
        env.proof_broken("element/skeleton correspondence cases failed to evaluate", logs)
    for i in bad:
        key, shape, args, modes, got, _ = sel[i]
        env.disagree("dispatch skeleton of " + key, {"element": key, "shape": shape, "args": args, "representation": modes},
                     "(generic element with the regenerated skeleton disagrees)", got)
    env.count(len(sel), ())
    env.note("element_tie_cases", len(sel))
    env.note("element_tie_elements", len({k for k, _ in per_key}))


# ----------------------------------------------------------------------------

def run(env):
    gd = env.tables.get("gen_dispatch")
    if gd is None:
        env.proof_broken("translator", "tools/gen_dispatch.py did not run")
        return search_without_tables(env)
    env.rule = ("oracle: every curated element x generated argument lists (integers, rationals, short strings; flat and nested to depth "
                "2 quick / 3 thorough, length <= 3 / 5) x shapes list, list-scalar, scalar-list, list-list equal, list-list unequal x "
                "representations (Python list / LazyList per argument; thorough also top-only and below-top-only lazy): element(lists) == nested list of "
                "element(items). A case is NON-TRIVIAL when every scalar application succeeded and the comparison was made (cases where a "
                "scalar overload rejects the item types are skipped and counted per reason; an (element, argument types) pair for which "
                "elements.yaml documents an overload taking the list and the element implements one is excluded at the top level and "
                "taken as a leaf below it -- listed under documented_overloads_excluded); distinct by (element, arguments, representation). "
                "Model ties inside Coq: vectorise/zip_fill vs elements.vectorise with a symbolic function; generic element with each "
                "regenerated skeleton and the implementation's scalar results vs the element on lists.")
    by = {r["key"]: r for r in gd["entries"]}
    env.note("curated_elements", len(gd["curated"]))
    env.note("documented_vectorising", gd["documented_vectorising"])
    env.note("curated_shapes", dict(collections.Counter(by[k]["tree"]["k"] for k in gd["curated"])))
    env.note("skeleton_incomplete_shapes", {k: [" ".join(x["tags"]) for x in by[k]["incomplete"]] for k in gd["curated"] if by[k]["incomplete"]})
    env.note("documented_overloads_excluded", [{"element": x["key"], "function": x["fn"], "argument_types": [TAGNAME[t] for t in x["tags"]],
                                                "elements_yaml_overload": x["doc_key"], "documented_text": x["text"]} for x in gd.get("doc_exempt", [])])
    env.note("doc_overload_keys_not_understood", gd.get("doc_keys_not_understood", []))
    env.note("value_tests_in_curated_skeletons", {k: by[k]["opaque"] for k in gd["curated"] if by[k]["opaque"]})
    env.note("lazylist_call_returns_self", gd["lazylist_call_returns_self"])
    # static verdict per element, so that a failed C08_table comes with its reason
    env.note("skeletons_not_elementwise", gd.get("not_elementwise", []))
    if gd.get("error"):
        env.proof_broken("translator tools/gen_dispatch.py", gd["error"])
    V.import_repo()
    mon, dy = gen_inputs(env)
    t0 = time.time()
    passed = oracle(env, gd, mon, dy)
    t1 = time.time()
    vectorise_tie(env, mon, dy)
    t2 = time.time()
    if env.coq_ok:
        element_tie(env, gd, passed)
    t3 = time.time()
    dynamic_only(env, gd, mon, dy)
    V.log(f"[C08] phases: oracle {t1 - t0:.0f}s, vectorise tie {t2 - t1:.0f}s, element tie {t3 - t2:.0f}s, dynamic-only {time.time() - t3:.0f}s")
    for p in passed[:: max(1, len(passed) // 6)][:6]:
        env.sample({"element": p[0], "shape": p[1], "args": p[2], "representation": p[3], "result": p[4]})
    env.sample({"obligation": f"forall e, In e curated -> entry_ok doc_overloads e = true ({len(gd['curated'])}-entry sweep by vm_compute)"})
    env.assume("default context (all flags off): ḃ vectorises only while ctx.truthy_lists is False")
    env.assume("what an element does when every argument is a scalar is arbitrary (`base`); the model's Z stands for int and Rational alike")
    env.assume("Python's dict display / .get on vy_type tuples behaves as the model's Table (last equal key wins); checked per element by the element tie, not proved")
    env.assume("LazyList(iterator) yields the iterator's items in order (C13's model); forcing a result list terminates")
    env.assume("results are compared as a LazyList delivers them: LazyList.__next__ applies helpers.vyxalify, which turns floats and inexact sympy "
               "numbers into exact ones (2**-1 is the float 0.5 alone and Rational(1,2) inside a vectorised result; the property observes simplified results, where both are 0.5)")
    env.assume("random.choice / randint / shuffle are replaced by deterministic functions inside the oracle's worker processes (ƈ draws at random), otherwise 'the result on an item' is not defined")
    env.assume("the translator's Vec leaves are exact: `return vectorise(<same function>, <unmodified parameters in order>)` in tail position")


def search_without_tables(env):
    env.rule = "translator failed; oracle on the implementation only, over every elements.yaml vectorise:true entry backed by a function"
    try:
        V.import_repo()
        import gen_dispatch
        gd = gen_dispatch.analyse(V.REPO)
    except Exception as e:  # noqa: BLE001
        env.proof_broken("implementation / translator does not load", repr(e))
        return
    mon, dy = gen_inputs(env)
    oracle(env, gd, mon, dy)
