"""C04 — omitting trailing closers never changes the parse.

Deciding method: theorems in coq/Properties/C04.v (any sequence of trailing closer
tokens can be dropped, for every program; unterminated strings end at end of input)
about the hand-written lexer/parser models, whose token-kind guards and constant
tables are regenerated from /repo; the models are tied to lexer.tokenise / parse.parse
by the correspondence below; the oracle states the property on the implementation."""
from __future__ import annotations

from vlib import common as V
from vlib import lexcorr, parsecorr, progs


def impl_repr(src):
    from vyxal.lexer import tokenise
    from vyxal.parse import parse
    try:
        return "ok:" + repr(parse(tokenise(src)))
    except (IndexError, ValueError, AssertionError) as e:
        return "err:" + type(e).__name__


def gen_cases(env, n_programs, depth):
    # payloads include the newline: an unterminated string must keep its last character
    g = progs.ProgGen(env.rng, payload_chars=list("abz019 \n") + progs.SYNTAX_PAYLOAD)
    cases = []
    while len(cases) < n_programs:
        p = g.program(env.rng.randint(1, depth))
        full, truncs = progs.truncations(p)
        if truncs:
            cases.append((full, truncs))
    # hand-written seeds covering every structure kind and string kind at the end
    for full, k in (("[1|2]", 1), ("(i|n,)", 1), ("{1|2}", 1), ("λ2|+;", 1), ("ƛ›;", 1), ("'2<;", 1), ("µN;", 1),
                    ("⟨1|2|3⟩", 1), ("@f:1|›;", 1), ("@f;", 1), ("[(λ⟨1|`ab`⟩;)]", 5), ("3(n[`x`|»ab»])", 3),
                    ("[1|(2|{3|λ4|⟨5⟩;})]", 5), ("v[1|2]", 1), ("₌[1]λ2;", 1), ("[`a`]", 2), ("(«ab«)", 2),
                    ("`abc\n`", 1), ("λ`ab\n`;", 2), ("«ab\n«", 1), ("[»1\n»]", 2), ("`a `", 1), ("`\n`", 1), ("(`a\n\n`)", 2)):
        cases.append((full, [full[: len(full) - i] for i in range(1, k + 1)]))
    # the last literal of the program ends in a character that could act on its closing delimiter: for every
    # literal kind x every last character of the lexer's own vocabulary (backslash, delimiters, digits ...) x
    # enclosing structures whose closers follow
    lasts = ["\\", "`", "»", "«", "0", ".", "‛", "→", "#", "k", "⁺", "\n", "a"]
    for lo, lc in (("`", "`"), ("»", "»"), ("«", "«")):
        for last in lasts:
            if last == lc or (lo == "`" and last == "\\"):
                continue          # the delimiter itself ends the literal; backslash in a back-quoted string is its escape
            for pre, clos in (("", ""), ("λ", ";"), ("[1|", "]"), ("(λ⟨", "⟩;)"), ("3(n[", "])")):
                full = pre + lo + "ab" + last + lc + clos
                k = 1 + len(clos)
                cases.append((full, [full[: len(full) - i] for i in range(1, k + 1)]))
    # layout before the closers: the same programs with blank space / line breaks / a comment line right before the first of
    # the trailing closers (inside the innermost open structure, so closed and truncated text hold the same layout tokens)
    layout = []
    pool = list(cases)
    env.rng.shuffle(pool)
    for full, truncs in pool[: env.budget(400, 4000)]:
        k = len(full) - min(len(x) for x in truncs)
        body, clos = full[: len(full) - k], full[len(full) - k:]
        for ws in (" ", "\n", "\n  ", "\t", " \n", "\n\n"):
            layout.append((body + ws + clos, [body + ws + clos[:j] for j in range(k)]))
    env.note("layout_before_closers_cases", len(layout))
    return cases + layout


def run(env):
    env.rule = ("correspondence: lexer and parser models vs the implementation on all token strings of length <= L over a 14-symbol "
                "structural alphabet (L=4 quick, 5 thorough), on grammar-generated closed programs (depth <= 4, every structure, "
                "modifier and literal kind) and on every truncation of their trailing closers; oracle on the implementation: "
                "repr(parse(tokenise(closed))) == repr(parse(tokenise(truncated))) for each truncation. "
                "Non-trivial = parses to at least one structure with a nested branch; distinct by source text.")
    t = env.tables
    # 1. lexer correspondence (small: C20 carries the large one)
    lexcorr.check(env, lexcorr.gen_strings(env, t, 2, env.budget(300, 3000)))
    # 2. parser correspondence
    cases = gen_cases(env, env.budget(2500, 30000), 4)
    srcs = list(parsecorr.exhaustive(env.budget(4, 5)))
    for full, truncs in cases:
        srcs.append(full)
        srcs += truncs
    parsecorr.check(env, srcs)
    # 3. oracle: the property on the implementation
    V.import_repo()
    flat = []
    for full, truncs in cases:
        flat.append(full)
        flat += truncs
    res = dict(zip(flat, V.pmap(impl_repr, flat, timeout=10)))
    n_pairs = 0
    depth_hist = {}
    for full, truncs in cases:
        st, r0 = res[full]
        if st != "ok" or not r0.startswith("ok:"):
            continue  # the closed program is not well-formed (e.g. dangling modifier)
        depth_hist[len(truncs)] = depth_hist.get(len(truncs), 0) + 1
        for tr in truncs:
            n_pairs += 1
            st, r1 = res[tr]
            if st != "ok" or r1 != r0:
                env.fail({"closed": full, "truncated": tr}, f"parse differs: {r0[:200]} vs {str(r1)[:200]}")
    env.count(n_pairs, (f"trunc:{full}" for full, truncs in cases if len(truncs) >= 1))
    env.note("closed_programs", len(cases))
    env.note("truncation_pairs_checked", n_pairs)
    env.note("trailing_closer_count_distribution", depth_hist)
    for full, truncs in cases[:4]:
        env.sample({"closed": full, "truncations": truncs})
    env.sample({"obligation": "C04_tokens: forall ts cs l1, all closer tokens cs -> parse_tokens (ts ++ cs) = Ok l1 -> exists l2, parse_tokens ts = Ok l2 /\\ same l1 l2"})
    env.assume("the lexer and parser models equal lexer.tokenise / parse.parse (checked by the correspondence, not proved)")
    env.assume("closed programs whose parse raises (e.g. a modifier without operands) are outside 'well-formed'")
    env.assume("trees are compared up to closer characters inside raw function-call names (the transpiler deletes them); exact equality is proved when no name contains one")
