"""C10 — values are immutable: no element changes a value another reference can see.

Deciding method: theorems in coq/Properties/C10.v.
 (a) the mutation summary tools/gen_mutation.py extracts from every function body of
     vyxal/elements.py, helpers.py and LazyList.py on every run (coq/Gen/Mutation.v): the least
     fixed point `may_mutate` over the call graph is computed in Coq, proved monotone / a
     fixed point / least / sound for the summary semantics, and swept over the element and
     modifier tables: every template outside the pinned suspect list is clean
     (C10_pure_table_partial).  A change of /repo that adds an in-place operation on an
     argument alias anywhere in the call graph of an unlisted element breaks this obligation.
 (b) the heap semantics of the duplicating templates (deep_copy = a lazy view of the same
     object; C13's heap reused): C10_copy / C10_triplicate for every sequence of non-mutating
     operations, C10_*_refuted witnesses for the in-place primitives.
Tie to the implementation, and the property's own observation (oracle):
 (1) every key of the run-time element table x generated argument tuples with at least one
     mutable argument (eager flat / nested lists, lazy lists over lists the harness keeps,
     function objects): structural snapshot before, exec of the element's template on a stack
     holding exactly these objects, results forced, arguments compared after;
 (2) copy programs  <value> <copy op> <sequence of <= 2 (quick) / <= 3 (thorough) elements>
     for the copy ops `:` (both directions), `D`, variable, register, global array: the
     untouched reference must still denote the original value;
 (3) named end-to-end programs through vlib.runprog.run.
A dynamic failure on an element the static summary calls clean is reported as a
disagreement (the summary would be unsound there)."""
from __future__ import annotations

import collections
import contextlib
import io
import itertools
import json
import re
import time

from vlib import common as V
from vlib import nasty

# ---------------------------------------------------------------------------------------
# canonical forms
# ---------------------------------------------------------------------------------------


def canon(v, depth=0, cap=400):
    """Canonical, JSON-friendly form.  Forces lazy lists (an observation C13 allows)."""
    import types
    import sympy
    from vyxal.LazyList import LazyList
    if isinstance(v, bool):
        return ["bool", int(v)]
    if isinstance(v, int):
        return ["int", str(v)]
    if isinstance(v, sympy.Integer):
        return ["int", str(int(v))]
    if isinstance(v, sympy.Rational):
        return ["rat", str(v.p), str(v.q)]
    if isinstance(v, str):
        return ["str", v]
    if isinstance(v, types.FunctionType):
        # the name is a hash chosen by the transpiler: not part of the value
        return ["fun", "", repr(getattr(v, "stored_arity", None)), repr(getattr(v, "arity", None))]
    if isinstance(v, (LazyList, list, tuple)):
        if depth > 6:
            return ["deep"]
        out = []
        for i, x in enumerate(v):
            if i >= cap:
                out.append(["..."])
                break
            out.append(canon(x, depth + 1, cap))
        return ["list", out]
    if isinstance(v, float):
        return ["float"]
    if isinstance(v, sympy.Basic):
        return ["sym", str(v)[:40]]
    return ["other", type(v).__name__]


def show(c):
    """compact text of a canonical form"""
    k = c[0]
    if k == "int":
        return c[1]
    if k == "rat":
        return f"{c[1]}/{c[2]}"
    if k == "str":
        return json.dumps(c[1], ensure_ascii=False)
    if k == "list":
        return "[" + ", ".join(show(x) for x in c[1]) + "]"
    if k == "fun":
        return f"<fun stored_arity={c[2]}>"
    return "<" + k + ">"


# ---------------------------------------------------------------------------------------
# part 1: every element x generated arguments
# ---------------------------------------------------------------------------------------

SCALARS = [("int", 0), ("int", 1), ("int", 2), ("int", 3), ("int", -1), ("int", 10),
           ("rat", 1, 2), ("rat", -3, 2), ("str", ""), ("str", "a"), ("str", "abc"), ("str", "1,2")]
SCALARS_Q = [("int", 0), ("int", 2), ("int", -1), ("rat", 1, 2), ("str", "abc")]
MUTABLES = [
    ("list", [1, 2, 3]), ("list", []), ("list", [3, 1, 2, 1]), ("list", ["a", "bc"]), ("list", [0]),
    ("list", [[1, 2], [3, 4]]), ("list", [[1], [2, [3]], 4]), ("list", [[1, 2, 3], [4, 5, 6], [7, 8, 9]]),
    ("list", [[]]), ("list", [[1, 0], [0, 1]]),
    ("lazy", [1, 2, 3], 0), ("lazy", [], 0), ("lazy", [[1, 2], [3, 4]], 0), ("lazy", [3, 1, 2], 1),
    ("lazy", [1, 2, 3, 4, 5, 6], 2),
    ("fun", "λ2+;"), ("fun", "⁽+"), ("fun", "λ2%;"), ("fun", "λ;"),
]
MUTABLES_Q = [("list", [1, 2, 3]), ("list", [3, 1, 2, 1]), ("list", ["a", "bc"]), ("list", [[1, 2], [3, 4]]),
              ("list", [[1, 2, 3], [4, 5, 6], [7, 8, 9]]), ("lazy", [1, 2, 3], 0), ("lazy", [[1, 2], [3, 4]], 0),
              ("lazy", [3, 1, 2], 1), ("fun", "λ2+;"), ("fun", "⁽+")]
# shapes of matrices and nests, for EVERY element (a helper that pads / walks rows writes into a
# row only when the shape makes it): ragged, tall, wide, empty rows, depth 3, lazy rows over
# kept sources ({"L": items} is a LazyList node), a lazy list of eager rows
SHAPES = [
    ("nest", [[1, 2], [3]]), ("nest", [[1], [2], [3]]), ("nest", [[1, 2, 3]]), ("nest", [[], [1]]),
    ("nest", [[[1], [2, 3]], [[4]]]), ("nest", [{"L": [1, 2]}, {"L": [3]}]), ("nest", {"L": [[1, 2], [3]]}),
    ("nest", [[1, 2], [3, 4], [5, 6]]), ("nest", [[1, 2], [3], []]), ("nest", [[1, 2, 3], [4]]),
    ("nest", [[0, 1], {"L": [2]}, [[3]]]), ("nest", {"L": [{"L": [1]}, [2, 3]]}),
]
SHAPES_Q = SHAPES[:7]
SHAPE_PARTNERS = [("int", 0), ("int", 2), ("str", "abc"), ("list", [1, 2, 3])]
MUTABLES_3 = [("nest", [[1, 2], [3]]), ("list", [1, 2, 3]), ("list", [[1, 2], [3, 4]]), ("lazy", [1, 2, 3], 0), ("lazy", [[1, 2], [3]], 1), ("fun", "λ2+;")]
SCALARS_3 = [("int", 0), ("int", 2), ("str", "ab"), ("rat", 1, 2)]

SKIP_KEYS = {
    "Q": "exits the interpreter",
    "¨U": "network request (online only)",
    "Ė": "executes its argument as Vyxal / Python code: covered by the elements it runs",
    "□": "reads all of stdin",
}

_NS = None
_FUN_CODE = {}
_CODE = {}


def _ns():
    """the namespace main.execute_vyxal execs in"""
    global _NS
    if _NS is None:
        import random
        import resource
        V.import_repo()
        import vyxal.main as M
        import warnings
        warnings.filterwarnings("ignore")
        _NS = dict(vars(M))
        random.seed(0)
        try:
            resource.setrlimit(resource.RLIMIT_AS, (3 << 30, 3 << 30))
        except Exception:  # noqa: BLE001
            pass
    return _NS


def fresh_ctx(stack):
    from vyxal.context import Context
    ctx = Context()
    ctx.stacks.append(stack)
    return ctx


def make_fun(text):
    """a real Vyxal function value: what the transpiled lambda pushes"""
    from vyxal.transpile import transpile
    ns = dict(_ns())
    if text not in _FUN_CODE:
        _FUN_CODE[text] = compile(transpile(text), "<fun>", "exec")
    stack = []
    ns.update(stack=stack, ctx=fresh_ctx(stack))
    exec(_FUN_CODE[text], ns)
    return stack[-1]


def deep_list(x):
    return [deep_list(i) for i in x] if isinstance(x, list) else x


def vy_scalar(spec):
    import sympy
    if spec[0] == "int":
        return spec[1]
    if spec[0] == "rat":
        return sympy.Rational(spec[1], spec[2])
    return spec[1]


def build_nest(x):
    """-> (value, plain source): {"L": items} becomes a LazyList over a list the harness keeps"""
    from vyxal.LazyList import LazyList
    if isinstance(x, dict):
        pairs = [build_nest(i) for i in x["L"]]
        src = [p[0] for p in pairs]                 # the list object the LazyList reads: kept
        return LazyList(src), src
    if isinstance(x, list):
        pairs = [build_nest(i) for i in x]
        return [p[0] for p in pairs], [p[1] for p in pairs]
    return x, x


def build(spec):
    """-> (value handed to the element, source list kept by the harness or None)"""
    from vyxal.LazyList import LazyList
    k = spec[0]
    if k == "nest":
        v, src = build_nest(spec[1])
        return v, (src if "L" in json.dumps(spec[1]) else None)
    if k in ("int", "rat", "str"):
        return vy_scalar(spec), None
    if k == "list":
        return deep_list(spec[1]), None
    if k == "lazy":
        src = deep_list(spec[1])
        L = LazyList(src)
        for _ in range(spec[2]):
            try:
                next(L)
            except StopIteration:
                break
        return L, src
    if k == "fun":
        return make_fun(spec[1]), None
    raise AssertionError(spec)


def nest_depth(x):
    if isinstance(x, dict):
        x = x["L"]
    return 1 + max([nest_depth(i) for i in x if isinstance(i, (list, dict))] + [0]) if isinstance(x, (list, dict)) else 0


def spec_kind(spec):
    if spec[0] == "nest" and len(spec) > 2:
        return spec[2] + ("-lazy" if "L" in json.dumps(spec[1]) else "")
    if spec[0] == "int" and abs(spec[1]) >= 7:
        return "int-out-of-range"
    if spec[0] == "nest":
        x = spec[1]
        txt = json.dumps(x)
        if "L" in txt:
            return "lazy-list-of-rows" if isinstance(x, dict) else "eager-list-with-lazy-rows"
        if nest_depth(x) >= 3:
            return "depth-3"
        lens = {len(r) for r in x if isinstance(r, list)}
        if len(lens) > 1:
            return "ragged"
        return "tall" if len(x) > max(lens | {0}) else "wide"
    if spec[0] == "list":
        return "nested-eager" if any(isinstance(i, list) for i in spec[1]) else "flat-eager"
    if spec[0] == "lazy":
        return "lazy-partly-read" if spec[2] else "lazy"
    return spec[0]


def nest_text(x):
    if isinstance(x, dict):
        return "LazyList([" + ", ".join(nest_text(i) for i in x["L"]) + "])"
    if isinstance(x, list):
        return "[" + ", ".join(nest_text(i) for i in x) + "]"
    return repr(x)


def spec_text(spec):
    if spec[0] == "nest":
        return nest_text(spec[1])
    if spec[0] == "lazy":
        return f"LazyList({spec[1]})" + (f" after {spec[2]} next()" if spec[2] else "")
    if spec[0] == "rat":
        return f"{spec[1]}/{spec[2]}"
    if spec[0] == "fun":
        return spec[1]
    return repr(spec[1])


def force_stack(stack, cap=40):
    for x in list(stack):
        try:
            canon(x, 0, cap)
        except BaseException as e:  # noqa: BLE001
            if isinstance(e, _Late):
                raise


class _Late(BaseException):
    pass


def _late(signum, frame):
    raise _Late()


def own_alarm(fn, item, tmo):
    """V.pmap's per-item alarm can fire inside its own `finally`; the workers therefore run
    under an alarm of their own (the pmap one is set far away and never fires)."""
    import signal
    signal.signal(signal.SIGALRM, _late)
    try:
        try:
            signal.setitimer(signal.ITIMER_REAL, tmo)
            return fn(item)
        finally:
            signal.setitimer(signal.ITIMER_REAL, 0)
    except _Late:
        return ("timeout", None)


def elem_case(item):
    return own_alarm(elem_case_, item, 1.5)


def elem_cases(item):
    """all argument tuples of one element; gives the element up after 10 time-outs"""
    key, tuples = item
    out = []
    late = 0
    for t in tuples:
        if late >= 10:
            out.append(("abandoned", None))
            continue
        r = elem_case((key, t))
        if r[0] == "timeout":
            late += 1
        out.append(r)
    return out


def copy_case(item):
    return own_alarm(copy_case_, item, 2.0)


def elem_case_(item):
    """one element on one argument tuple.  Returns (status, detail)."""
    key, specs = item
    ns = dict(_ns())
    import vyxal.elements as E
    vals, kept, snaps = [], [], []
    for sp in specs:
        v, src = build(sp)
        vals.append(v)
        kept.append(src)
        snaps.append(canon(src if src is not None else v))
    stack = list(vals)
    ctx = fresh_ctx(stack)
    ns.update(stack=stack, ctx=ctx)
    err = None
    code = _CODE.get(("elem", key))
    if code is None:
        code = _CODE[("elem", key)] = compile(E.elements[key][0], "<element>", "exec")
    with contextlib.redirect_stdout(io.StringIO()):
        try:
            exec(code, ns)
        except _Late:
            raise
        except BaseException as e:  # noqa: BLE001
            err = type(e).__name__
        try:
            force_stack(stack)
        except _Late:
            raise
    bad = []
    for i, (v, src, snap, sp) in enumerate(zip(vals, kept, snaps, specs)):
        if sp[0] in ("int", "rat", "str"):
            continue
        try:
            now = canon(v)
        except _Late:
            raise
        except BaseException as e:  # noqa: BLE001
            now = ["raises", type(e).__name__]
        if now != snap:
            bad.append((i, spec_text(sp), show(snap), show(now) if now[0] != "raises" else now[1], "argument"))
        elif src is not None and canon(src) != snap:
            bad.append((i, spec_text(sp), show(snap), show(canon(src)), "source list of the lazy argument"))
    return ("bad" if bad else "ok", {"error": err, "bad": bad})


COMPANIONS_Q = [("list", [1, 2, 3]), ("lazy", [1, 2, 3], 0), ("int", 2)]
COMPANIONS = COMPANIONS_Q + [("str", "abc"), ("list", [[1, 2], [3, 4]]), ("nest", [[1, 2], [3]]), ("int", 0), ("int", -1),
                             ("lazy", [[1, 2], [3]], 1), ("fun", "⁽+")]
HUGE = 10 ** 5


def degenerate_tuples(arity, env, intense=False):
    """Degenerate list / index / shape arguments (vlib.nasty) at EVERY position of EVERY element:
    empty lists first / middle / last, nested empties, singletons, lists of lists of indices,
    their lazy versions, and negative / out-of-range / huge numbers, each crossed with companions
    (an eager list, a lazy list, a number, ...) at the other positions."""
    q = not env.thorough and not intense
    shapes = [("nest", x, "degenerate") for x in nasty.degenerate_shapes(("outer",) if q else ("outer", "inner", "all"))]
    nums = [("int", n) for n in nasty.NASTY_INDEXES]
    comps = COMPANIONS_Q if q else COMPANIONS
    core = [("nest", x, "degenerate") for x in nasty.DEGENERATE_SHAPES_CORE]
    if arity == 1:
        return [(x,) for x in shapes]
    out = []
    if arity == 2:
        for x in shapes + nums:
            for c in comps:
                if x[0] == "int" and c[0] in ("int", "str", "rat"):
                    continue              # no mutable argument in the tuple
                out += [(x, c), (c, x)]
        out += [(a, b) for a in core for b in core] + [(a, b) for a in core for b in nums] + [(b, a) for a in core for b in nums]
        return out
    if arity == 3:
        c3 = COMPANIONS_Q if q else COMPANIONS[:6]
        for x in shapes + nums:
            for a in c3:
                for b in c3:
                    if x[0] == "int" and a[0] in ("int", "str") and b[0] in ("int", "str"):
                        continue
                    out += [(x, a, b), (a, x, b), (a, b, x)]
        out += [(a, b, c) for a in comps[:2] for b in core for c in core] + [(a, b, c) for a in core for b in core for c in comps[:3]]
        return out
    return []


def has_huge(t):
    return any(sp[0] == "int" and abs(sp[1]) >= HUGE for sp in t)


def arg_tuples(arity, env, intense=False):
    """intense: the argument set of the thorough tier plus every shape, used on every run for the
    elements the static summary flags (a pinned suspect is where a regression hides from the
    table theorem)"""
    q = not env.thorough and not intense
    if arity == 1:
        return [(m,) for m in ((MUTABLES_Q + SHAPES_Q) if q else (MUTABLES + SHAPES))]
    if arity == 2:
        mut = MUTABLES_Q if q else MUTABLES
        sca = SCALARS_Q if q else SCALARS
        out = [(a, b) for a in mut for b in mut + sca] + [(a, b) for a in sca for b in mut]
        shapes = SHAPES_Q if q else SHAPES
        partners = SHAPE_PARTNERS if q else (mut + sca)
        for sh in shapes:
            out += [(sh, b) for b in partners] + [(b, sh) for b in partners] + [(sh, sh)]
            if not q:
                out += [(sh, o) for o in shapes if o != sh]
        return out
    if arity == 3:
        pool = MUTABLES_3 + SCALARS_3
        out = [t for t in itertools.product(pool, repeat=3) if any(x in MUTABLES_3 for x in t)]
        if q:
            out = env.rng.sample(out, 300)
        elif intense:
            out += [(sh, a, b) for sh in SHAPES for a in SCALARS_3 + MUTABLES_3[:2] for b in SCALARS_3 + MUTABLES_3[-1:]]
        return out
    return []


def part1(env, E, static):
    items = []
    skipped = dict(SKIP_KEYS)
    for key, (text, arity) in E.elements.items():
        if key in SKIP_KEYS:
            continue
        if arity == 0:
            skipped.setdefault(key, "arity 0: takes no argument from the stack (covered by the copy programs where relevant)")
            continue
        if arity not in (1, 2, 3):
            skipped[key] = f"arity {arity}"
            continue
        ts = arg_tuples(arity, env, intense=key in static["flagged_elements"])
        ts += degenerate_tuples(arity, env, intense=key in static["flagged_elements"])
        env.rng.shuffle(ts)            # so that an element that loops on one kind of argument still sees the others
        ts.sort(key=has_huge)          # stable: huge numbers last, where a time-out costs only them
        for t in ts:
            items.append((key, t))
    t0 = time.time()
    by_key = collections.OrderedDict()
    for key, t in items:
        by_key.setdefault(key, []).append(t)
    grouped = V.pmap(elem_cases, list(by_key.items()), timeout=900.0, procs=min(V.NPROC, 8), chunksize=1)
    res = []
    for (key, ts), (st, val) in zip(by_key.items(), grouped):
        res += [("ok", r) for r in val] if st == "ok" else [(st, val)] * len(ts)
    kinds = collections.Counter()
    errors = collections.Counter()
    timeouts = collections.Counter()
    failing = collections.defaultdict(list)
    nontrivial = []
    for (key, specs), (st, val) in zip(items, res):
        for sp in specs:
            kinds[spec_kind(sp)] += 1
        if st != "ok":
            errors["harness:" + str(val)[:40]] += 1
            continue
        status, d = val
        if status in ("timeout", "abandoned"):
            timeouts[key + ":" + status] += 1
            continue
        if d["error"]:
            errors[d["error"]] += 1
        else:
            nontrivial.append(f"e:{key}:{[spec_text(s) for s in specs]}")
        if status == "bad":
            failing[key].append((specs, d))
    for key, lst in failing.items():
        lst.sort(key=lambda x: sum(len(spec_text(s)) for s in x[0]))
        specs, d = lst[0]
        i, what, before, after, where = d["bad"][0]
        inp = {"element": key, "args": [spec_text(s) for s in specs]}
        msg = (f"element {key} on ({', '.join(spec_text(s) for s in specs)}): {where} {i} was {before}, "
               f"is {after} after the call ({len(lst)} failing argument tuples)")
        env.fail(inp, msg, cls=f"C10:{key}")
        if key not in static["flagged_elements"]:
            env.disagree("mutation-summary", inp, "summary: the template hands its arguments only to clean (function, parameter) nodes",
                         msg)
    env.count(len(items), nontrivial)
    env.note("part1", {"cases": len(items), "elements": len({k for k, _ in items}), "seconds": round(time.time() - t0, 1),
                       "intensified_elements": [k for k in by_key if k in static["flagged_elements"]],
                       "argument_kinds": dict(kinds), "element_raised": sum(errors.values()),
                       "error_classes": dict(errors.most_common(8)), "timeouts": dict(timeouts),
                       "failing_elements": {k: len(v) for k, v in failing.items()}})
    env.note("skipped_elements", skipped)
    return {k: v[0] for k, v in failing.items()}


# ---------------------------------------------------------------------------------------
# part 1b: the statically flagged FUNCTIONS called directly, on every run
# ---------------------------------------------------------------------------------------

# mutate the list they are given by design: that list is the interpreter's stack
STACK_PRIMITIVES = {"pop": "pops from / pushes back to the stack it is given", "function_call": "its argument is the stack"}
FILLERS = [("int", 2), ("list", [1, 2]), ("str", "ab")] + [("nest", x) for x in nasty.DEGENERATE_SHAPES_CORE] + [("int", -1), ("int", 7)]


def fn_case(item):
    return own_alarm(fn_case_, item, 1.5)


def fn_cases(item):
    name, tuples = item
    out, late = [], 0
    for t in tuples:
        if late >= 6:
            out.append(("abandoned", None))
            continue
        r = fn_case((name, t))
        late += r[0] == "timeout"
        out.append(r)
    return out


def fn_case_(item):
    """module-level function `name` applied to built arguments (positional, then ctx)"""
    name, specs = item
    ns = _ns()
    import inspect
    fn = ns.get(name)
    if fn is None:
        import vyxal.helpers as H
        fn = getattr(H, name)
    vals, kept, snaps = [], [], []
    for sp in specs:
        v, src = build(sp)
        vals.append(v)
        kept.append(src)
        snaps.append(canon(src if src is not None else v))
    kw = {}
    if "ctx" in inspect.signature(fn).parameters:
        kw["ctx"] = fresh_ctx([])
    err = None
    with contextlib.redirect_stdout(io.StringIO()):
        try:
            res = fn(*vals, **kw)
            force_stack([res])
        except _Late:
            raise
        except BaseException as e:  # noqa: BLE001
            err = type(e).__name__
    bad = []
    for i, (v, src, snap, sp) in enumerate(zip(vals, kept, snaps, specs)):
        if sp[0] in ("int", "rat", "str"):
            continue
        try:
            now = canon(v)
        except _Late:
            raise
        except BaseException as e:  # noqa: BLE001
            now = ["raises", type(e).__name__]
        if now != snap:
            bad.append((i, spec_text(sp), show(snap), show(now) if now[0] != "raises" else now[1], "argument"))
        elif src is not None and canon(src) != snap:
            bad.append((i, spec_text(sp), show(snap), show(canon(src)), "source list of the lazy argument"))
    return ("bad" if bad else "ok", {"error": err, "bad": bad})


def part1b(env, an):
    import inspect
    ns = _ns()
    import vyxal.helpers as H
    work = collections.OrderedDict()
    skipped = {}
    shapes = [m for m in MUTABLES if m[0] != "fun"] + SHAPES + [("nest", x) for x in nasty.degenerate_shapes(("outer", "all"))]
    for name, ps in (an.get("flagged_functions") or {}).items():
        if name in STACK_PRIMITIVES:
            skipped[name] = STACK_PRIMITIVES[name]
            continue
        fn = ns.get(name) if "." not in name else None
        if fn is None and "." not in name:
            fn = getattr(H, name, None)
        if fn is None or not inspect.isfunction(fn):
            skipped[name] = "a method / not importable by name: reached through the elements only"
            continue
        sig = inspect.signature(fn)
        req = [p.name for p in sig.parameters.values()
               if p.name != "ctx" and p.kind in (p.POSITIONAL_ONLY, p.POSITIONAL_OR_KEYWORD) and p.default is p.empty]
        flagged = {p["param"] for p in ps}
        tuples = []
        for pos, pname in enumerate(req):
            if pname not in flagged:
                continue
            others = [j for j in range(len(req)) if j != pos]
            for sh in shapes:
                for fill in FILLERS:
                    tuples.append(tuple(sh if j == pos else fill for j in range(len(req))))
                    # and each other position alone takes the filler, the rest a plain number
                    for o in others:
                        tuples.append(tuple(sh if j == pos else (fill if j == o else ("int", 2)) for j in range(len(req))))
        seen, uniq = set(), []
        for t in tuples:
            k = json.dumps(t)
            if k not in seen:
                seen.add(k)
                uniq.append(t)
        tuples = uniq
        if tuples:
            work[name] = tuples
        else:
            skipped[name] = "no flagged required positional parameter"
    grouped = V.pmap(fn_cases, list(work.items()), timeout=900.0, procs=min(V.NPROC, 8), chunksize=1)
    failing, n, late = {}, 0, 0
    nontrivial = []
    for (name, ts), (st, val) in zip(work.items(), grouped):
        n += len(ts)
        if st != "ok":
            env.note("part1b_harness_error:" + name, str(val)[:200])
            continue
        for t, (status, d) in zip(ts, val):
            if status in ("timeout", "abandoned"):
                late += 1
            elif status == "bad":
                failing.setdefault(name, []).append((t, d))
            elif not d["error"]:
                nontrivial.append(f"f:{name}:{[spec_text(x) for x in t]}")
    for name, lst in failing.items():
        lst.sort(key=lambda x: sum(len(spec_text(y)) for y in x[0]))
        t, d = lst[0]
        i, what, before, after, where = d["bad"][0]
        keys = [tm["key"] for tm in an["templates"] if tm["kind"] == "element" and tm["flagged"]
                and any(name + "(" in b for b in tm["because"])]
        cls = f"C10:{keys[0]}" if keys else f"C10:fn:{name}"
        env.fail({"function": name, "args": [spec_text(x) for x in t]},
                 f"{name}({', '.join(spec_text(x) for x in t)}): {where} {i} was {before}, is {after} after the call "
                 f"({len(lst)} failing argument tuples; reached from elements {' '.join(keys) or '-'})", cls=cls)
    env.count(n, nontrivial)
    env.note("part1b", {"functions": {k: len(v) for k, v in work.items()}, "cases": n, "timeouts": late, "skipped": skipped,
                        "failing": {k: len(v) for k, v in failing.items()}})
    return failing


# ---------------------------------------------------------------------------------------
# part 2: copy programs
# ---------------------------------------------------------------------------------------

VALUES = [("⟨1|2|3⟩", "flat-eager"), ("⟨⟨1|2⟩|⟨3|4⟩⟩", "nested-eager"), ("3ɾ", "lazy"), ("⟨3|1|2⟩ƛ2*;", "lazy-map"),
          ("⟨⟨1|2⟩|⟨3⟩⟩", "ragged-eager"),
          ("λ2+;", "fun")]
# (name, prefix after the value, suffix, number of references pushed back)
FORMS = [
    ("dup-keep-original", ":→x ", "←x ", 1),        # x holds the original object, the sequence works on deep_copy
    ("dup-keep-copy", ":$→x ", "←x ", 1),           # x holds the deep copy, the sequence works on the original
    ("triplicate", "D→x →y ", "←x ←y ", 2),
    ("variable", "→x ←x ", "←x ", 1),
    ("register", "£¥", "¥", 1),
    ("global-array", "⅛¾h", "¾h", 1),
]
CORE = ["+", "J", "j", "h", "t", "ḣ", "ṫ", "Ṙ", "s", "L", "f", "∑", "G", "U", "i", "Ẏ", "Ż", "Z", "ẋ", "ṁ", "w", "W",
        "$", "_", "ż", "›", "ƛ›;", "v›"]
LITERALS = ["0 ", "1 ", "9 ", "⁽+", "⁽›"]
# infinite lists (flagged infinite by their constructors) as the copied value: the sequence is drawn from the tokens that
# finish on an infinite list -- prefixes, single items, membership of values far down / absent-but-bounded, lazy maps
INF_VALUES = [("Þp", "infinite"), ("ÞF", "infinite"), ("Þ!", "infinite"), ("Þ∞", "infinite"), ("⁽›1Ḟ", "infinite"), ("Þp›", "infinite"), ("Þ∞ƛd;", "infinite")]
INF_ALPHA = ["h", "ḣ", "3 i", "0 i", "5 Ẏ", "2 Ẏ", "12 Ẏ", "20 c", "7 c", "1 c", "30 c", "24 c", "›", "d", "ƛ›;", "v›", "_", ":", "$", "9 Ż", "t_"[:0] or "4 i"]
CORE3 = ["+", "J", "h", "t", "Ṙ", "s", "L", "f", "U", "i", "Ẏ", "Z", "w", "$"]
LITERALS3 = ["0 ", "9 ", "⁽+"]


def code_of(text):
    from vyxal.transpile import transpile
    c = _CODE.get(text)
    if c is None:
        c = _CODE[text] = compile(transpile(text), "<prog>", "exec")
    return c


# values that cannot be written as literals inside a program (a nested empty list literal picks up
# the enclosing stack) come in as INPUT: the token ?#n stands for `?` reading INPUT_SHAPES[n]
INPUT_SHAPES = nasty.degenerate_shapes(("outer",))


def input_token(n):
    return f"?#{n}"


def show_seq(seq):
    txt = "".join("?" if t.startswith("?#") else t for t in seq)
    ins = [nasty.shape_text(INPUT_SHAPES[int(t[2:])]) for t in seq if t.startswith("?#")]
    return txt, ins


def run_copy(value, form, seq):
    """-> (list of canonical values pushed back by the suffix, error class of the sequence)"""
    ns = dict(_ns())
    stack = []
    ctx = fresh_ctx(stack)
    ctx.inputs = [[[2, 3], 0]]
    ns.update(stack=stack, ctx=ctx)
    name, prefix, suffix, nrefs = form
    err = None
    with contextlib.redirect_stdout(io.StringIO()):
        exec(code_of(value + prefix), ns)
        try:
            for tok in seq:
                if tok.startswith("?#"):
                    from vyxal.LazyList import LazyList
                    ctx.inputs[0][0][:] = [nasty.build_shape(INPUT_SHAPES[int(tok[2:])], LazyList)[0]]
                    ctx.inputs[0][1] = 0
                    tok = "?"
                exec(code_of(tok), ns)
        except _Late:
            raise
        except BaseException as e:  # noqa: BLE001
            err = type(e).__name__
        stack = ns["stack"]
        force_stack(stack)
        del stack[:]
        exec(code_of(suffix), ns)
    return [canon(x) for x in ns["stack"][-nrefs:]], err


_EXPECTED = {}


def expected_value(value):
    if value in _EXPECTED:
        return _EXPECTED[value]
    _EXPECTED[value] = expected_value_(value)
    return _EXPECTED[value]


def expected_value_(value):
    ns = dict(_ns())
    stack = []
    ns.update(stack=stack, ctx=fresh_ctx(stack))
    exec(code_of(value), ns)
    return canon(stack[-1], cap=INF_CAP) if value in {v for v, _ in INF_VALUES} else canon(stack[-1])


INF_CAP = 40

# interleaved observation of an original and its copy: the value is held in x, a copy (made by the dup element) in y;
# both are then looked at in turns, partly and fully; at the end both must still denote the value
ILV_VALUES = ["3ɾ", "5ɾ", "⟨3|1|2⟩ƛ2*;", "4ɾƛ:*;", "⟨1|2|3|4⟩", "3ɾvɾ", "6ɾ'2%;"]
ILV_OBS = ["h", "t", "L", "1i", "2Ẏ", "0i", "Ṙ", "∑"]


def ilv_case(item):
    return own_alarm(ilv_case_, item, 3.0)


def ilv_case_(item):
    vi, pre, copy_kind, seq = item
    value = ILV_VALUES[vi]
    want = expected_value(value)
    make_copy = {"dup": "←x :_ →y ", "dup-keep-top": "←x :$_ →y ", "triplicate": "←x D_ _ →y "}[copy_kind]

    def go(sq):
        ns = dict(_ns())
        stack = []
        ctx = fresh_ctx(stack)
        ns.update(stack=stack, ctx=ctx)
        err = None
        with contextlib.redirect_stdout(io.StringIO()):
            try:
                exec(code_of(value + "→x " + "".join(f"←x {o}_ " for o in pre) + make_copy), ns)
                for who, o in sq:
                    exec(code_of(f"←{who} {o}_ "), ns)
            except _Late:
                raise
            except BaseException as e:  # noqa: BLE001
                err = type(e).__name__
            del ns["stack"][:]
            exec(code_of("←x ←y "), ns)
        return [canon(v) for v in ns["stack"][-2:]], err
    got, err = go(seq)
    if err is None and all(g == want for g in got):
        return ("ok", None, None)
    if err is not None:
        return ("raised", err, None)
    blame = seq
    for n in range(1, len(seq)):
        g2, e2 = go(seq[:n])
        if e2 is None and not all(g == want for g in g2):
            blame = seq[:n]
            break
    prog = value + "→x " + "".join(f"←x {o}_ " for o in pre) + make_copy + "".join(f"←{w} {o}_ " for w, o in blame) + "←x ←y "
    return ("bad", None, {"program": prog, "want": show(want), "got": [show(g) for g in got]})


def interleaved(env):
    rng = env.rng
    items = []
    toks = [(w, o) for w in "xy" for o in ILV_OBS]
    for vi in range(len(ILV_VALUES)):
        for ck in ("dup", "dup-keep-top", "triplicate"):
            for pre in [()] + [(o,) for o in ILV_OBS[:5]]:
                for a in toks:
                    for b in toks:
                        if a[0] != b[0] and rng.random() < (0.25 if not env.thorough else 1.0):
                            items.append((vi, pre, ck, (a, b)))
                for _ in range(env.budget(6, 60)):
                    items.append((vi, pre, ck, tuple(rng.choice(toks) for _ in range(rng.choice([3, 3, 4, 5])))))
    res = V.pmap(ilv_case, items, timeout=900.0, procs=min(V.NPROC, 8), chunksize=64)
    stat = collections.Counter()
    bad = []
    for it, (st, val) in zip(items, res):
        if st != "ok":
            stat["harness"] += 1
            continue
        stat[val[0]] += 1
        if val[0] == "bad":
            bad.append(val[2])
    bad.sort(key=lambda d: len(d["program"]))
    for d in bad[:3]:
        env.fail({"program": d["program"], "form": "original and copy observed in turns"},
                 f"copy program {d['program']}: both references should be {d['want']}, they are {', '.join(d['got'])} ({len(bad)} failing programs)",
                 cls="C10:interleaved-copy")
    env.count(len(items), (f"ilv:{it}" for it in items))
    env.note("part2_interleaved", {"programs": len(items), "values": ILV_VALUES, "observations": ILV_OBS, "outcomes": dict(stat)})


def inf_copy_case(item):
    return own_alarm(inf_copy_case_, item, 1.5)


def inf_copy_case_(item):
    """like copy_case_ for an infinite value: the references are compared on their first INF_CAP items; the sequence's own
    results are dropped unforced (forcing an infinite result would not finish)"""
    vi, fi, seq = item
    value = INF_VALUES[vi][0]
    name, prefix, suffix, nrefs = FORMS[fi]
    want = expected_value(value)

    def go(sq):
        ns = dict(_ns())
        stack = []
        ctx = fresh_ctx(stack)
        ctx.inputs = [[[2, 3], 0]]
        ns.update(stack=stack, ctx=ctx)
        err = None
        with contextlib.redirect_stdout(io.StringIO()):
            exec(code_of(value + prefix), ns)
            try:
                for tok in sq:
                    exec(code_of(tok), ns)
            except _Late:
                raise
            except BaseException as e:  # noqa: BLE001
                err = type(e).__name__
            del ns["stack"][:]
            exec(code_of(suffix), ns)
        return [canon(x, cap=INF_CAP) for x in ns["stack"][-nrefs:]], err
    got, err = go(seq)
    if all(g == want for g in got):
        return ("ok", err, None)
    blame = seq
    for n in range(1, len(seq)):
        g2, _ = go(seq[:n])
        if not all(g == want for g in g2):
            blame = seq[:n]
            break
    return ("bad", err, {"blame": list(blame), "want": show(want), "got": [show(g) for g in got]})


def copy_case_(item):
    vi, fi, seq = item
    value = VALUES[vi][0]
    form = FORMS[fi]
    want = expected_value(value)
    got, err = run_copy(value, form, seq)
    if all(g == want for g in got):
        return ("ok", err, None)
    # blame: the shortest failing prefix
    blame = seq
    for n in range(1, len(seq)):
        g2, _ = run_copy(value, form, seq[:n])
        if not all(g == want for g in g2):
            blame = seq[:n]
            break
    return ("bad", err, {"blame": list(blame), "want": show(want), "got": [show(g) for g in got]})


def elem_key_of(tok, keys):
    t = tok.strip()
    if t in keys:
        return t
    if t.startswith("v") and t[1:] in keys:
        return t[1:]
    for k in sorted(keys, key=len, reverse=True):
        if k in t and not t[0] in "⁽λƛ":
            return k
    return t


def part2(env, E, static):
    keys = set(E.elements)
    suspects = [k for k in static["flagged_elements"] if k in keys and k not in SKIP_KEYS]
    core_inputs = [input_token(i) for i, x in enumerate(INPUT_SHAPES) if x in list(nasty.DEGENERATE_SHAPES_CORE)]
    alpha = list(dict.fromkeys(CORE + suspects + LITERALS))
    seqs = [(a,) for a in alpha] + [(a, b) for a in alpha for b in alpha] + [(a, b) for a in core_inputs for b in alpha]
    # two operands in front of every triadic element of the table: numbers (also negative, out of
    # range) and every degenerate shape as the middle operand, a number / list / function as the last
    all_lits = [input_token(i) for i in range(len(INPUT_SHAPES))] + [nasty.vyxal_literal(n) + " " for n in nasty.NASTY_INDEXES[:8]]
    triadic = [k for k in E.elements if E.elements[k][1] == 3 and k not in SKIP_KEYS]
    operand_family = {(a, b, k) for k in triadic for a in all_lits for b in ("9 ", "⟨7⟩", "⁽›")}
    seqs += sorted(operand_family)
    if env.thorough:
        a3 = list(dict.fromkeys(CORE3 + [k for k in suspects if k in ("Ȧ", "Ḟ", "¨M", "*", "Þ℅", "²", "ÞD", "ÞḊ")] + LITERALS3))
        seqs += [t for t in itertools.product(a3, repeat=3)]
    quick_forms = {"nested-eager": (0, 1, 2, 3, 4, 5), "flat-eager": (0, 1, 4), "lazy": (0, 1, 3), "lazy-map": (1,), "fun": (3,),
                   "ragged-eager": (0, 1, 3)}
    items = []
    for vi in range(len(VALUES)):
        for fi in range(len(FORMS)):
            if VALUES[vi][1] == "fun" and fi not in (0, 3, 4):
                continue
            if not env.thorough and fi not in quick_forms[VALUES[vi][1]]:
                continue
            for s in seqs:
                if not env.thorough and VALUES[vi][1] in ("lazy-map", "fun") and len(s) > 1 and s[0] not in LITERALS:
                    continue
                if len(s) == 3 and s[0] not in LITERALS and (fi not in quick_forms[VALUES[vi][1]] or VALUES[vi][1] in ("lazy-map", "fun")):
                    continue           # length 3: the reduced value x form matrix
                if not env.thorough and s in operand_family and (VALUES[vi][1] not in ("flat-eager", "lazy") or fi not in (0, 1, 3)):
                    continue
                items.append((vi, fi, s))
    t0 = time.time()
    res = V.pmap(copy_case, items, timeout=900.0, procs=min(V.NPROC, 8), chunksize=128)
    by_len = collections.Counter()
    errs = collections.Counter()
    timeouts = 0
    failing = collections.defaultdict(list)
    nontrivial = []
    for (vi, fi, seq), (st, val) in zip(items, res):
        by_len[len(seq)] += 1
        if st != "ok":
            errs["harness:" + str(val)[:50]] += 1
            continue
        if val[0] == "timeout":
            timeouts += 1
            continue
        status, err, d = val
        if err:
            errs[err] += 1
        else:
            nontrivial.append(f"p:{vi}:{fi}:{''.join(seq)}")
        if status == "bad":
            k = elem_key_of(d["blame"][-1], keys)
            txt, ins = show_seq(seq)
            failing[k].append((VALUES[vi][0] + FORMS[fi][1] + txt + FORMS[fi][2], FORMS[fi][0], d, ins))
    # infinite values
    inf_forms = [fi for fi, f in enumerate(FORMS) if f[0] in (("dup-keep-original", "dup-keep-copy", "variable", "register") if not env.thorough
                                                              else tuple(x[0] for x in FORMS))]
    # first every single token; a token that does not finish on a value is left out of that value's pairs
    singles = [(vi, inf_forms[0], (a,)) for vi in range(len(INF_VALUES)) for a in INF_ALPHA]
    sres = V.pmap(inf_copy_case, singles, timeout=900.0, procs=min(V.NPROC, 8), chunksize=8)
    hangs = {(vi, sq[0]) for (vi, fi, sq), (st, val) in zip(singles, sres) if st != "ok" or val[0] == "timeout"}
    inf_items = []
    for vi in range(len(INF_VALUES)):
        alpha_v = [a for a in INF_ALPHA if (vi, a) not in hangs]
        seqs_v = [(a,) for a in alpha_v] + [(a, b) for a in alpha_v for b in alpha_v]
        if not env.thorough:
            seqs_v = [sq for k, sq in enumerate(seqs_v) if len(sq) == 1 or (k + env.seed) % 3 == 0]
        inf_items += [(vi, fi, sq) for fi in inf_forms for sq in seqs_v]
    inf_res = V.pmap(inf_copy_case, inf_items, timeout=900.0, procs=min(V.NPROC, 8), chunksize=64)
    inf_stat = collections.Counter()
    for (vi, fi, seq), (st, val) in zip(inf_items, inf_res):
        if st != "ok":
            inf_stat["harness"] += 1
            continue
        if val[0] == "timeout":
            inf_stat["timeout"] += 1
            continue
        status, err, d = val
        inf_stat["raised" if err else "ran"] += 1
        if not err:
            nontrivial.append(f"pinf:{vi}:{fi}:{''.join(seq)}")
        if status == "bad":
            inf_stat["bad"] += 1
            k = elem_key_of(d["blame"][-1].split()[-1], keys)
            # shown (and run end to end) with a finite look at the reference: its first items
            failing[k].append((INF_VALUES[vi][0] + FORMS[fi][1] + "".join(seq) + FORMS[fi][2] + "8Ẏ", FORMS[fi][0], d, []))
    env.note("part2_infinite_values", {"programs": len(inf_items), "values": [v for v, _ in INF_VALUES], "alphabet": INF_ALPHA,
                                       "compared_prefix": INF_CAP, "outcomes": dict(inf_stat),
                                       "tokens_that_do_not_finish": sorted(f"{INF_VALUES[vi][0]} {a}" for vi, a in hangs)})
    for k, lst in failing.items():
        lst.sort(key=lambda x: len(x[0]) + sum(len(i) for i in x[3]))
        prog, form, d, ins = lst[0]
        inp = {"program": prog, "form": form}
        if ins:
            inp["inputs"] = ins
        from vlib import runprog
        def _e2e(_):
            return runprog.run(prog, inputs=ins if ins and not any("LazyList" in i for i in ins) else ["2", "3"])
        e2e = own_alarm(_e2e, None, 10.0)
        if not isinstance(e2e, dict):
            e2e = {"out": "(the end-to-end run did not finish in 10 s)"}
        msg = (f"copy program {prog}{' with input ' + ' '.join(ins) if ins else ''}: the untouched reference should be {d['want']}, is {', '.join(d['got'])} "
               f"(blamed element {k}; {len(lst)} failing programs; run end to end the program prints {e2e['out'].strip()!r})")
        env.fail(inp, msg, cls=f"C10:{k}")
        if k in keys and k not in static["flagged_elements"]:
            env.disagree("mutation-summary", inp, "summary: clean", msg)
    env.count(len(items) + len(inf_items), nontrivial)
    env.note("part2", {"programs": len(items), "by_sequence_length": dict(by_len), "alphabet": alpha, "values": VALUES,
                       "forms": [f[0] for f in FORMS], "seconds": round(time.time() - t0, 1), "timeouts": timeouts,
                       "sequence_raised": sum(errs.values()), "error_classes": dict(errs.most_common(8)),
                       "failing_elements": {k: len(v) for k, v in failing.items()}})
    return {k: v[0] for k, v in failing.items()}


# ---------------------------------------------------------------------------------------
# part 2b: values pushed FROM the context, then the context changes, the value is read last
# ---------------------------------------------------------------------------------------

# per context attribute that some template pushes as a whole: ways to fill it, the template that
# pushes it, self-contained tokens that change it afterwards (they leave the stack below alone)
SNAP = {
    "global_array": {"setups": ["", "1⅛", "1⅛2⅛", "⟨1|2⟩⅛", "⟨1|2⟩⅛3ɾ⅛"], "mods": ["2⅛", "3⅛", "¼_", "⟨9⟩⅛", "Þ¾", "¾_", "¼⅛"]},
    "register": {"setups": ["", "⟨1|2⟩£", "3ɾ£"], "mods": ["3£", "⟨9⟩£", "¥_", "¥0 9Ȧ£"]},
}
HOLDS = [("on the stack", "", ""), ("in a variable", "→a ", "←a "), ("in the register", "£", "¥"), ("under a copy", ":_", "")]


def snap_case(item):
    return own_alarm(snap_case_, item, 2.0)


def snap_case_(item):
    setup, push, hi, mods = item
    _, hold, release = HOLDS[hi]
    # what the push gives when it is looked at immediately
    ns = dict(_ns())
    stack = []
    ns.update(stack=stack, ctx=fresh_ctx(stack))
    with contextlib.redirect_stdout(io.StringIO()):
        exec(code_of(setup + push), ns)
    want = canon(ns["stack"][-1])
    # the same, but looked at only after the context has been changed
    ns = dict(_ns())
    stack = []
    ns.update(stack=stack, ctx=fresh_ctx(stack))
    err = None
    with contextlib.redirect_stdout(io.StringIO()):
        exec(code_of(setup + push + hold), ns)
        try:
            for m in mods:
                exec(code_of(m), ns)
        except _Late:
            raise
        except BaseException as e:  # noqa: BLE001
            err = type(e).__name__
        if release:
            del ns["stack"][:]
            exec(code_of(release), ns)
        got = canon(ns["stack"][-1] if release else ns["stack"][0])
    if got == want:
        return ("ok", err, None)
    return ("bad", err, {"want": show(want), "got": show(got)})


def part2b(env, an):
    pushers = {}
    for t in an.get("templates", []):
        if t["kind"] == "element":
            for attr, mat in t["ctx_pushes"]:
                pushers.setdefault(attr, []).append(t["key"])
    items = []
    for attr, keys in pushers.items():
        if attr not in SNAP:
            env.proof_broken("a template pushes a context attribute the C10 oracle has no generator for", f"ctx.{attr} pushed by {keys}")
            continue
        mods = SNAP[attr]["mods"]
        seqs = [(a,) for a in mods] + [(a, b) for a in mods for b in mods]
        if env.thorough:
            seqs += list(itertools.product(mods, repeat=3))
        for key in keys:
            for setup in SNAP[attr]["setups"]:
                for hi in range(len(HOLDS)):
                    if attr == "register" and HOLDS[hi][1] == "£":
                        continue
                    for sq in seqs:
                        items.append((setup, key, hi, sq))
    res = V.pmap(snap_case, items, timeout=900.0, procs=min(V.NPROC, 8), chunksize=64)
    failing = collections.defaultdict(list)
    nontrivial, late, raised = [], 0, 0
    for (setup, key, hi, sq), (st, val) in zip(items, res):
        if st != "ok":
            env.note("part2b_harness_error", str(val)[:200])
            continue
        if val[0] == "timeout":
            late += 1
            continue
        status, err, d = val
        prog = setup + key + HOLDS[hi][1] + "".join(sq) + HOLDS[hi][2]
        if err:
            raised += 1
        else:
            nontrivial.append("s:" + prog)
        if status == "bad":
            failing[key].append((prog, HOLDS[hi][0], d))
    for key, lst in failing.items():
        lst.sort(key=lambda x: len(x[0]))
        prog, hold, d = lst[0]
        env.fail({"program": prog, "held": hold},
                 f"program {prog}: the value pushed by {key} (kept {hold}, looked at last) should be {d['want']}, is {d['got']} "
                 f"({len(lst)} failing programs)", cls=f"C10:{key}")
    env.count(len(items), nontrivial)
    env.note("part2b", {"programs": len(items), "pushers": pushers, "holds": [h[0] for h in HOLDS], "timeouts": late,
                        "raised": raised, "failing": {k: len(v) for k, v in failing.items()}})
    return {k: v[0] for k, v in failing.items()}


# ---------------------------------------------------------------------------------------
# part 3: the named programs, end to end
# ---------------------------------------------------------------------------------------

# (program, index in the final stack of the reference that was never transformed, its expected
#  value, element to blame).  execute_vyxal pops the top of the stack for the implicit output, so
#  every program ends in a dummy 0 that takes that role.
NAMED = [
    ("⟨1|2|3⟩:0 9Ȧ 0", 0, [1, 2, 3], "Ȧ"),
    ("⟨1|2|3⟩:0 9Ȧ 0", 1, [9, 2, 3], None),                # control: the assigned copy itself
    ("⟨1|2⟩:⁽+Ḟ5Ẏ$ 0", 1, [1, 2], "Ḟ"),
    ("⟨1|2|3⟩£¥0 9Ȧ_¥ 0", 0, [1, 2, 3], "Ȧ"),
    ("⟨1|2|3⟩→x ←x 0 9Ȧ_←x 0", 0, [1, 2, 3], "Ȧ"),
    ("⟨1|2|3⟩⅛¾h0 9Ȧ_¾h 0", 0, [1, 2, 3], "Ȧ"),
    ("⟨1|2|3⟩:⟨0⟩⁽d¨M 0", 0, [1, 2, 3], "¨M"),
    ("3ɾ:0 9Ȧ 0", 0, [1, 2, 3], "Ȧ"),
    ("⟨1|2|3⟩:Ṙ 0", 0, [1, 2, 3], "Ṙ"),
    ("⟨3|1|2⟩:s 0", 0, [3, 1, 2], "s"),
    ("⟨1|2|3⟩:4J 0", 0, [1, 2, 3], "J"),
    ("⟨1|2|3⟩D0 9Ȧ 0", 1, [1, 2, 3], "Ȧ"),
    # the global array pushed, then changed, the pushed value read last
    ("1⅛¾2⅛ 0", 0, [1], "¾"),
    ("1⅛2⅛¾¼_ 0", 0, [1, 2], "¾"),
    ("7⅛¾→a 8⅛←a 0", 0, [7], "¾"),
    ("1⅛¾£2⅛3⅛¥ 0", 0, [1], "¾"),
    # a ragged matrix through the determinant (pads rows)
    ("⟨⟨1|2⟩|⟨3⟩⟩:ÞḊ_ 0", 0, [[1, 2], [3]], "ÞḊ"),
    ("⟨⟨1|2⟩|⟨3⟩⟩→x ←x ÞḊ_←x 0", 0, [[1, 2], [3]], "ÞḊ"),
]


def part3(env):
    from vlib import runprog
    out = []
    for prog, idx, want, blame in NAMED:
        r = runprog.run(prog)
        st = r["stack"]
        def to_canon(x):
            return ["list", [to_canon(i) for i in x]] if isinstance(x, list) else ["int", str(x)]
        wantc = to_canon(want)
        got = st[idx] if st and idx < len(st) else None
        ok = got is not None and json.loads(json.dumps(got)) == wantc
        out.append({"program": prog, "stack": [show(x) if isinstance(x, list) and x and isinstance(x[0], str) else x for x in (st or [])],
                    "expected_at": idx, "expected": want, "ok": ok, "error": r["error"]})
        if not ok and blame is not None:
            env.fail({"program": prog}, f"{prog}: stack item {idx} should be {want}, final stack is "
                     f"{[show(x) for x in (st or [])]}", cls=f"C10:{blame}")
        elif not ok:
            env.proof_broken("control program of the C10 harness", f"{prog}: {out[-1]}")
    env.count(len(NAMED), [f"n:{p}" for p, _, _, _ in NAMED])
    env.note("named_programs", out)


# ---------------------------------------------------------------------------------------
# static side: what Coq computed, what the pinned list says
# ---------------------------------------------------------------------------------------

def coq_lists(env):
    text = ("From Coq Require Import List NArith.\nFrom Vy Require Import Model.Base Model.Effects Gen.Mutation.\n"
            "Import ListNotations.\n"
            "Eval vm_compute in (flagged_keys (mlfp mut_nodes) mut_elements).\n"
            "Eval vm_compute in (flagged_keys (mlfp mut_nodes) mut_modifiers).\n"
            "Eval vm_compute in c10_suspect_elements.\nEval vm_compute in c10_suspect_modifiers.\n"
            "Eval vm_compute in (flagged_fns mut_nodes (mlfp mut_nodes)).\n")
    ok, out = V.coq_eval("C10", "flagged", text, timeout=300)
    if not ok:
        env.proof_broken("evaluation of the fixed point in Coq failed", out[-2000:])
        return None
    parts = re.split(r"\n\s*=\s", "\n" + out)[1:]
    if len(parts) != 5:
        env.proof_broken("unexpected output of the fixed-point evaluation", out[-2000:])
        return None

    def strs(p):
        body = p.split("\n     : ")[0]
        return ["".join(chr(int(n)) for n in re.findall(r"\d+", grp)) for grp in re.findall(r"\[([^\[\]]*)\]", body)]

    fl_e, fl_m, pin_e, pin_m = (strs(p) for p in parts[:4])
    fns = []
    for m in re.finditer(r"\(\[([^\]]*)\]\s*,\s*(\d+)\)", parts[4].split("\n     : ")[0]):
        fns.append(("".join(chr(int(n)) for n in re.findall(r"\d+", m.group(1))), int(m.group(2))))
    return {"flagged_elements": fl_e, "flagged_modifiers": fl_m, "pinned_elements": pin_e, "pinned_modifiers": pin_m,
            "flagged_fns": fns}


def run(env):
    env.rule = ("(1) every run-time table element of arity 1-3 x argument tuples over a pool of ints, rationals, strings, flat and "
                "nested eager lists, lazy lists over kept source lists (also partly read), function values, at least one mutable "
                "argument per tuple: snapshot before / compare after, results forced; (2) copy programs <value> <copy op> <sequence> "
                "over 5 values x 6 copy forms (`:` both directions, `D`, variable, register, global array) x all sequences of length "
                "<= 2 (quick) over the core alphabet + every statically flagged element + literals, plus length 3 over a reduced "
                "alphabet (thorough): the untouched reference is compared with the value evaluated alone; (3) named programs end to "
                "end. Non-trivial = the element / sequence ran without raising; distinct by canonical (element, arguments) or program.")
    an = env.tables.get("gen_mutation") or {}
    if an.get("error") or not an.get("nodes"):
        env.proof_broken("mutation translator failed", str(an.get("error")))
        static = {"flagged_elements": [], "flagged_modifiers": []}
    else:
        static = {"flagged_elements": an["flagged_elements"], "flagged_modifiers": an["flagged_modifiers"]}
        cl = coq_lists(env)
        if cl is not None:
            if cl["flagged_elements"] != an["flagged_elements"] or cl["flagged_modifiers"] != an["flagged_modifiers"]:
                env.disagree("fixed point: Coq vs reference evaluator", "mut_nodes", cl["flagged_elements"], an["flagged_elements"])
            new_e = [k for k in cl["flagged_elements"] if k not in cl["pinned_elements"]]
            new_m = [k for k in cl["flagged_modifiers"] if k not in cl["pinned_modifiers"]]
            if new_e or new_m:
                why = {t["key"]: t["because"] for t in an["templates"] if t["key"] in new_e + new_m and t["flagged"]}
                env.proof_broken("C10_pure_table_partial: templates flagged by the summary and not in the pinned suspect list",
                                 json.dumps({"elements": new_e, "modifiers": new_m, "because": why}, ensure_ascii=False))
            env.note("pinned_but_no_longer_flagged", {"elements": [k for k in cl["pinned_elements"] if k not in cl["flagged_elements"]],
                                                      "modifiers": [k for k in cl["pinned_modifiers"] if k not in cl["flagged_modifiers"]]})
            env.note("flagged_function_parameters_coq", [f"{f}#{p}" for f, p in cl["flagged_fns"]])
    V.import_repo()
    import vyxal.elements as E
    f1 = part1(env, E, static)
    f1b = part1b(env, an) if an.get("flagged_functions") else {}
    f2 = part2(env, E, static)
    interleaved(env)
    f2b = part2b(env, an)
    part3(env)
    # verdict per statically flagged element / function
    dyn = set(f1) | set(f2) | set(f2b)
    for name in f1b:
        dyn |= {tm["key"] for tm in an["templates"] if tm["kind"] == "element" and tm["flagged"]
                and any(name + "(" in b for b in tm["because"])}
    env.note("context_attributes_changed_in_place", an.get("ctx_inplace"))
    verdicts = {}
    for t in an.get("templates", []):
        if t["kind"] == "element" and t["flagged"]:
            verdicts[t["key"]] = {"static": t["because"][:3],
                                  "verdict": "GENUINE: a kept reference changes" if t["key"] in dyn
                                  else "false positive of the static summary: no argument changed on any generated input"}
    env.note("suspect_elements", verdicts)
    fnv = {}
    for f, ps in (an.get("flagged_functions") or {}).items():
        ks = [t["key"] for t in an["templates"] if t["kind"] == "element" and t["flagged"] and any(f + "(" in b for b in t["because"])]
        fnv[f] = {"parameters": [p["param"] + (" (direct site)" if p["direct"] else " via " + " -> ".join(p["chain"][1:])) for p in ps],
                  "reached_from_elements": ks,
                  "verdict": "genuine" if any(k in dyn for k in ks) and any(p["direct"] for p in ps) else
                  ("reaches a genuine primitive" if any(k in dyn for k in ks) else "no change observed (static false positive)")}
    env.note("suspect_functions", fnv)
    env.note("suspect_modifiers", {t["key"]: t["because"][:2] for t in an.get("templates", []) if t["kind"] == "modifier" and t["flagged"]})
    env.note("context_mutators", an.get("ctx_mutators"))
    env.note("summary_size", {"functions": len(an.get("functions", {})), "nodes": len(an.get("nodes", [])),
                              "edges": sum(len(n["calls"]) for n in an.get("nodes", [])), "lfp_rounds": an.get("lfp_rounds")})
    env.sample({"element_case": {"element": "Ṙ", "args": ["LazyList([3, 1, 2]) after 1 next()"]}})
    env.sample({"copy_program": "⟨1|2|3⟩:→x 0 9 Ȧ←x "})
    env.sample({"obligation": "forall t, In t mut_elements -> mem_str (mt_key t) c10_suspect_elements = false -> templ_clean t"})
    env.assume("PARTIAL for 'every element': the Coq sweep is about the translator's summary (alias / mutation-site / call extraction), "
               "not about the function bodies; the summary is tied to the implementation only by the dynamic sweep (a dynamic failure on a "
               "statically clean element is reported as a disagreement)")
    env.assume("calls of function VALUES (user lambdas, elements passed by the transpiler) are not edges of the summary: their bodies are "
               "sequences of elements, each covered on its own")
    env.assume("implicit LazyList method calls (iteration, indexing, len) are not edges: their only effect is the append-only cache, "
               "which C13 proves invisible; LazyList.__setitem__ is reached only through subscript stores, which are sites")
    env.assume("the heap model covers `:` and `D` on eager lists and on lazy lists; a copy of a copy of an EAGER list is outside it "
               "(dynamic sweep only); full strength for the named mechanisms (copy on duplicate, lazy cache, the in-place primitives)")


def search_without_tables(env):
    env.rule = "translator failed; oracle on the implementation only"
    try:
        V.import_repo()
        import vyxal.elements as E
        static = {"flagged_elements": list(E.elements), "flagged_modifiers": []}
        part1(env, E, static)
        part3(env)
    except Exception as e:  # noqa: BLE001
        env.proof_broken("implementation does not import", repr(e))
