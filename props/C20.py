"""C20 — every element is typeable in one byte per character and reachable.

Deciding method: theorems in coq/Properties/C20.v over the tables regenerated from
/repo (code page, element/modifier tables, parser constants, elements.yaml) and the
hand-written lexer model; the lexer model and the byte/character conversions are
tied to the implementation by the correspondence below; the oracle states the
property directly on the implementation to produce replays."""
from __future__ import annotations

import collections
import itertools

from vlib import common as V
from vlib import lexcorr


def oracle(env):
    V.import_repo()
    from vyxal import encoding, lexer
    t = env.tables
    cp = encoding.codepage
    n = 0
    if len(cp) != 256 or len(set(cp)) != 256:
        env.fail({"kind": "codepage", "len": len(cp), "distinct": len(set(cp))}, "code page is not 256 distinct characters", cls="codepage-size")
    # all byte strings of length <= 2, both directions
    for ln in (1, 2):
        for bs in itertools.product(range(256), repeat=ln):
            n += 1
            try:
                txt = encoding.vyxal_to_utf8(list(bs))
                back = encoding.utf8_to_vyxal(txt)
                if [ord(c) for c in back] != list(bs) or len(txt) != ln:
                    env.fail({"kind": "bytes-roundtrip", "bytes": list(bs)}, f"bytes->text->bytes gives {[ord(c) for c in back]}")
                    break
                if encoding.vyxal_to_utf8([ord(c) for c in encoding.utf8_to_vyxal(txt)]) != txt:
                    env.fail({"kind": "text-roundtrip", "text": txt}, "text->bytes->text is not the identity")
                    break
            except Exception as e:  # noqa: BLE001
                env.fail({"kind": "bytes-roundtrip", "bytes": list(bs)}, f"raises {type(e).__name__}")
                break
    env.note("byte_strings_roundtripped", n)
    # tables
    pc = t["parser"]
    openers = [o for o, _, _ in pc["structure_info"]]
    closers = [c for _, _, c in pc["structure_info"]]
    mods = pc["monadic_modifiers"] + pc["dyadic_modifiers"] + pc["triadic_modifiers"]
    syntax = set(openers + closers + mods + [pc["break_character"], pc["recurse_character"], "|", " "])
    keys = [e["key"] for e in t["elements"]]
    counts = collections.Counter(keys)
    docs = collections.defaultdict(list)
    for d in t["documented"]:
        if d["kind"] == "element" and d["arity"] is not None:
            docs[d["key"]].append(d["arity"])
    from vyxal import elements as E
    for e in t["elements"]:
        k = e["key"]
        n += 1
        if any(c not in cp for c in k):
            env.fail({"kind": "key-outside-codepage", "key": k}, "key uses a character outside the code page", cls=f"outside-codepage:{k}")
        toks = lexer.tokenise(k)
        if not (len(toks) == 1 and toks[0].name == lexer.TokenType.GENERAL and toks[0].value == k):
            env.fail({"kind": "key-not-one-token", "key": k}, f"tokenise gives {toks!r}", cls=f"not-one-token:{k}")
        if k in syntax:
            env.fail({"kind": "shadowed-key", "key": k}, "table entry shadowed by structure/modifier syntax", cls=f"shadowed-key:{k}")
        if counts[k] > 1:
            env.fail({"kind": "duplicate-key", "key": k}, f"key defined {counts[k]} times in the table display", cls=f"duplicate-key:{k}")
        if k in E.elements and any(a != E.elements[k][1] for a in docs.get(k, [])):
            env.fail({"kind": "arity-mismatch", "key": k, "table": E.elements[k][1], "documented": docs[k]},
                     "documented arity differs from table arity", cls=f"arity-mismatch:{k}")
    for c in openers + closers + mods + [pc["break_character"], pc["recurse_character"]]:
        n += 1
        toks = lexer.tokenise(c)
        if c not in cp or not (len(toks) == 1 and toks[0].name == lexer.TokenType.GENERAL and toks[0].value == c):
            env.fail({"kind": "syntax-char", "char": c}, f"structure/modifier character not one code-page token: {toks!r}", cls=f"syntax-char:{c}")
    lexer_chars = set("".join(t["lexer"][k] for k in ("lex_escape", "lex_string_delims", "lex_number_chars", "lex_twochar", "lex_var", "lex_comment", "lex_digraph", "lex_cpnum")))
    modkeys = {m["key"] for m in t["modifiers"]}
    for d in t["documented"]:
        n += 1
        k = d["key"]
        if d["kind"] == "modifier":
            if not (k in mods and k in modkeys):
                env.fail({"kind": "documented-modifier-missing", "key": k}, "documented modifier unknown to parser or modifier table", cls=f"documented-missing:{k}")
        elif not (k in E.elements or (len(k) == 1 and (k in syntax or k in lexer_chars or k == "␤"))):
            env.fail({"kind": "documented-missing", "key": k}, "documented element has no table entry", cls=f"documented-missing:{k}")
    for m in modkeys:
        if m not in mods:
            env.fail({"kind": "modifier-unreachable", "key": m}, "modifier template has no parser entry", cls=f"modifier-unreachable:{m}")
    for m in mods:
        if m not in modkeys and m not in "⁽‡≬":
            env.fail({"kind": "modifier-without-template", "key": m}, "parser modifier without template", cls=f"modifier-without-template:{m}")
    env.count(n, (f"table:{e['key']}" for e in t["elements"]))


def encoding_correspondence(env):
    V.import_repo()
    from vyxal import encoding
    cases = []
    for b in range(256):
        cases.append((b, ord(encoding.vyxal_to_utf8([b]))))
    pre = "From Coq Require Import List NArith Bool.\nOpen Scope bool_scope.\nFrom Vy Require Import Model.Base Model.Encoding Gen.Codepage.\nImport ListNotations.\n"
    chk = ("fun c => match c with (b, ch) => match byte_to_char codepage b, char_to_byte codepage ch with "
           "Some x, Some y => N.eqb x ch && N.eqb y b | _, _ => false end end")
    ok, bad, logs = env.coq_mismatches("enc", pre, lambda lo, hi: "[" + "; ".join(f"({b}%N, {c}%N)" for b, c in cases[lo:hi]) + "]", chk, len(cases))
    if not ok:
        env.proof_broken("encoding correspondence cases failed to evaluate", logs)
    for i in bad:
        env.disagree("encoding", {"byte": cases[i][0]}, "(model disagrees)", cases[i][1])
    env.count(len(cases), (f"byte:{b}" for b, _ in cases))


def run(env):
    env.rule = ("lexer model vs implementation on every string of length <= L over a 24-symbol lexical alphabet (L=3 quick, 4 thorough), "
                "every table key, every code-page character and random strings to length 60; byte<->character model vs implementation on all 256 bytes; "
                "property oracle on the implementation: all byte strings of length <= 2, every key of the element/modifier/structure tables, "
                "every documented entry. Non-trivial = produces at least one token / is a table entry; distinct by canonical input.")
    items = lexcorr.gen_strings(env, env.tables, env.budget(3, 4), env.budget(1500, 20000))
    lexcorr.check(env, items)
    encoding_correspondence(env)
    oracle(env)
    env.sample({"lexer_case": items[len(items) // 2][0]})
    env.sample({"table_key": env.tables["elements"][17]["key"], "arity": env.tables["elements"][17]["arity"]})
    env.sample({"obligation": "forall e, In e elements -> key_ok e = true (397-entry sweep by vm_compute)"})
    env.assume("CPython's str indexing / str.index behave as nth_error / first index on code points")
    env.assume("the hand-written lexer model equals vyxal.lexer.tokenise (checked by the correspondence, not proved)")


def search_without_tables(env):
    env.rule = "translator failed; oracle on the implementation only"
    try:
        V.import_repo()
        from vyxal import encoding
        if len(set(encoding.codepage)) != 256:
            env.fail({"kind": "codepage"}, "code page is not 256 distinct characters", cls="codepage-size")
    except Exception as e:  # noqa: BLE001
        env.proof_broken("implementation does not import", repr(e))
