"""C20 — every element is typeable in one byte per character and reachable.

Deciding method: theorems in coq/Properties/C20.v over the tables regenerated from
/repo (code page, element/modifier tables, parser constants, elements.yaml) and the
hand-written lexer model; the lexer model and the byte/character conversions are
tied to the implementation by the correspondence below; the oracle states the
property directly on the implementation to produce replays."""
from __future__ import annotations

import collections
import itertools

from vlib import common as V
from vlib import lexcorr


def oracle(env):
    V.import_repo()
    from vyxal import encoding, lexer
    t = env.tables
    cp = encoding.codepage
    n = 0
    if len(cp) != 256 or len(set(cp)) != 256:
        env.fail({"kind": "codepage", "len": len(cp), "distinct": len(set(cp))}, "code page is not 256 distinct characters", cls="codepage-size")
    # all byte strings of length <= 2, both directions
    for ln in (1, 2):
        for bs in itertools.product(range(256), repeat=ln):
            n += 1
            try:
                txt = encoding.vyxal_to_utf8(list(bs))
                back = encoding.utf8_to_vyxal(txt)
                if [ord(c) for c in back] != list(bs) or len(txt) != ln:
                    env.fail({"kind": "bytes-roundtrip", "bytes": list(bs)}, f"bytes->text->bytes gives {[ord(c) for c in back]}")
                    break
                if encoding.vyxal_to_utf8([ord(c) for c in encoding.utf8_to_vyxal(txt)]) != txt:
                    env.fail({"kind": "text-roundtrip", "text": txt}, "text->bytes->text is not the identity")
                    break
            except Exception as e:  # noqa: BLE001
                env.fail({"kind": "bytes-roundtrip", "bytes": list(bs)}, f"raises {type(e).__name__}")
                break
    env.note("byte_strings_roundtripped", n)
    n += long_roundtrips(env, encoding)
    n += keys_in_context(env, lexer, t)
    # tables
    pc = t["parser"]
    openers = [o for o, _, _ in pc["structure_info"]]
    closers = [c for _, _, c in pc["structure_info"]]
    mods = pc["monadic_modifiers"] + pc["dyadic_modifiers"] + pc["triadic_modifiers"]
    syntax = set(openers + closers + mods + [pc["break_character"], pc["recurse_character"], "|", " "])
    keys = [e["key"] for e in t["elements"]]
    counts = collections.Counter(keys)
    docs = collections.defaultdict(list)
    for d in t["documented"]:
        if d["kind"] == "element" and d["arity"] is not None:
            docs[d["key"]].append(d["arity"])
    from vyxal import elements as E
    for e in t["elements"]:
        k = e["key"]
        n += 1
        if any(c not in cp for c in k):
            env.fail({"kind": "key-outside-codepage", "key": k}, "key uses a character outside the code page", cls=f"outside-codepage:{k}")
        toks = lexer.tokenise(k)
        if not (len(toks) == 1 and toks[0].name == lexer.TokenType.GENERAL and toks[0].value == k):
            env.fail({"kind": "key-not-one-token", "key": k}, f"tokenise gives {toks!r}", cls=f"not-one-token:{k}")
        if k in syntax:
            env.fail({"kind": "shadowed-key", "key": k}, "table entry shadowed by structure/modifier syntax", cls=f"shadowed-key:{k}")
        if counts[k] > 1:
            env.fail({"kind": "duplicate-key", "key": k}, f"key defined {counts[k]} times in the table display", cls=f"duplicate-key:{k}")
        if k in E.elements and any(a != E.elements[k][1] for a in docs.get(k, [])):
            env.fail({"kind": "arity-mismatch", "key": k, "table": E.elements[k][1], "documented": docs[k]},
                     "documented arity differs from table arity", cls=f"arity-mismatch:{k}")
    for c in openers + closers + mods + [pc["break_character"], pc["recurse_character"]]:
        n += 1
        toks = lexer.tokenise(c)
        if c not in cp or not (len(toks) == 1 and toks[0].name == lexer.TokenType.GENERAL and toks[0].value == c):
            env.fail({"kind": "syntax-char", "char": c}, f"structure/modifier character not one code-page token: {toks!r}", cls=f"syntax-char:{c}")
    lexer_chars = set("".join(t["lexer"][k] for k in ("lex_escape", "lex_string_delims", "lex_number_chars", "lex_twochar", "lex_var", "lex_comment", "lex_digraph", "lex_cpnum")))
    modkeys = {m["key"] for m in t["modifiers"]}
    for d in t["documented"]:
        n += 1
        k = d["key"]
        if d["kind"] == "modifier":
            if not (k in mods and k in modkeys):
                env.fail({"kind": "documented-modifier-missing", "key": k}, "documented modifier unknown to parser or modifier table", cls=f"documented-missing:{k}")
        elif not (k in E.elements or (len(k) == 1 and (k in syntax or k in lexer_chars or k == "␤"))):
            env.fail({"kind": "documented-missing", "key": k}, "documented element has no table entry", cls=f"documented-missing:{k}")
    for m in modkeys:
        if m not in mods:
            env.fail({"kind": "modifier-unreachable", "key": m}, "modifier template has no parser entry", cls=f"modifier-unreachable:{m}")
    for m in mods:
        if m not in modkeys and m not in "⁽‡≬":
            env.fail({"kind": "modifier-without-template", "key": m}, "parser modifier without template", cls=f"modifier-without-template:{m}")
    env.count(n, (f"table:{e['key']}" for e in t["elements"]))


def magic_sequences():
    """Byte sequences that tools treat specially (a general family, not tied to any change): every byte order mark and
    signature constant of Python's own `codecs` module, line-end / end-of-file / shebang / NUL / DEL conventions, and
    every byte three and four times in a row."""
    import codecs
    out = [getattr(codecs, name) for name in sorted(dir(codecs)) if name.startswith("BOM") and isinstance(getattr(codecs, name), bytes)]
    out += [b"#!", b"\r\n", b"\n\r", b"\r", b"\n", b"\x00", b"\x00\x00", b"\x1a", b"\x04", b"\x7f", b"\xff", b"\xff\xff", b"\xfe\xff\xfe\xff",
            b"\xef\xbf\xbd", b"\xc0\x80", b"\x1b[", b"%!", b"PK", b"\x89PNG", b"GIF8", b"\x7fELF", b"MZ", b"<?", b"<!"]
    out += [bytes([b]) * k for b in range(256) for k in (3, 4)]
    return list(dict.fromkeys(out))


def long_roundtrips(env, encoding):
    """bytes -> text -> bytes and text -> bytes -> text on LONG inputs: every magic sequence at the start, in the middle and
    at the end of random filler (and alone, doubled), random byte strings up to length 200, every 3-byte string over the bytes
    that occur in a magic sequence shorter than 5 (those are the sequences a special case could be keyed on)."""
    import itertools
    rng = env.rng
    magic = magic_sequences()
    cases = []
    for m in magic:
        f1 = bytes(rng.randrange(256) for _ in range(rng.randrange(1, 9)))
        f2 = bytes(rng.randrange(256) for _ in range(rng.randrange(1, 9)))
        cases += [m, m + m, m + f1, f1 + m, f1 + m + f2, m + f1 + m]
    for _ in range(env.budget(1500, 10000)):
        cases.append(bytes(rng.randrange(256) for _ in range(rng.choice([3, 3, 4, 5, 8, 16, 33, 64, 200]))))
    special = sorted({b for m in magic if len(m) < 5 and len(set(m)) > 1 for b in m})[: env.budget(22, 40)]
    cases += [bytes(t3) for t3 in itertools.product(special, repeat=3)]
    cases = list(dict.fromkeys(cases))
    cp = encoding.codepage
    bad = 0
    for bs in cases:
        try:
            txt = encoding.vyxal_to_utf8(list(bs))
            back = encoding.utf8_to_vyxal(txt)
            expect = "".join(cp[b] for b in bs)
            if len(txt) != len(bs) or [ord(c) for c in back] != list(bs) or txt != expect:
                bad += 1
                if bad <= 3:
                    env.fail({"kind": "bytes-roundtrip", "bytes": list(bs)},
                             f"bytes->text gives {txt!r} ({len(txt)} characters for {len(bs)} bytes), back to bytes {[ord(c) for c in back]}")
            elif encoding.vyxal_to_utf8([ord(c) for c in encoding.utf8_to_vyxal(expect)]) != expect:
                bad += 1
                if bad <= 3:
                    env.fail({"kind": "text-roundtrip", "text": expect}, "text->bytes->text is not the identity")
        except Exception as e:  # noqa: BLE001
            bad += 1
            if bad <= 3:
                env.fail({"kind": "bytes-roundtrip", "bytes": list(bs)}, f"raises {type(e).__name__}")
    env.note("long_roundtrips", {"cases": len(cases), "magic_sequences": len(magic), "three_byte_alphabet": len(special), "failed": bad})
    return len(cases)


def keys_in_context(env, lexer, t):
    """`is scanned by the lexer as exactly one token` in context, not only alone: between a complete token on the left (numbers
    of every spelling, a closed string, a one-character element) and a token on the right, every table key, modifier and
    structure character must come out as its own GENERAL token and leave its neighbours' tokens as they are alone."""
    pc = t["parser"]
    lx = t["lexer"]
    keys = [e["key"] for e in t["elements"]] + [m["key"] for m in t["modifiers"]]
    keys += [o for o, _, _ in pc["structure_info"]] + [c for _, _, c in pc["structure_info"]]
    keys = list(dict.fromkeys(k for k in keys if k))
    lefts = ["7", "12", "1.5", "3°4", "0", "0.5", "1.", "`x`", "+", "7 "]
    rights = ["", "7", "+", "`x`", " 1"]
    consuming = set(lx["lex_escape"] + lx["lex_twochar"] + lx["lex_var"] + lx["lex_comment"] + lx["lex_digraph"] + lx["lex_cpnum"] + lx["lex_string_delims"])

    def toks(src):
        return [(str(x.name), x.value) for x in lexer.tokenise(src)]
    n = bad = 0
    alone = {}
    for k in keys:
        if k[-1] in consuming or k[0] in lx["lex_number_chars"]:
            continue                  # the key's last character takes what follows / the key starts like a number: documented lexing
        try:
            alone[k] = toks(k)
        except Exception:  # noqa: BLE001
            continue
        if len(alone[k]) != 1:
            continue                  # reported by the table check below
        for left in lefts:
            for right in rights:
                if right and right[0] in lx["lex_number_chars"] and k[-1] in lx["lex_number_chars"]:
                    continue
                n += 1
                try:
                    got = toks(left + k + right)
                    want = toks(left) + alone[k] + toks(right)
                except Exception as e:  # noqa: BLE001
                    got, want = f"raises {type(e).__name__}", None
                if got != want:
                    bad += 1
                    if bad <= 3:
                        env.fail({"kind": "key-in-context", "key": k, "program": left + k + right},
                                 f"tokenise gives {got!r}; the key alone is {alone[k]!r}, its neighbours alone {toks(left)!r} and {toks(right)!r}",
                                 cls=f"key-in-context:{k}")
    env.note("keys_in_context", {"cases": n, "left_contexts": lefts, "right_contexts": rights, "failed": bad})
    return n


def encoding_correspondence(env):
    V.import_repo()
    from vyxal import encoding
    cases = []
    for b in range(256):
        cases.append((b, ord(encoding.vyxal_to_utf8([b]))))
    pre = "From Coq Require Import List NArith Bool.\nOpen Scope bool_scope.\nFrom Vy Require Import Model.Base Model.Encoding Gen.Codepage.\nImport ListNotations.\n"
    chk = ("fun c => match c with (b, ch) => match byte_to_char codepage b, char_to_byte codepage ch with "
           "Some x, Some y => N.eqb x ch && N.eqb y b | _, _ => false end end")
    ok, bad, logs = env.coq_mismatches("enc", pre, lambda lo, hi: "[" + "; ".join(f"({b}%N, {c}%N)" for b, c in cases[lo:hi]) + "]", chk, len(cases))
    if not ok:
        env.proof_broken("encoding correspondence cases failed to evaluate", logs)
    for i in bad:
        env.disagree("encoding", {"byte": cases[i][0]}, "(model disagrees)", cases[i][1])
    env.count(len(cases), (f"byte:{b}" for b, _ in cases))
    # the two functions as wholes: to_utf8 / to_vyxal of the model on byte strings of every length class
    rng = env.rng
    strs = [bytes(rng.randrange(256) for _ in range(rng.choice([0, 1, 2, 3, 3, 4, 7, 20, 60]))) for _ in range(env.budget(600, 4000))]
    strs += [m + bytes([rng.randrange(256)]) for m in magic_sequences() if len(m) <= 8][:700]
    fc = []
    for bs in strs:
        try:
            txt = encoding.vyxal_to_utf8(list(bs))
            back = [ord(c) for c in encoding.utf8_to_vyxal(txt)]
        except Exception:  # noqa: BLE001
            txt, back = "\x00ERR", [999]
        fc.append((list(bs), [ord(c) for c in txt], back))
    chk2 = ("fun c : (list N * list N * list N) => match c with (bs, txt, back) => match to_utf8 bs with "
            "| Some t => str_eqb t txt && match to_vyxal t with Some b => str_eqb b back | None => false end | None => false end end")

    def lit(lo, hi):
        def ln(l):
            return "[" + "; ".join(str(x) for x in l) + "]%N" if l else "([] : list N)"
        return "[" + "; ".join(f"({ln(a)}, {ln(b)}, {ln(c)})" for a, b, c in fc[lo:hi]) + "]"
    ok, bad, logs = env.coq_mismatches("encfn", pre, lit, chk2, len(fc), shard=500)
    if not ok:
        env.proof_broken("encoding function correspondence cases failed to evaluate", logs)
    for i in bad:
        env.disagree("encoding functions (to_utf8 / to_vyxal)", {"bytes": fc[i][0]}, "(model disagrees)", {"text": fc[i][1], "back": fc[i][2]})
    env.count(len(fc), ())
    env.note("encoding_function_cases", len(fc))


def run(env):
    env.rule = ("lexer model vs implementation on every string of length <= L over a 24-symbol lexical alphabet (L=3 quick, 4 thorough), "
                "every table key, every code-page character and random strings to length 60; byte<->character model vs implementation on all 256 bytes and the two conversion functions on byte strings of every length class; "
                "property oracle on the implementation: all byte strings of length <= 2, magic sequences (codecs signatures, line-end / EOF conventions, byte runs) in every position of random filler, random byte strings to length 200, every key between complete neighbour tokens, every key of the element/modifier/structure tables, "
                "every documented entry. Non-trivial = produces at least one token / is a table entry; distinct by canonical input.")
    items = lexcorr.gen_strings(env, env.tables, env.budget(3, 4), env.budget(1500, 20000))
    lexcorr.check(env, items)
    encoding_correspondence(env)
    oracle(env)
    env.sample({"lexer_case": items[len(items) // 2][0]})
    env.sample({"table_key": env.tables["elements"][17]["key"], "arity": env.tables["elements"][17]["arity"]})
    env.sample({"obligation": "forall e, In e elements -> key_ok e = true (397-entry sweep by vm_compute)"})
    env.assume("CPython's str indexing / str.index behave as nth_error / first index on code points")
    env.assume("the hand-written lexer model equals vyxal.lexer.tokenise (checked by the correspondence, not proved)")


def search_without_tables(env):
    env.rule = "translator failed; oracle on the implementation only"
    try:
        V.import_repo()
        from vyxal import encoding
        if len(set(encoding.codepage)) != 256:
            env.fail({"kind": "codepage"}, "code page is not 256 distinct characters", cls="codepage-size")
    except Exception as e:  # noqa: BLE001
        env.proof_broken("implementation does not import", repr(e))
