"""C05 — numeric literals denote exactly their decimal value.

Deciding method: theorems in coq/Properties/C05.v about the hand-written lexer model
(the three splitting rules of the number branch, for all lengths), the transpiler text
model (the literal's text reaches sympy.Rational / sympy.nsimplify unchanged) and the
value digits/10^k *given* exact conversion by sympy (two named hypotheses).  The models
are tied to lexer.tokenise / transpile by correspondence evaluated inside Coq; the two
hypotheses about sympy are what the oracle measures: the value on the stack after
running the literal alone against fractions.Fraction(literal)."""
from __future__ import annotations

import contextlib
import fractions
import io
import itertools
import os
import re
import time

from vlib import common as V
from vlib import lexcorr, transcorr

KNOWN_CLS = "integer-literal-nsimplify"
PROCS = min(V.NPROC, int(os.environ.get("VERIF_C05_PROCS", "8")))
INT_RE = re.compile(r"(?:0|[1-9][0-9]*)\Z")
_G = None


# ----------------------------------------------------------------------------
# implementation side (module-level: runs in forked workers)
# ----------------------------------------------------------------------------

def _globals():
    global _G
    if _G is None:
        import vyxal.main as M
        _G = dict(vars(M))  # the globals execute_vyxal hands to exec()
    return _G


def push_values(src):
    """(transpiled text, stack) after executing the transpiled program the way
    main.execute_vyxal does (exec of transpile(code, dictionary_compression))."""
    from vyxal.context import Context
    from vyxal.transpile import transpile
    stack = []
    text = transpile(src, True)
    with contextlib.redirect_stdout(io.StringIO()):
        exec(text, dict(_globals(), stack=stack, ctx=Context()))  # noqa: S102
    return text, stack


def as_fraction(v):
    """Exact rational denoted by a pushed value; None when it is not int / Integer / Rational."""
    import sympy
    if isinstance(v, bool):
        return None
    if isinstance(v, int):
        return fractions.Fraction(v)
    if isinstance(v, sympy.Rational):  # Integer is a Rational
        return fractions.Fraction(int(v.p), int(v.q))
    return None


def big_int(digits):
    """int(digits) without CPython's limit on the length of the text (sys.get_int_max_str_digits: 4300 since 3.11):
    the reference must not depend on the very conversion whose limit a long literal runs into"""
    v = 0
    for i in range(0, len(digits), 1000):
        chunk = digits[i:i + 1000]
        v = v * 10 ** len(chunk) + int(chunk)
    return v


def frac_of_literal(lit):
    if len(lit) <= 4000:
        return fractions.Fraction(lit)
    ip, _, fp = lit.partition(".")
    return fractions.Fraction(big_int((ip + fp) or "0"), 10 ** len(fp))


def short(x):
    try:
        t = str(x)
    except ValueError:                     # a number too long for str()
        return "<a number of more than 4300 digits>"
    return t if len(t) <= 120 else t[:60] + "..." + t[-40:] + f" ({len(t)} characters)"


def judge(lit, text, v):
    """None when `v` is exactly the number `lit` spells; else (cls, what)."""
    import sympy
    got = as_fraction(v)
    want = frac_of_literal(lit)
    if got is not None and got == want:
        return None
    shown = f"{type(v).__name__} {short(v)}"
    if INT_RE.match(lit) and text.strip() == f'stack.append(sympy.nsimplify("{lit}"))':
        # the recorded defect, and only it: the unchanged digits were handed to
        # sympy.nsimplify, and sympy itself returns this other number for them
        try:
            direct = sympy.nsimplify(lit)
            if type(direct) is type(v) and direct == v:
                return (KNOWN_CLS, f"pushes {shown}, not {lit}")
        except Exception:  # noqa: BLE001
            pass
    return (None, f"pushes {shown}, not {short(want)}")


def eval_literal(lit):
    try:
        text, stack = push_values(lit)
    except V.Timeout:
        raise
    except Exception as e:  # noqa: BLE001
        return (lit, None, f"raises {type(e).__name__}: {str(e)[:100]}")
    if len(stack) != 1:
        return (lit, None, f"pushes {len(stack)} values: {[str(x)[:40] for x in stack[:5]]}")
    j = judge(lit, text, stack[0])
    return None if j is None else (lit, j[0], j[1])


def eval_range(rng):
    lo, hi = rng
    out = []
    for n in range(lo, hi):
        r = eval_literal(str(n))
        if r is not None:
            out.append(r)
    return out


def eval_list(lits):
    return [r for r in map(eval_literal, lits) if r is not None]


def ref_split(s):
    """The documented splitting of a string over digits and "." (independent of the
    implementation): a 0 not followed by a point is a number of its own; otherwise a
    number takes digits and at most one point."""
    toks = []
    i = 0
    while i < len(s):
        if s[i] == "0" and not (i + 1 < len(s) and s[i + 1] == "."):
            toks.append("0")
            i += 1
            continue
        j = i
        dots = 0
        while j < len(s) and (s[j].isdigit() or (s[j] == "." and dots == 0)):
            dots += s[j] == "."
            j += 1
        toks.append(s[i:j])
        i = j
    return toks


def eval_split(s):
    """None if tokens and pushed values of `s` are the documented ones; else (s, cls, what)."""
    from vyxal import lexer
    want = ref_split(s)
    got = [(t.name.value, t.value) for t in lexer.tokenise(s)]
    if got != [("number", w) for w in want]:
        return (s, None, f"tokens {got}, documented split {want}")
    try:
        text, stack = push_values(s)
    except V.Timeout:
        raise
    except Exception as e:  # noqa: BLE001
        return (s, None, f"raises {type(e).__name__}: {str(e)[:100]}")
    if len(stack) != len(want):
        return (s, None, f"pushes {len(stack)} values for {len(want)} literals")
    lines = [l for l in text.split("\n") if l.strip()]
    worst = None
    for w, v, line in zip(want, stack, lines if len(lines) == len(want) else [""] * len(want)):
        if w == ".":
            continue  # the lone point (pushes 1/2) spells no digits: outside the property
        j = judge(w, line, v)
        if j is not None:
            if j[0] is None:
                return (s, None, f"literal {w} of {s!r}: {j[1]}")
            worst = (s, j[0], f"literal {w} of {s!r}: {j[1]}")
    return worst


def eval_splits(items):
    return [r for r in map(eval_split, items) if r is not None]


def through_main(lit):
    """The literal run by main.execute_vyxal itself (a second literal is the implicit output)."""
    from vlib import runprog
    r = runprog.run(lit + " 1")
    return r["stack"], r["error"]


# ----------------------------------------------------------------------------
# generators
# ----------------------------------------------------------------------------

def rand_int_part(rng, maxlen):
    n = rng.randint(1, maxlen)
    if n == 1:
        return rng.choice("0123456789")
    return rng.choice("123456789") + "".join(rng.choice("0123456789") for _ in range(n - 1))


def rand_decimal(rng, max_int, max_frac):
    f = "".join(rng.choice("0123456789") for _ in range(rng.randint(0, max_frac)))
    r = rng.random()
    if r < 0.08 and f:
        return "." + f                       # .5
    if r < 0.3:
        d = rng.choice(["0", "0", "1", "3", "7"])   # small values: where nsimplify used to round
    else:
        d = rand_int_part(rng, max_int)
    return d + "." + f


LENGTH_EXTREMES = [15, 16, 17, 18, 19, 20, 21, 38, 39, 40, 63, 64, 65, 255, 256, 257, 308, 309, 310, 999, 1000, 1001, 1002, 1023, 1024, 1025,
                   1500, 1999, 2000, 2001, 3000, 3001, 4299, 4300, 4301, 4302, 5000, 8191, 8192, 8193, 10000, 10001, 20001]


def chunks(lst, n):
    return [lst[i:i + n] for i in range(0, len(lst), n)]


# ----------------------------------------------------------------------------
# model correspondence of Model/Literals.v
# ----------------------------------------------------------------------------

LIT_PREAMBLE = ("From Coq Require Import List NArith ZArith QArith Bool.\n"
                "From Vy Require Import Model.Base Model.Lexer Model.Parser Model.Transpile Model.Literals.\nImport ListNotations.\n"
                "Definition vy_lit (c : list N * bool * Z * positive * bool * Z) : bool :=\n"
                "  match c with (s, isnum, p, q, isint, z) =>\n"
                "    (match dec_value s, isnum with\n"
                "     | Some v, true => Qeq_bool v (p # q)\n"
                "     | None, false => true\n"
                "     | _, _ => false end)\n"
                "    && Bool.eqb (int_lit s) isint\n"
                "    && (if isint then Z.eqb (Z_of_digits s) z else true)\n"
                "    && (if isint then match literal_value dec_value (fun d => Some (inject_Z (Z_of_digits d))) s with\n"
                "                      | Some v => Qeq_bool v (p # q) | None => false end\n"
                "        else if isnum then match literal_value dec_value (fun _ => None) s with\n"
                "                           | Some v => Qeq_bool v (p # q) | None => negb (mem 46%N s) end\n"
                "        else true)\n"
                "  end.\n")


def literal_model_cases(env, n_random):
    rng = env.rng
    strs = ["", ".", "..", "0", "00", "0.", ".0", "1.", "01", "10", "1.5", "1.50", "1.2.3", "12°3", "°", "1°", "a", "1a", "1 ", "007"]
    for n in range(0, 5):
        for tup in itertools.product("01.9", repeat=n):
            strs.append("".join(tup))
    for _ in range(n_random):
        r = rng.random()
        if r < 0.4:
            strs.append(rand_decimal(rng, 25, 18))
        elif r < 0.7:
            strs.append(rand_int_part(rng, 40))
        else:
            strs.append("".join(rng.choice("0123456789..") for _ in range(rng.randint(1, 12))))
    strs = list(dict.fromkeys(strs))
    cases = []
    for s in strs:
        plain = re.fullmatch(r"[0-9]*\.?[0-9]*", s) is not None and any(ch.isdigit() for ch in s)
        fr = fractions.Fraction(s) if plain else fractions.Fraction(0)
        isint = INT_RE.match(s) is not None
        z = int(s) if isint else 0
        cases.append((s, f"({V.cstr(s)}, {'true' if plain else 'false'}, {V.cZ(fr.numerator)}, {fr.denominator}%positive, "
                         f"{'true' if isint else 'false'}, {V.cZ(z)})"))
    return cases


# ----------------------------------------------------------------------------
# the check
# ----------------------------------------------------------------------------

def report(env, results, kind, counter):
    """results: list of (status, list of (input, cls, what)) from pmap over chunks."""
    for st, val in results:
        if st != "ok":
            env.fail({"kind": kind, "chunk": "worker"}, f"evaluation did not finish: {st} {val}")
            continue
        for lit, cls, what in val:
            counter[cls or "violation"] = counter.get(cls or "violation", 0) + 1
            env.fail({"kind": kind, "literal": lit}, what, cls=cls)


def run(env):
    env.rule = ("oracle on the implementation: the single value pushed by running the literal alone (exec of transpile(literal), as "
                "main.execute_vyxal does) must be an int / sympy Integer / Rational equal to fractions.Fraction(literal): all integers "
                "0..20000 (quick) / 0..100000 and onwards towards 10^6 within the time budget (thorough), integers sampled up to 10^60, "
                "random decimals (<= 25 integer digits, <= 18 fraction digits, incl. leading-point and trailing-point forms), integers and decimals of extreme lengths (digit counts around 16, 64, 256, 1000, 1024, 4300, 8192 ... up to 10001 / 20001); adjacent "
                "literals: tokens and values of digit/point strings against an independent reference splitter; a sample through "
                "main.execute_vyxal itself.  Correspondence: lexer model on number-heavy strings, transpiler model on literals, "
                "dec_value / int_lit / Z_of_digits / literal_value against fractions.Fraction, int() and a regular expression.  "
                "Non-trivial = a literal with at least two digits; distinct by literal text.")
    rng = env.rng
    V.import_repo()
    counter = {}

    # 1. lexer correspondence on number-heavy strings
    items = []
    for n in range(0, 5):
        for tup in itertools.product(["0", "1", "7", ".", "°", " ", "a"], repeat=n):
            items.append(("".join(tup), False))
    for _ in range(env.budget(2500, 25000)):
        n = rng.randint(1, 30)
        items.append(("".join(rng.choice("0123456789.° a00..") for _ in range(n)), False))
    items = list(dict.fromkeys(items))
    lexcorr.check(env, items, name="lexnum")

    # 2. transpiler correspondence on literals (incl. the "°" forms the model covers)
    lits = ["0", "1", "10", "1164", "0.5", ".5", "5.", ".", "1.2.3", "007", "1°2", "°", "1°", "°2", ".°.", "1.5°2.5", "0.0", "00.5"]
    for _ in range(env.budget(500, 4000)):
        r = rng.random()
        if r < 0.45:
            lits.append(rand_decimal(rng, 25, 18))
        elif r < 0.75:
            lits.append(rand_int_part(rng, 30))
        else:
            lits.append("".join(rng.choice("0123456789.°") for _ in range(rng.randint(1, 10))))
    transcorr.check(env, lits, name="translit", shard=400)

    # 3. Model/Literals.v against Python's own reading of the text
    cases = literal_model_cases(env, env.budget(1500, 12000))
    ok, bad, logs = env.coq_mismatches("litmodel", LIT_PREAMBLE, lambda lo, hi: "[" + ";\n".join(c for _, c in cases[lo:hi]) + "]",
                                       "vy_lit", len(cases), shard=1200)
    if not ok:
        env.proof_broken("literal model cases failed to evaluate in Coq", logs)
    for i in bad:
        env.disagree("literals-model", {"text": cases[i][0]}, "(dec_value / int_lit / Z_of_digits / literal_value disagree)", cases[i][1][:200])
    env.count(len(cases), (f"model:{s}" for s, _ in cases if sum(ch.isdigit() for ch in s) >= 2))
    env.note("literal_model_cases", len(cases))

    # 4. oracle: integers, exhaustively from 0
    t0 = time.time()
    fixed_hi = env.budget(20000, 100000)
    res = V.pmap(eval_range, [(lo, min(lo + 250, fixed_hi + 1)) for lo in range(0, fixed_hi + 1, 250)], timeout=300, procs=PROCS, chunksize=1)
    report(env, res, "integer", counter)
    reached = fixed_hi
    if env.thorough:
        # keep going towards 10^6 while the budget lasts (sympy.nsimplify costs ~10 ms per integer)
        deadline = env.t0 + float(os.environ.get("VERIF_C05_BUDGET_S", "640"))
        step = 250 * PROCS * 4
        while reached < 10 ** 6 and time.time() < deadline:
            hi = min(10 ** 6, reached + step)
            res = V.pmap(eval_range, [(lo, min(lo + 250, hi + 1)) for lo in range(reached + 1, hi + 1, 250)], timeout=300, procs=PROCS, chunksize=1)
            report(env, res, "integer", counter)
            reached = hi
    env.count(reached + 1, (f"int:{n}" for n in range(10, reached + 1)))
    env.note("integers_exhaustive_upto", reached)
    V.log(f"[C05] integers 0..{reached} in {time.time() - t0:.1f}s")

    # 5. oracle: sampled integers (the part of 0..10^6 not reached, then up to 10^60) and decimals
    big = []
    for _ in range(env.budget(3000, 20000)):
        big.append(str(rng.randrange(reached + 1, 10 ** 6 + 1)) if reached < 10 ** 6 and rng.random() < 0.5
                   else rand_int_part(rng, 60))
    decs = [rand_decimal(rng, 25, 18) for _ in range(env.budget(5000, 60000))]
    decs += ["0.333333333333333", "1.4142135623730951", "3.141592653589793", "2.718281828459045", "0.1", "0.30000000000000004",
             "1.0", "1.", "0.", "0.0", ".5", "0.5", "123456789012345678901234567890.123456789012345678", "0.000000000000000001"]
    # length extremes: digit counts on both sides of the lengths at which number handling changes in Python, sympy or a
    # likely fast path (machine words, 10**k chunking, the default limit of int<->str conversion of CPython 3.11+)
    ext_i, ext_d = [], []
    for n in LENGTH_EXTREMES[: env.budget(36, len(LENGTH_EXTREMES))]:
        ext_i.append(rand_int_part(rng, 1)[:1].replace("0", "7") + "".join(rng.choice("0123456789") for _ in range(n - 1)))
        ext_i.append("1" + "0" * (n - 1))
        ext_i.append("9" * n)
        for f in sorted({1, n // 2, n - 1} - {0}):
            d = "".join(rng.choice("0123456789") for _ in range(n))
            ext_d.append((d[: n - f].lstrip("0") or "0") + "." + d[n - f:])
        ext_d.append("." + "".join(rng.choice("0123456789") for _ in range(n)))
        ext_d.append("0." + "0" * (n - 1) + "1")
    big += ext_i
    decs += ext_d
    env.note("length_extremes", {"digit_counts": LENGTH_EXTREMES[: env.budget(36, len(LENGTH_EXTREMES))], "integers": len(ext_i), "decimals": len(ext_d)})
    big = list(dict.fromkeys(big))
    decs = list(dict.fromkeys(decs))
    report(env, V.pmap(eval_list, chunks(big, 100), timeout=300, procs=PROCS, chunksize=1), "integer", counter)
    report(env, V.pmap(eval_list, chunks(decs, 500), timeout=300, procs=PROCS, chunksize=1), "decimal", counter)
    env.count(len(big) + len(decs), itertools.chain((f"int:{s}" for s in big), (f"dec:{s}" for s in decs)))
    env.note("integers_sampled", len(big))
    env.note("decimals", len(decs))
    env.note("decimal_fraction_length_distribution", _hist(len(d.split(".")[1]) for d in decs))
    env.note("sampled_integer_length_distribution", _hist(len(s) // 10 * 10 for s in big))

    # 6. oracle: adjacent literals
    splits = ["007", "1.2.3", "0.5", "00.5", "0.5.5", "10", "100", "1.2.", "0.0.0", "1..2", "01", "0", "00", "1.20.3", "120.050.7", "0001", "10.01.0"]
    for n in range(1, env.budget(6, 7)):
        for tup in itertools.product("01.7", repeat=n):
            splits.append("".join(tup))
    for _ in range(env.budget(3000, 30000)):
        splits.append("".join(rng.choice("0123456789..00") for _ in range(rng.randint(2, 14))))
    splits = list(dict.fromkeys(splits))
    report(env, V.pmap(eval_splits, chunks(splits, 200), timeout=300, procs=PROCS, chunksize=1), "adjacent", counter)
    env.count(len(splits), (f"split:{s}" for s in splits if len(ref_split(s)) >= 2))
    env.note("adjacent_literal_strings", len(splits))
    env.note("adjacent_token_count_distribution", _hist(len(ref_split(s)) for s in splits))

    # 7. a sample through main.execute_vyxal itself
    sample = ["0", "7", "1000", "0.5", "1.25", "120.50", "0.333333333333333", "99999999999999999999", ".5", "3."]
    sample += [rand_decimal(rng, 25, 18) for _ in range(env.budget(60, 400))]
    sample += [rand_int_part(rng, 3) for _ in range(env.budget(30, 200))] + [str(10 ** 10 + rng.randrange(10 ** 30)) for _ in range(env.budget(30, 200))]
    sample = list(dict.fromkeys(sample))
    for lit, (st, val) in zip(sample, V.pmap(through_main, sample, timeout=60, procs=PROCS)):
        want = fractions.Fraction(lit)
        exp = ["int", str(want.numerator)] if want.denominator == 1 else ["rat", str(want.numerator), str(want.denominator)]
        if st != "ok" or val[1] is not None or val[0] != [exp]:
            # integers of the recorded class show up here too; classify through the direct path
            r = eval_literal(lit)
            env.fail({"kind": "execute_vyxal", "literal": lit}, f"stack after `{lit} 1` is {val}", cls=(r[1] if r else None))
    env.count(len(sample), (f"main:{s}" for s in sample))

    env.note("oracle_failures_by_class", counter)
    for s in ("1164", "0.333333333333333", "007", "1.2.3", "123456789012345678901234567890.123456789012345678"):
        env.sample({"literal": s, "documented_split": ref_split(s)})
    env.sample({"obligation": "C05_split_decimal: int_lit d -> all_digits f -> ends_decimal rest -> tokenise (d ++ \".\" ++ f ++ rest) = NUMBER (d.f) :: tokenise rest"})
    env.sample({"obligation": "C05_value_decimal: (forall s, sym_rational s = dec_value s) -> literal_value .. (d.f) == Z_of_digits (d ++ f) / 10 ^ |f|"})
    env.assume("sympy.Rational(text) is the exact rational the text spells and sympy.nsimplify(digits) is that integer: hypotheses of "
               "C05_value_*, not proved (sympy is outside the model); the oracle measures both on every literal it runs; the second "
               "is false for the integers of the known finding C05-integer-literal-nsimplify")
    env.assume("the lexer and transpiler text models equal lexer.tokenise / transpile (checked by the correspondence, not proved)")
    env.assume("a lone point, and the forms with \"°\", spell no digit string with at most one point: modelled for the correspondence, outside the theorems")


def _hist(xs):
    h = {}
    for x in xs:
        h[str(x)] = h.get(str(x), 0) + 1
    return dict(sorted(h.items(), key=lambda kv: (len(kv[0]), kv[0])))
