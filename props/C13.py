"""C13 — a finite lazy list is indistinguishable from the list it enumerates.

Deciding method: theorems in coq/Properties/C13.v about the heap model of
vyxal/LazyList.py + helpers.deep_copy (coq/Model/LazyList.v): every observation returns
what the plain list returns and no observation changes what any cell denotes, for every
source and every history.  The model is tied to the implementation by the correspondence
below: the real vyxal.LazyList.LazyList runs histories of observations (exhaustive short
ones, random long ones), every output is written into a Coq case and compared with
`run (init src) ops` by vm_compute.  Independently of the model the oracle states the
property on the implementation: each observation equals the same observation on a plain
Python list, and afterwards every cell still lists the source."""
from __future__ import annotations

import collections
import itertools
import time

from vlib import common as V

PREAMBLE = ("From Coq Require Import List ZArith Bool.\nFrom Vy Require Import Model.LazyList.\n"
            "Import ListNotations.\nOpen Scope Z_scope.\n")
CHECKER = "fun c => match c with (src, ops, outs) => outs_eqb (fst (run (init src) ops)) outs end"

KINDS = ["index", "negindex", "slice", "len", "iter", "bool", "contains", "eqlist", "eqlazy",
         "count", "reversed", "copy", "listify", "has_ind", "next"]
SLICES = [(1, None, None), (None, 2, None), (1, 2, None), (0, 5, None), (None, None, 2),
          (None, -1, None), (-2, None, None), (None, None, -1)]
ALPHABET = (0, 1, 2)


def ops_for(src):
    """The parametrised operations of DESIGN.md Appendix C for this source."""
    n = len(src)
    ops = [("index", i) for i in sorted({0, 1, 2, n, n + 1})]
    ops += [("index", -1), ("index", -2)]
    ops += [("slice",) + s for s in SLICES]
    ops += [("len",), ("iter",), ("bool",)]
    ops += [("contains", src[-1] if src else 0), ("contains", 3)]
    ops += [("eqlist", tuple(src)), ("eqlist", tuple(src) + (0,)), ("eqlazy", tuple(src))]
    ops += [("count", src[0] if src else 0), ("reversed",), ("copy",), ("listify",),
            ("has_ind", 1), ("has_ind", n), ("next",)]
    return ops


def kind_of(op):
    return "negindex" if op[0] == "index" and op[1] < 0 else op[0]


# ---------------------------------------------------------------------------------------
# implementation side
# ---------------------------------------------------------------------------------------

def _ints(v):
    return [int(x) for x in v]


def observe(cells, t, op):
    """One observation on the real LazyList; canonical result."""
    from vyxal.LazyList import LazyList
    from vyxal.helpers import deep_copy
    L = cells[t]
    k = op[0]
    try:
        if k == "index":
            return ("Z", int(L[op[1]]))
        if k == "slice":
            return ("L", _ints(L[slice(op[1], op[2], op[3])]))      # LazyList or list: forced
        if k == "len":
            return ("Z", int(len(L)))
        if k == "iter":
            return ("L", _ints(iter(L)))
        if k == "bool":
            return ("B", bool(L))
        if k == "contains":
            return ("B", bool(op[1] in L))
        if k == "eqlist":
            return ("B", bool(L == list(op[1])))
        if k == "eqlazy":
            return ("B", bool(L == LazyList(list(op[1]))))
        if k == "count":
            return ("Z", int(L.count(op[1])))
        if k == "reversed":
            return ("L", _ints(L.reversed()))
        if k == "copy":
            cells.append(deep_copy(L))
            return ("U",)
        if k == "listify":
            return ("L", _ints(L.listify()))
        if k == "has_ind":
            return ("B", bool(L.has_ind(op[1])))
        if k == "next":
            return ("Z", int(next(L)))
    except Exception as e:  # noqa: BLE001
        return ("E", type(e).__name__)
    raise AssertionError(op)


def list_spec(l, op):
    """The same observation on a plain Python list (None: not an observation of the list)."""
    k = op[0]
    try:
        if k == "index":
            i = op[1]
            if i >= 0:                      # the wrap-around LazyList documents
                return ("Z", l[i % len(l)] if l else 0)
            return ("Z", l[i])
        if k == "slice":
            return ("L", l[slice(op[1], op[2], op[3])])
        if k == "len":
            return ("Z", len(l))
        if k in ("iter", "listify"):
            return ("L", list(l))
        if k == "bool":
            return ("B", bool(l))
        if k == "contains":
            return ("B", op[1] in l)
        if k in ("eqlist", "eqlazy"):
            return ("B", l == list(op[1]))
        if k == "count":
            return ("Z", l.count(op[1]))
        if k == "reversed":
            return ("L", list(reversed(l)))
        if k == "copy":
            return ("U",)
        if k == "has_ind":
            return ("B", 0 <= op[1] < len(l))
        if k == "next":
            return None
    except Exception as e:  # noqa: BLE001
        return ("E", type(e).__name__)
    raise AssertionError(op)


def replay_history(src, hist):
    """Run a history on a fresh LazyList(list(src)).  Returns (outputs, failure|None):
    failure = (position, what) of the first observation that differs from the plain list,
    or of a cell that no longer lists the source afterwards."""
    from vyxal.LazyList import LazyList
    plain = list(src)
    cells = [LazyList(list(src))]
    outs = []
    fail = None
    for j, (t, op) in enumerate(hist):
        o = observe(cells, t, op)
        outs.append(o)
        if fail is None:
            s = list_spec(plain, op)
            if s is not None and s != o:
                fail = (j, f"{show_op(t, op)} gives {show_out(o)}, the plain list gives {show_out(s)}")
    if fail is None:
        for ci, c in enumerate(cells):
            try:
                fin = _ints(c.listify())
            except Exception as e:  # noqa: BLE001
                fin = type(e).__name__
            if fin != plain:
                fail = (len(hist) - 1, f"afterwards cell {ci} lists {fin}")
                break
    return outs, fail


def show_op(t, op):
    k = op[0]
    name = "L" if t == 0 else f"copy{t}"
    if k == "index":
        return f"{name}[{op[1]}]"
    if k == "slice":
        f = lambda x: "" if x is None else str(x)  # noqa: E731
        return f"{name}[{f(op[1])}:{f(op[2])}:{f(op[3])}]"
    if k in ("contains", "count", "has_ind"):
        return f"{name}.{k}({op[1]})"
    if k == "eqlist":
        return f"{name}=={list(op[1])}"
    if k == "eqlazy":
        return f"{name}==LazyList({list(op[1])})"
    if k == "copy":
        return f"deep_copy({name})"
    return f"{k}({name})"


def show_out(o):
    return o[1] if len(o) > 1 else "-"


def hist_json(src, hist):
    return {"source": list(src), "history": [show_op(t, op) for t, op in hist],
            "ops": [[t] + [list(a) if isinstance(a, tuple) else a for a in op] for t, op in hist]}


# ---------------------------------------------------------------------------------------
# exhaustive enumeration (in workers): all histories of exactly `depth` operations that
# start with a given first operation; shorter histories are their prefixes
# ---------------------------------------------------------------------------------------

def explore(item):
    src, depth, first, want_cases = item
    ops = ops_for(src)
    cases = []
    fails = []
    kinds = collections.Counter()
    cellhist = collections.Counter()
    n_obs = 0
    n_hist = 0
    seen_fail = set()
    stack = [((0, ops[first]),)]
    while stack:
        hist = stack.pop()
        if len(hist) < depth:
            ncell = 1 + sum(1 for _, op in hist if op[0] == "copy")
            for t in range(ncell):
                for op in ops:
                    stack.append(hist + ((t, op),))
            continue
        outs, fail = replay_history(src, hist)
        n_hist += 1
        n_obs += len(hist)
        for _, op in hist:
            kinds[kind_of(op)] += 1
        cellhist[1 + sum(1 for _, op in hist if op[0] == "copy")] += 1
        if fail is not None:
            cut = hist[:fail[0] + 1]
            if cut not in seen_fail and len(fails) < 20:
                seen_fail.add(cut)
                fails.append((src, cut, fail[1]))
        if want_cases:
            cases.append((src, hist, tuple(outs)))
    return cases, fails, dict(kinds), dict(cellhist), n_obs, n_hist


def run_random(item):
    src, hist = item
    outs, fail = replay_history(src, hist)
    return tuple(outs), fail


# ---------------------------------------------------------------------------------------
# Coq literals
# ---------------------------------------------------------------------------------------

def cz(v):
    return f"({v})" if v < 0 else str(v)


def czl(l):
    return "(@nil Z)" if not l else "[" + "; ".join(cz(v) for v in l) + "]"


def coz(x):
    return "None" if x is None else f"(Some {cz(x)})"


def kind_coq(op):
    k = op[0]
    if k == "index":
        return f"KIndex {cz(op[1])}"
    if k == "slice":
        return f"KSlice {coz(op[1])} {coz(op[2])} {coz(op[3])}"
    if k == "contains":
        return f"KContains {cz(op[1])}"
    if k == "eqlist":
        return f"KEqList {czl(op[1])}"
    if k == "eqlazy":
        return f"KEqLazy {czl(op[1])}"
    if k == "count":
        return f"KCount {cz(op[1])}"
    if k == "has_ind":
        return f"KHasInd {cz(op[1])}"
    return {"len": "KLen", "iter": "KIter", "bool": "KBool", "reversed": "KReversed", "copy": "KCopy",
            "listify": "KListify", "next": "KNext"}[k]


EXC = {"StopIteration": "OStop", "IndexError": "OIndexError", "ValueError": "OValueError"}


def out_coq(o):
    if o[0] == "Z":
        return f"OZ {cz(o[1])}"
    if o[0] == "L":
        return f"OL {czl(o[1])}"
    if o[0] == "B":
        return "OB true" if o[1] else "OB false"
    if o[0] == "U":
        return "OUnit"
    return EXC.get(o[1], "OFuel")     # OFuel equals nothing: any other exception is a mismatch


def case_coq(case):
    src, hist, outs = case
    ops = "; ".join(f"Build_op {t}%nat ({kind_coq(op)})" for t, op in hist)
    return f"({czl(src)}, [{ops}], [{'; '.join(out_coq(o) for o in outs)}])"


def correspond(env, name, cases):
    """Compare the implementation's outputs with the model inside Coq."""
    if not cases:
        return
    ok, bad, logs = env.coq_mismatches(
        name, PREAMBLE, lambda lo, hi: "[" + ";\n ".join(case_coq(c) for c in cases[lo:hi]) + "]",
        CHECKER, len(cases), shard=1500)
    if not ok:
        env.proof_broken(f"lazy-list correspondence cases ({name}) failed to evaluate", logs)
    for i in bad:
        src, hist, outs = cases[i]
        env.disagree("LazyList", hist_json(src, hist), "(model output differs, see coq/Model/LazyList.v run)",
                     [show_out(o) for o in outs])


GROUP_CHECKER = ("fun c => match c with (src, pre, preouts, lasts) => let (outs, h) := run (init src) pre in "
                 "outs_eqb outs preouts && forallb (fun p => out_eqb (fst (step h (fst p))) (snd p)) lasts end")


def op_coq(t, op):
    return f"Build_op {t}%nat ({kind_coq(op)})"


def group_coq(g):
    src, pre, preouts, lasts = g
    return (f"({czl(src)}, [{'; '.join(op_coq(t, op) for t, op in pre)}], [{'; '.join(out_coq(o) for o in preouts)}],\n  ["
            + "; ".join(f"({op_coq(t, op)}, {out_coq(o)})" for (t, op), o in lasts) + "])")


def correspond_grouped(env, name, cases):
    """Same comparison, histories that share all but the last operation written as one Coq
    case (the literal is three times smaller: parsing dominates the evaluation)."""
    groups = {}
    for i, (src, hist, outs) in enumerate(cases):
        groups.setdefault((src, hist[:-1]), []).append(i)
    keys = list(groups)
    glist = [(k[0], k[1], cases[groups[k][0]][2][:-1], [(cases[i][1][-1], cases[i][2][-1]) for i in groups[k]]) for k in keys]
    ok, bad, logs = env.coq_mismatches(
        name, PREAMBLE, lambda lo, hi: "[" + ";\n ".join(group_coq(g) for g in glist[lo:hi]) + "]",
        GROUP_CHECKER, len(glist), shard=40)
    if not ok:
        env.proof_broken(f"lazy-list correspondence cases ({name}) failed to evaluate", logs)
    detail = [cases[i] for gi in bad[:20] for i in groups[keys[gi]]]
    if detail:
        before = len(env.disagreements)
        correspond(env, name + "_detail", detail)
        if len(env.disagreements) == before:
            env.disagree("LazyList", hist_json(detail[0][0], detail[0][1][:-1]), "(a group of histories with this prefix differs)", "")


def report_fail(env, src, hist, what):
    t, op = hist[-1]
    env.fail(hist_json(src, hist), what, cls=f"{kind_of(op)}:{'copy' if t else 'root'}")


# ---------------------------------------------------------------------------------------
# random histories
# ---------------------------------------------------------------------------------------

def random_op(rng, src, ncell):
    n = len(src)
    k = rng.choice(KINDS)
    t = rng.randrange(ncell)

    def pos():
        return rng.randint(-(n + 2), n + 3)

    def opos():
        return None if rng.random() < 0.4 else pos()
    if k == "index":
        return t, ("index", rng.randint(0, n + 3))
    if k == "negindex":
        return t, ("index", -rng.randint(1, n + 2))
    if k == "slice":
        return t, ("slice", opos(), opos(), rng.choice([None, None, 1, 2, 3, -1, -2, -3]))
    if k in ("contains", "count"):
        return t, (k, rng.randint(0, 3))
    if k in ("eqlist", "eqlazy"):
        m = rng.random()
        other = list(src)
        if m < 0.25 and other:
            other = other[:-1]
        elif m < 0.5:
            other = other + [rng.randint(0, 2)]
        elif m < 0.65 and other:
            other[rng.randrange(len(other))] = 3
        return t, (k, tuple(other))
    if k == "has_ind":
        return t, ("has_ind", rng.randint(-1, n + 2))
    if k == "copy" and ncell >= 4:
        return t, ("iter",)
    return t, (k,)


def random_histories(env, count):
    rng = env.rng
    items = []
    for _ in range(count):
        src = tuple(rng.randint(0, 2) for _ in range(rng.randint(0, 8)))
        hist = []
        ncell = 1
        for _ in range(rng.randint(1, 12)):
            t, op = random_op(rng, src, ncell)
            if op[0] == "copy":
                ncell += 1
            hist.append((t, op))
        items.append((src, tuple(hist)))
    return items


# ---------------------------------------------------------------------------------------

# ---------------------------------------------------------------------------------------
# printing: the text of a lazy list never depends on what was observed before
# ---------------------------------------------------------------------------------------

PRINT_ITEMS = [1, 0, -2, "ab", "", "c", "`", [1, "a"], [], ["x", [2]]]
PRINT_PEEKS = [("len",), ("index", 0), ("index", 1), ("index", -1), ("bool",), ("has_ind", 1), ("slice", 0, 2, None),
               ("iter",), ("next",), ("contains", "ab"), ("count", 1)]


def print_case(item):
    """(src, peeks, vyxal_lists) -> (text printed by the lazy list after the peeks, text printed by the plain list)"""
    import contextlib
    import io
    from vyxal.context import Context
    from vyxal.elements import vy_print
    from vyxal.LazyList import LazyList
    src, peeks, vyl = item
    out = []
    for lazy in (True, False):
        ctx = Context()
        ctx.vyxal_lists = vyl
        stack = []
        ctx.stacks.append(stack)
        val = LazyList(iter(list(src))) if lazy else list(src)
        if lazy:
            for op in peeks:
                try:
                    if op[0] == "len":
                        len(val)
                    elif op[0] == "index":
                        val[op[1]]
                    elif op[0] == "bool":
                        bool(val)
                    elif op[0] == "has_ind":
                        val.has_ind(op[1])
                    elif op[0] == "slice":
                        list(val[slice(op[1], op[2], op[3])])
                    elif op[0] == "iter":
                        list(iter(val))
                    elif op[0] == "next":
                        next(val)
                    elif op[0] == "contains":
                        op[1] in val
                    elif op[0] == "count":
                        val.count(op[1])
                except Exception:  # noqa: BLE001 - a peek that raises (empty list) is still a peek
                    pass
        buf = io.StringIO()
        try:
            with contextlib.redirect_stdout(buf):
                vy_print(val, "", ctx=ctx)
            out.append(buf.getvalue())
        except Exception as e:  # noqa: BLE001
            out.append("EXC:" + type(e).__name__)
    return out


def slice_grid_case(item):
    """(n, cache length, (start, stop, step)) -> None or a description of the difference"""
    from vyxal.LazyList import LazyList
    n, c, (a, b, st) = item
    src = list(range(n))
    L = LazyList(iter(list(src)))
    for _ in range(c):
        next(L)                       # a cache of exactly c items
    try:
        got = L[slice(a, b, st)]
        got = [int(x) for x in got]
    except Exception as e:  # noqa: BLE001
        got = "EXC:" + type(e).__name__
    try:
        want = src[slice(a, b, st)]
    except Exception as e:  # noqa: BLE001
        want = "EXC:" + type(e).__name__
    if got != want:
        return f"L[{a}:{b}:{st}] with {c} of {n} items already generated gives {got}, the list gives {want}"
    rest = [int(x) for x in L.listify()]
    if rest != src:
        return f"after L[{a}:{b}:{st}] with {c} of {n} items generated the list reads {rest}"
    return None


def slice_grid_oracle(env):
    """every slice (start, stop, step) on every partially generated cache: the cache length at the moment of
    the slice is the parameter random histories rarely hit together with a particular start / step"""
    items = []
    for n in env.budget((4, 6, 8), (3, 4, 5, 6, 7, 8, 9)):
        for c in range(n + 1):
            for a in [None] + list(range(0, n + 1)):
                for b in [None] + list(range(0, n + 2)):
                    for st in (None, 1, 2, 3, 4, -1, -2):
                        if st is not None and st < 0 and (a is None or b is None):
                            continue          # open-ended negative steps: covered by the histories (documented wrap-around aside)
                        items.append((n, c, (a, b, st)))
    chunk = 2000
    groups = [items[i:i + chunk] for i in range(0, len(items), chunk)]
    res = V.pmap(slice_grid_group, groups, timeout=120)
    bad = 0
    for g, (st_, val) in zip(groups, res):
        if st_ != "ok":
            env.proof_broken("slice grid did not finish", f"{st_} {val}")
            continue
        for it, what in val:
            bad += 1
            if bad <= 5:
                env.fail({"kind": "slice-on-partial-cache", "length": it[0], "generated": it[1], "slice": list(it[2])}, what, cls="slice:partial-cache")
    env.count(len(items), (f"grid:{n}:{c}:{sl}" for n, c, sl in items if 0 < c < n))
    env.note("slice_grid", {"cases": len(items), "differ": bad})


def slice_grid_group(group):
    out = []
    for it in group:
        w = slice_grid_case(it)
        if w is not None:
            out.append((it, w))
    return out


def print_oracle(env):
    rng = env.rng
    items = []
    # every single peek, and no peek, before printing, on short mixed lists
    shorts = [list(t) for n in range(0, 3) for t in itertools.product(PRINT_ITEMS[:7], repeat=n)]
    shorts += [[rng.choice(PRINT_ITEMS) for _ in range(rng.randint(1, 5))] for _ in range(env.budget(60, 600))]
    for src in shorts:
        for vyl in (True, False):
            items.append((src, (), vyl))
            for pk in PRINT_PEEKS:
                if pk[0] == "next":
                    continue            # next() consumes an item: the printed list is then a different list
                items.append((src, (pk,), vyl))
            for _ in range(2):
                ks = tuple(p for p in (rng.choice(PRINT_PEEKS) for _ in range(rng.randint(2, 4))) if p[0] != "next")
                items.append((src, ks, vyl))
    res = V.pmap(print_case, items, timeout=20)
    bad = 0
    for (src, peeks, vyl), (st, val) in zip(items, res):
        if st != "ok":
            env.fail({"kind": "print", "source": src, "peeks": list(peeks), "vyxal_lists": vyl}, f"printing did not finish: {st} {val}", cls="C13:print")
            continue
        lazy_text, list_text = val
        if lazy_text != list_text:
            bad += 1
            env.fail({"kind": "print", "source": src, "peeks": [list(p) for p in peeks], "vyxal_lists": vyl},
                     f"the lazy list prints {lazy_text!r} after these observations, the plain list prints {list_text!r}", cls="C13:print")
    env.count(len(items), (f"print:{src}|{peeks}|{vyl}" for src, peeks, vyl in items if peeks and src))
    env.note("print_cases", {"total": len(items), "differ": bad, "items": "ints, strings (also empty / a back-quote), nested lists"})


# ---------------------------------------------------------------------------------------
# oracle only: positions far outside machine words; items and needles that are themselves lists (plain or lazy)
# ---------------------------------------------------------------------------------------
FAR = [2 ** 31 - 1, 2 ** 31, 2 ** 32 + 1, 2 ** 63 - 1, 2 ** 63, 2 ** 63 + 1, 2 ** 64, 2 ** 64 + 5, 10 ** 30, 10 ** 100 + 7]
RICH_ITEMS = [1, 0, "a", "", [2, 3], [], [4, [5]], [[]], [0], ["a"], [2, 3], ("q", 1, 2), ("q", 1, 3), [("q", 1, 3)], [("q", -7, 2), 1], ("q", 10 ** 20 + 1, 10 ** 20)]


def realise(spec, pattern, pos=0):
    """nested plain lists -> the same value with every list plain or lazy as the bit pattern says"""
    from vyxal.LazyList import LazyList
    if isinstance(spec, tuple):                      # ("q", p, q): an exact fraction
        import sympy
        return sympy.Rational(spec[1], spec[2]), pos
    if not isinstance(spec, list):
        return spec, pos
    lazy = (pattern >> (pos % 16)) & 1
    pos += 1
    items = []
    for x in spec:
        y, pos = realise(x, pattern, pos)
        items.append(y)
    return (LazyList(iter(items)) if lazy else items), pos


def plain(x):
    from vyxal.LazyList import LazyList
    import sympy
    if isinstance(x, tuple) and len(x) == 3 and x[0] == "q":
        return plain(sympy.Rational(x[1], x[2]))
    if isinstance(x, (list, tuple, LazyList)):
        return [plain(y) for y in x]
    if isinstance(x, (bool, int, sympy.Integer)):
        return int(x)
    if isinstance(x, sympy.Rational):
        import fractions
        return fractions.Fraction(int(x.p), int(x.q))
    return x


def rich_case(item):
    """-> list of (what, lazy answer, list answer) that differ"""
    from vyxal.LazyList import LazyList
    src, pat_src, needle, pat_needle, peeks, far = item
    out = []

    def fresh():
        items = [realise(x, pat_src >> (3 * k))[0] for k, x in enumerate(src)]
        L = LazyList(iter(items))
        for pk in peeks:
            try:
                if pk == "len":
                    len(L)
                elif pk == "bool":
                    bool(L)
                elif pk == "iter":
                    list(L)
                elif isinstance(pk, int):
                    L[pk]
            except Exception:  # noqa: BLE001
                pass
        return L

    def both(what, f_lazy, f_list):
        try:
            a = ("ok", plain(f_lazy()))
        except Exception as e:  # noqa: BLE001
            a = ("exc", type(e).__name__)
        try:
            b = ("ok", plain(f_list()))
        except Exception as e:  # noqa: BLE001
            b = ("exc", type(e).__name__)
        if a != b:
            out.append((what, a, b))
    l = [plain(x) for x in src]
    nd = realise(needle, pat_needle)[0]
    both("needle in L", lambda: bool(nd in fresh()), lambda: plain(needle) in l)
    both("L.count(needle)", lambda: fresh().count(nd), lambda: l.count(plain(needle)))
    both("L == other (same items, other representation)", lambda: bool(fresh() == realise(src, pat_needle)[0]), lambda: True)
    if l:
        both("L == other (last item replaced by the needle)", lambda: bool(fresh() == realise(src[:-1] + [needle], pat_needle)[0]),
             lambda: l == l[:-1] + [plain(needle)])
    for i in far:
        both(f"L[{i}]", lambda: fresh()[i], lambda: l[i % len(l)] if l else 0)
        both(f"L[{-i}]", lambda: fresh()[-i], lambda: l[-i])
        both(f"L.has_ind({i})", lambda: bool(fresh().has_ind(i)), lambda: 0 <= i < len(l))
        both(f"L[:{i}]", lambda: fresh()[:i], lambda: l[:i])
        both(f"L[{i}:]", lambda: fresh()[i:], lambda: l[i:])
        both(f"L[::{i}]", lambda: fresh()[::i], lambda: l[::i])
    return out


def rich_oracle(env):
    rng = env.rng
    items = []
    peek_sets = [(), ("len",), (0,), (1,), ("iter",), ("bool", 0), (-1,)]
    for _ in range(env.budget(1500, 12000)):
        src = [rng.choice(RICH_ITEMS) for _ in range(rng.randint(0, 5))]
        needle = rng.choice(src) if src and rng.random() < 0.7 else rng.choice(RICH_ITEMS)
        far = [rng.choice(FAR)] if rng.random() < 0.5 else []
        items.append((src, rng.getrandbits(16), needle, rng.getrandbits(16), rng.choice(peek_sets), far))
    for src in ([3, 1, 4], [], [7], [[2, 3], 1]):
        for pk in peek_sets:
            items.append((src, 0, 1, 0, pk, FAR))
    res = V.pmap(rich_case, items, timeout=20)
    bad = 0
    for it, (st, val) in zip(items, res):
        src, ps, needle, pn, peeks, far = it
        inp = {"kind": "rich", "source": src, "representation_bits": ps, "needle": needle, "needle_bits": pn, "observed_before": list(peeks), "far_positions": far}
        if st != "ok":
            env.fail(inp, f"observation did not finish: {st} {val}", cls="C13:rich")
            continue
        for what, a, b in val:
            bad += 1
            if bad <= 5:
                env.fail(dict(inp, observation=what), f"{what}: the lazy list answers {a}, the plain list {b}", cls="C13:rich")
    env.count(len(items), (f"rich:{it[0]}|{it[1]}|{it[2]}|{it[3]}|{it[4]}|{it[5]}" for it in items if it[0]))
    env.note("rich_cases", {"total": len(items), "differ": bad, "items": "ints, strings, nested lists each plain or lazy per node; needles likewise; "
                            "positions 2**31-1 .. 10**100 for index / negative index / has_ind / slice bounds and step"})


def run(env):
    V.import_repo()
    import vyxal.helpers  # noqa: F401  (import order: helpers first, LazyList imports it back)
    depth = env.budget(2, 3)
    deep = env.budget(0, 4)          # oracle only (no Coq cases): one level deeper in thorough
    n_random = env.budget(3000, 40000)
    env.rule = (
        f"histories of observations on vyxal.LazyList.LazyList(list(src)): every src of length 0..3 over {{0,1,2}} x every history of "
        f"exactly {depth} operations (shorter ones are prefixes) over the parametrised operations of DESIGN Appendix C aimed at any existing cell "
        f"(root or deep copy), each output compared with the Coq model by vm_compute and with the same observation on a plain Python list"
        + (f"; all histories of {deep} operations against the plain-list oracle only" if deep else "")
        + f"; {n_random} random histories of 1..12 operations on sources of length 0..8 (model and oracle). "
        "Non-trivial = non-empty source and at least two operations (an observation made after another one); distinct by (source, history).")
    sources = [s for n in range(4) for s in itertools.product(ALPHABET, repeat=n)]
    kinds = collections.Counter()
    cellhist = collections.Counter()
    lens = collections.Counter()
    total_obs = 0

    def absorb(results, items, keep_cases):
        nonlocal total_obs
        cases = []
        for (status, val), item in zip(results, items):
            if status != "ok":
                env.proof_broken("exhaustive lazy-list exploration did not finish", f"{item[:3]}: {status} {val}")
                continue
            cs, fails, kd, ch, n_obs, n_hist = val
            kinds.update(kd)
            cellhist.update(ch)
            lens[item[1]] += n_hist
            total_obs += n_obs
            for src, hist, what in fails:
                report_fail(env, src, hist, what)
            if keep_cases:
                cases += cs
        return cases

    timing = {}
    t0 = time.time()
    # (1) exhaustive, with Coq cases
    items = [(s, depth, f, True) for s in sources for f in range(len(ops_for(s)))]
    cases = absorb(V.pmap(explore, items, timeout=600), items, True)
    timing["exhaustive_impl_s"] = round(time.time() - t0, 1)
    t0 = time.time()
    env.count(sum(len(c[1]) for c in cases),
              (hash((c[0], c[1])) for c in cases if c[0] and len(c[1]) >= 2))
    correspond_grouped(env, "ex", cases)
    env.note("exhaustive_histories_vs_model", len(cases))
    if cases:
        mid = cases[len(cases) // 2]
        env.sample({"exhaustive": hist_json(mid[0], mid[1]), "outputs": [show_out(o) for o in mid[2]]})
    del cases
    timing["exhaustive_coq_s"] = round(time.time() - t0, 1)
    t0 = time.time()

    # (2) one level deeper against the plain-list oracle only
    if deep:
        items = [(s, deep, f, False) for s in sources for f in range(len(ops_for(s)))]
        before = total_obs
        absorb(V.pmap(explore, items, timeout=1200), items, False)
        env.count(total_obs - before)
        env.note("oracle_only_histories", lens[deep])

    timing["oracle_only_s"] = round(time.time() - t0, 1)
    t0 = time.time()
    # (3) random long histories
    ritems = random_histories(env, n_random)
    res = V.pmap(run_random, ritems, timeout=20)
    rcases = []
    for (status, val), (src, hist) in zip(res, ritems):
        if status != "ok":
            env.proof_broken("random lazy-list history did not finish", f"{hist_json(src, hist)}: {status} {val}")
            continue
        outs, fail = val
        rcases.append((src, hist, outs))
        lens[len(hist)] += 1
        cellhist[1 + sum(1 for _, op in hist if op[0] == "copy")] += 1
        for _, op in hist:
            kinds[kind_of(op)] += 1
        if fail is not None:
            report_fail(env, src, hist[:fail[0] + 1], fail[1])
    env.count(sum(len(c[1]) for c in rcases), (hash((c[0], c[1])) for c in rcases if c[0] and len(c[1]) >= 2))
    correspond(env, "rnd", rcases)
    for c in rcases[:3]:
        env.sample({"random": hist_json(c[0], c[1]), "outputs": [show_out(o) for o in c[2]]})
    env.sample({"obligation": "C13 : forall src ops, Forall op_ok ops -> masked outputs of run (init src) ops = map (spec . src) ops (induction, no bound)"})

    timing["random_s"] = round(time.time() - t0, 1)
    env.note("phase_seconds", timing)
    env.note("sources_exhaustive", len(sources))
    env.note("operations_per_source", {len(s): len(ops_for(s)) for s in [(), (0,), (0, 1), (0, 1, 2)]})
    env.note("op_kind_distribution", dict(sorted(kinds.items())))
    env.note("history_length_distribution", {str(k): v for k, v in sorted(lens.items())})
    env.note("cells_per_history_distribution", {str(k): v for k, v in sorted(cellhist.items())})
    env.note("random_histories", len(rcases))
    env.note("random_source_lengths", dict(sorted(collections.Counter(len(c[0]) for c in rcases).items())))
    slice_grid_oracle(env)
    print_oracle(env)
    rich_oracle(env)
    env.assume("printing (LazyList.output) is outside the Coq model, whose cells hold integers: the oracle alone compares the printed text of a "
               "lazy list of ints / strings / nested lists after observations with the printed text of the plain list")
    env.assume("sources are finite sequences of Python ints (vyxalify is the identity on them); LazyList(list) so raw_object is a list iterator")
    env.assume("lazy results (open slices, reversed, iter) are forced at the moment they are returned; an iterator held across later "
               "observations is covered by deep_copy, which is exactly such an iterator (itertools.tee over __iter__)")
    env.assume("slice step 0 is outside the property: a plain list raises ValueError, LazyList reads `step or 1` (op_ok in the model)")
    env.assume("next(L) is exercised as a perturbation of the cache; its value is compared with the model (next_value), not with the plain list")
    env.assume("CPython generator / itertools.tee / list-iterator semantics as described in the header of coq/Model/LazyList.v "
               "(checked by the correspondence, not proved)")


def search_without_tables(env):
    # this property does not use the translator's tables
    run(env)
