"""C15 — compression and base-conversion codecs round-trip.

Deciding method: theorems in coq/Properties/C15.v about the executable model
coq/Model/Codec.v (helpers.py from/to_base_*, uncompress_*, elements.py to_base /
from_base / the three compression elements, dictionary.word_index), over the alphabets
regenerated from vyxal/encoding.py.  This file ties the model to the implementation
(every comparison is evaluated inside Coq on the implementation's own answers) and states
the property directly on the implementation to search for failing inputs: the compressed
text is RUN as a Vyxal program and the value it pushes is compared with the original.

"Never longer than the plain literal" (element øD) is read as
    len(øD(s)) <= len("`" + s + "`")
counted in characters, every character of øD(s) being a code-page character, i.e. the
same inequality in bytes of the Vyxal encoding."""
from __future__ import annotations

import contextlib
import io
import itertools
import sys
import time

from vlib import common as V

LOWER = " abcdefghijklmnopqrstuvwxyz"
ASCII_OK = "".join(chr(c) for c in range(32, 127) if chr(c) not in "\\`")


# ----------------------------------------------------------------------------
# running a program and observing the value it pushes
# ----------------------------------------------------------------------------

def run_program(prog, inputs=(), flags=""):
    """Run program text; returns (originally_empty, rest_of_stack, top_value).
    execute_vyxal pops the top of the stack into its local `output`; its locals are
    captured on return with sys.setprofile (no change to the implementation)."""
    import vyxal.main as M
    cap = {}
    code = M.execute_vyxal.__code__

    def prof(frame, event, arg):
        if event == "return" and frame.f_code is code:
            loc = frame.f_locals
            cap["stack"] = loc.get("stack")
            cap["output"] = loc.get("output")
            cap["empty"] = loc.get("originally_empty")
            cap["seen"] = "output" in loc

    out = io.StringIO()
    sys.setprofile(prof)
    try:
        with contextlib.redirect_stdout(out):
            M.execute_vyxal(prog, flags + "e", list(inputs))
    finally:
        sys.setprofile(None)
    if not cap.get("seen"):
        raise RuntimeError("execute_vyxal returned without an output")
    return cap["empty"], cap["stack"], cap["output"]


def canon_val(v):
    import sympy
    from vyxal.LazyList import LazyList
    if isinstance(v, bool):
        return ["bool", v]
    if isinstance(v, (int, sympy.Integer)):
        return ["int", int(v)]
    if isinstance(v, sympy.Rational):
        return ["rat", int(v.p), int(v.q)]
    if isinstance(v, str):
        return ["str", v]
    if isinstance(v, (list, LazyList)):
        return ["list", [canon_val(x) for x in v]]
    return ["other", type(v).__name__, repr(v)[:80]]


def pushed(prog):
    """canonical value pushed by a program that must leave exactly one value; or an
    error description ["error", stage-less message]"""
    try:
        empty, rest, top = run_program(prog)
    except V.Timeout:
        raise
    except BaseException as e:  # noqa: BLE001
        return ["error", type(e).__name__ + ": " + str(e)[:120]]
    if empty:
        return ["error", "nothing pushed"]
    if rest:
        return ["error", "more than one value pushed", [canon_val(x) for x in rest][:4], canon_val(top)]
    return canon_val(top)


# ----------------------------------------------------------------------------
# oracle workers (module level: they run in forked processes)
# ----------------------------------------------------------------------------

def apply_element(key, args):
    """Execute the table entry of element `key` (its transpiled template, exactly what a
    program containing the element runs) on a stack holding `args`; returns the canonical
    top of stack.  The original value is handed over as a value, not spelled as a literal,
    so that the literal syntax (properties C03/C05) is not part of this measurement."""
    import vyxal.main as M
    from vyxal import elements as E
    from vyxal.context import Context
    try:
        ctx = Context()
        stack = list(args)
        ctx.stacks.append(stack)
        g = dict(vars(M))
        g.update(stack=stack, ctx=ctx)
        exec(E.elements[key][0], g)
    except V.Timeout:
        raise
    except BaseException as e:  # noqa: BLE001
        return ["error", type(e).__name__ + ": " + str(e)[:120]]
    if len(stack) != 1:
        return ["error", f"{len(stack)} values on the stack"]
    return canon_val(stack[0])


def w_int(n):
    """n -> øC -> run the text -> n.  Returns text and the value pushed."""
    import sympy
    t = apply_element("øC", [sympy.Integer(n)])
    if t[0] != "str":
        return {"stage": "compress", "got": t}
    return {"text": t[1], "back": pushed(t[1])}


def w_str(s):
    t = apply_element("øc", [s])
    if t[0] != "str":
        return {"stage": "compress", "got": t}
    return {"text": t[1], "back": pushed(t[1])}


# every dictionary-compression element of the table the check covers (Vyxal 2 has one)
DICT_ELEMENTS = ("øD",)


def w_dict(s, key="øD"):
    plain = pushed("`" + s + "`")
    t = apply_element(key, [s])
    if t[0] != "str":
        return {"stage": "compress", "got": t, "plain": plain}
    return {"text": t[1], "back": pushed(t[1]), "plain": plain}


def w_base(item):
    """elements τ then β, and the helpers directly."""
    import sympy
    n, b = item
    from vyxal import helpers as H
    ds = H.to_base_digits(n, b)
    hback = H.from_base_digits(ds, b)
    r = {"h_digits": [int(d) for d in ds], "h_back": int(hback)}
    t = apply_element("τ", [sympy.Integer(n), sympy.Integer(b)])
    r["digits"] = t
    if t[0] == "list" and all(d[0] == "int" for d in t[1]) and t[1]:
        r["back"] = apply_element("β", [[sympy.Integer(d[1]) for d in t[1]], sympy.Integer(b)])
    return r


def w_dict_item(item):
    return w_dict(item[1], item[0])


def w_alpha(item):
    """helpers.to_base_alphabet / from_base_alphabet on (n, alphabet)"""
    n, a = item
    from vyxal import helpers as H
    s = H.to_base_alphabet(n, a)
    return s, int(H.from_base_alphabet(s, a))


# ----------------------------------------------------------------------------
# input generation
# ----------------------------------------------------------------------------

def power_neighbours(rng, bases, limit, per_base):
    out = []
    for b in bases:
        ks = []
        k = 1
        while b ** k <= limit:
            ks.append(k)
            k += 1
        pick = ks if per_base is None or len(ks) <= per_base else sorted(set(ks[:3] + [ks[-1]] + rng.sample(ks, per_base - 4)))
        for k in pick:
            for n in (b ** k - 1, b ** k, b ** k + 1):
                out.append((n, b))
    return out


def huge_ints(rng, count):
    out = []
    for b in (255, 256, 10, 2, 27, 160):
        k = 1
        while b ** k < 10 ** 120:
            if b == 255 or rng.random() < 0.25:
                out += [b ** k - 1, b ** k, b ** k + 1]
            k += 1
    for _ in range(count):
        digits = rng.randint(4, 120)
        out.append(rng.randrange(10 ** (digits - 1), 10 ** digits))
    return sorted({n for n in out if 1 <= n <= 10 ** 120})


def lower_strings(rng, maxlen, n_random):
    out = []
    for ln in range(1, maxlen + 1):
        for tup in itertools.product(LOWER, repeat=ln):
            if tup[0] != " ":
                out.append("".join(tup))
    for _ in range(n_random):
        ln = rng.randint(4, 80)
        s = rng.choice(LOWER[1:]) + "".join(rng.choice(LOWER) for _ in range(ln - 1))
        out.append(s)
    return out


def dict_strings(rng, words, count):
    out = ["", "a", "the", "Hello, World!", "the the", "thethe", "a the", " the ", "withdrawal symptoms"]
    short = [w for w in words if len(w) <= 4]
    for _ in range(count):
        parts = []
        for _ in range(rng.randint(1, 8)):
            r = rng.random()
            if r < 0.45:
                parts.append(rng.choice(words))
            elif r < 0.6:
                parts.append(rng.choice(short))
            elif r < 0.8:
                parts.append("".join(rng.choice(ASCII_OK) for _ in range(rng.randint(1, 6))))
            else:
                parts.append(rng.choice([" ", "  ", ", ", "-", "'s ", "ing", "S", "0"]))
            if rng.random() < 0.5:
                parts.append(" ")
        s = "".join(parts)[:80]
        if rng.random() < 0.15 and s:
            s = s.capitalize()
        out.append(s)
    return out


# ADDED FAMILY (dictionary word-length classes).  The random mixes above draw words uniformly
# from the dictionary, so a word LENGTH that only a handful of the ~23 000 words have (the
# longest ones, and the lengths just below them) is practically never part of a text, although
# the dictionary DP of the compression element indexes its table by exactly that length
# (window ind-max_word_len..ind, prefix DP[ind-len]).  The sweep below is stratified by word
# length instead, uniformly for whatever lengths the dictionary of the tree under test has:
#   * every dictionary word alone (all length classes, exhaustive);
#   * per length class a set of "base" words - ALL words of a class with at most `rare_max`
#     words, `per_class` rng-chosen ones of a larger class - each put into every context of a
#     fixed context family (after/before fillers shorter and longer than max_word_len, doubled,
#     next to other words, one character short / long, first letter's case flipped);
#   * texts of 2..6 words where first the length class is chosen uniformly and then the word,
#     so that a text mixes rare and common lengths with equal weight.
# Nothing here names a word, a length or an element: the classes come from the dictionary.
def length_classes(words):
    by_len = {}
    for w in words:
        by_len.setdefault(len(w), []).append(w)
    return dict(sorted(by_len.items()))


def word_contexts(rng, w, other, maxw):
    """the context family for one base word; `other()` draws a class-stratified word"""
    letters = LOWER[1:]
    junk = "0123456789#%&*+=@^_~|"
    long_junk = "".join(rng.choice(junk) for _ in range(maxw + 1 + rng.randint(0, 3)))
    fillers = [" ", rng.choice(letters), rng.choice(junk) + rng.choice(junk), ", ", long_junk,
               "".join(rng.choice(letters) for _ in range(maxw - 1)),
               "".join(rng.choice(letters) for _ in range(maxw))]
    out = [w]
    for f in fillers:
        out += [f + w, w + f, f + w + f]
    out += [w + w, w + " " + w, w + w + w]
    a, b = other(), other()
    out += [a + w, w + a, a + " " + w, w + " " + a, a + w + b, a + " " + w + " " + b, a + ", " + w + ". " + b]
    out += [w[:-1], w[1:], w + rng.choice(letters), rng.choice(letters) + w, w[:-1] + w, w + w[1:],
            w[:1].swapcase() + w[1:], w.upper() if w != w.upper() else w.lower()]
    return out


def length_class_sweep(rng, words, per_class, rare_max, n_mixed, maxw):
    """-> (texts, is_rare flags, info)"""
    classes = length_classes(words)
    lens = list(classes)

    def other():
        return rng.choice(classes[rng.choice(lens)])

    texts, rare = [], []
    seen = set()

    def add(t, r):
        if t not in seen and all(c in ASCII_OK for c in t):
            seen.add(t)
            texts.append(t)
            rare.append(r)

    info = {}
    for ln, ws in classes.items():
        is_rare = len(ws) <= rare_max
        base = list(ws) if is_rare else rng.sample(ws, per_class)
        info[str(ln)] = {"words": len(ws), "base_words_in_every_context": len(base), "exhaustive": is_rare}
        for w in base:
            for t in word_contexts(rng, w, other, maxw):
                add(t, is_rare)
    n_ctx = len(texts)
    for _ in range(n_mixed):
        parts = []
        for _ in range(rng.randint(2, 6)):
            parts.append(other())
            parts.append(rng.choice(["", " ", " ", ", ", "-", "'s ", "0"]))
        add("".join(parts[:-1] if rng.random() < 0.7 else parts), False)
    n_mix = len(texts) - n_ctx
    for w in words:
        add(w, False)
    return texts, rare, {"length_classes": info, "context_texts": n_ctx, "class_stratified_multi_word_texts": n_mix,
                         "single_words(every dictionary word)": len(texts) - n_ctx - n_mix,
                         "rare_class_threshold": rare_max, "max_text_len": max(map(len, texts))}


# ----------------------------------------------------------------------------
# Coq side of the correspondence
# ----------------------------------------------------------------------------

PREAMBLE = """From Coq Require Import List NArith ZArith Bool.
From Vy Require Import Model.Base Model.Lexer Model.Codec Gen.Codepage.
Import ListNotations.
Open Scope Z_scope.
Inductive alpha := ANum | AStr | A27 | AComp | ACp | ACustom (a : str).
Definition alpha_of (x : alpha) : str :=
  match x with ANum => codepage_number_compress | AStr => codepage_string_compress
             | A27 => base_27_alphabet | AComp => compression | ACp => codepage | ACustom a => a end.
Fixpoint zl_eqb (a b : list Z) : bool :=
  match a, b with [], [] => true | x :: a', y :: b' => Z.eqb x y && zl_eqb a' b' | _, _ => false end.
Definition ozl_eqb (a : option (list Z)) (b : list Z) : bool := match a with Some x => zl_eqb x b | None => false end.
Definition ostr_eqb (a b : option str) : bool :=
  match a, b with Some x, Some y => str_eqb x y | None, None => true | _, _ => false end.
(* a key the implementation did not supply yields the word [0]: certain mismatch *)
Fixpoint assocZ (t : list (Z * option str)) (i : Z) : option str :=
  match t with [] => Some [0%N] | (k, v) :: r => if Z.eqb k i then v else assocZ r i end.
Fixpoint assocS (t : list (str * Z)) (w : str) : option Z :=
  match t with [] => None | (k, v) :: r => if str_eqb k w then Some v else assocS r w end.
Inductive ccase :=
| CDigits (n b : Z) (ds : list Z) (back : Z)
| CFromDigits (ds : list Z) (b v : Z)
| CToAlpha (n : Z) (a : alpha) (s : option str)
| CFromAlpha (s : str) (a : alpha) (v : Z)
| CUnNum (s : str) (v : Z)
| CUnStr (s : str) (r : option str)
| CToBaseE (e : nat) (n b : Z) (ds : list Z)
| CCompNum (e : nat) (n : Z) (text : str)
| CCompStr (e : nat) (s text : str)
| CDict (src : str) (ct smt : list (Z * option str)) (r : str)
| COpt (s : str) (lk : list (str * Z)) (mwl : nat) (text : str).
Definition check_case (c : ccase) : bool :=
  match c with
  | CDigits n b ds back => ozl_eqb (to_base_digits n b) ds && Z.eqb (from_base_digits ds b) back
  | CFromDigits ds b v => Z.eqb (from_base_digits ds b) v
  | CToAlpha n a s => ostr_eqb (to_base_alphabet n (alpha_of a)) s
  | CFromAlpha s a v => Z.eqb (from_base_alphabet s (alpha_of a)) v
  | CUnNum s v => Z.eqb (uncompress_num s) v
  | CUnStr s r => ostr_eqb (uncompress_str s) r
  | CToBaseE e n b ds => zl_eqb (to_base_e e n b) ds && Z.eqb (from_base_num ds b) (from_base_digits ds b)
  | CCompNum e n text => ostr_eqb (compress_num e n) (Some text)
  | CCompStr e s text => ostr_eqb (compress_str e s) (Some text)
  | CDict src ct smt r => str_eqb (uncompress_dict (assocZ ct) (assocZ smt) src) r
  | COpt s lk mwl text => str_eqb (optimal_compress (assocS lk) mwl s) text
  end.
"""


def czl(xs):
    return V.clist((V.cZ(int(x)) for x in xs), "Z")


def costr(s):
    return "None" if s is None else f"(Some {V.cstr(s)})"


class Alphabets:
    def __init__(self, enc):
        self.named = {"ANum": enc.codepage_number_compress, "AStr": enc.codepage_string_compress,
                      "A27": enc.base_27_alphabet, "AComp": enc.compression, "ACp": enc.codepage}

    def coq(self, a):
        return a if a in self.named else f"(ACustom {V.cstr(a)})"

    def py(self, a):
        return self.named.get(a, a)


def correspondence(env, extra_cases):
    """Model vs implementation.  `extra_cases` are (coq_text, description) pairs built
    from the oracle runs (element τ and the compression elements with the exponent the
    implementation actually used)."""
    V.import_repo()
    from vyxal import dictionary as D
    from vyxal import encoding as ENC
    from vyxal import helpers as H
    rng = env.rng
    al = Alphabets(ENC)
    cases = []  # (coq_text, description)

    def add(txt, desc):
        cases.append((txt, desc))

    def guarded(fn, *a):
        try:
            return fn(*a)
        except (IndexError, ValueError, ZeroDivisionError, TypeError):
            return None

    # to_base_digits / from_base_digits: small exhaustive + powers of the base
    pairs = [(n, b) for b in range(2, env.budget(13, 21)) for n in range(0, env.budget(200, 600))]
    pairs += power_neighbours(rng, sorted(set([2, 3, 7, 10, 16, 27, 160, 255, 256, 300] + [rng.randint(2, 300) for _ in range(env.budget(10, 60))])),
                              10 ** 120, env.budget(8, 30))
    pairs += [(-n, b) for n in (1, 2, 7, 300) for b in (2, 10, 255)]
    for n, b in pairs:
        ds = H.to_base_digits(n, b)
        add(f"CDigits {V.cZ(n)} {V.cZ(b)} {czl(ds)} {V.cZ(int(H.from_base_digits(ds, b)))}", {"fn": "to_base_digits", "n": n, "b": b})
    for _ in range(env.budget(300, 2000)):
        b = rng.choice([rng.randint(-5, 300), rng.randint(2, 12)])
        ds = [rng.randint(-3, max(3, abs(b) + 2)) for _ in range(rng.randint(0, 12))]
        add(f"CFromDigits {czl(ds)} {V.cZ(b)} {V.cZ(int(H.from_base_digits(ds, b)))}", {"fn": "from_base_digits", "digits": ds, "b": b})
    # alphabets
    customs = ["01", "ab", "abc", "aab", "0123456789", "zyx wv", "λƛ¬", LOWER, "abca"]
    for _ in range(env.budget(10, 40)):
        customs.append("".join(rng.choice(ENC.codepage) for _ in range(rng.randint(2, 9))))
    names = list(al.named) + customs
    for a in names:
        pa = al.py(a)
        ns = list(range(0, env.budget(40, 120))) + [len(pa) ** k + d for k in (1, 2, 3, 7, 20, 49) for d in (-1, 0, 1)]
        ns += [rng.randrange(10 ** rng.randint(3, 120)) for _ in range(env.budget(6, 30))] + [-1, -2, -len(pa), -len(pa) - 1]
        for n in ns:
            s = guarded(H.to_base_alphabet, n, pa)
            add(f"CToAlpha {V.cZ(n)} {al.coq(a)} {costr(s)}", {"fn": "to_base_alphabet", "n": n, "alphabet": a})
        pool = pa + "«»`\\ aZ"
        for _ in range(env.budget(25, 120)):
            s = "".join(rng.choice(pool if rng.random() < 0.3 else pa) for _ in range(rng.randint(0, 50)))
            add(f"CFromAlpha {V.cstr(s)} {al.coq(a)} {V.cZ(int(H.from_base_alphabet(s, pa)))}", {"fn": "from_base_alphabet", "s": s, "alphabet": a})
    # uncompress_num / uncompress_str on arbitrary code-page text
    for _ in range(env.budget(400, 3000)):
        s = "".join(rng.choice(ENC.codepage) for _ in range(rng.randint(0, 50)))
        add(f"CUnNum {V.cstr(s)} {V.cZ(int(H.uncompress_num(s)))}", {"fn": "uncompress_num", "s": s})
        add(f"CUnStr {V.cstr(s)} {costr(guarded(H.uncompress_str, s))}", {"fn": "uncompress_str", "s": s})
    # uncompress_dict on arbitrary mixtures; the dictionary entries the source can touch are supplied
    comp = ENC.compression
    nsmall, ncont = len(D.small_dictionary), len(D.contents)
    srcs = ["", "λ", "λλ", "λλλ", "\\", "\\λ", "λ\\λ", "λ a", "λ  a", "a\\", "\\\\", "λ\\a", "ƛ\\ƛƛ", "Ǐǐ", "ǐǐǐǐ", "‟‟"]
    for _ in range(env.budget(500, 4000)):
        m = rng.random()
        pool = (comp[:12] if m < 0.3 else comp) + (" ab\\" if m < 0.8 else ASCII_OK + "\\\\\n`")
        srcs.append("".join(rng.choice(comp if rng.random() < 0.45 else pool) for _ in range(rng.randint(0, 24))))
    for src in srcs:
        ct, smt, seen = [], [], set()
        for i, c in enumerate(src):
            if c in comp and ("s", c) not in seen:
                seen.add(("s", c))
                p = comp.find(c)
                smt.append(f"({V.cZ(p)}, {costr(D.small_dictionary[p] if p < nsmall else None)})")
            if i + 1 < len(src) and c in comp and src[i + 1] in comp and ("p", src[i:i + 2]) not in seen:
                seen.add(("p", src[i:i + 2]))
                p = comp.find(c) * len(comp) + comp.find(src[i + 1])
                ct.append(f"({V.cZ(p)}, {costr(D.contents[p] if p < ncont else None)})")
        add(f"CDict {V.cstr(src)} {V.clist(ct, '(Z * option str)')} {V.clist(smt, '(Z * option str)')} {V.cstr(H.uncompress_dict(src))}",
            {"fn": "uncompress_dict", "source": src})
    base = len(cases)
    cases.extend(extra_cases)
    t0 = time.time()
    ok, bad, logs = env.coq_mismatches("codec", PREAMBLE, lambda lo, hi: "[" + ";\n".join(c for c, _ in cases[lo:hi]) + "]",
                                       "check_case", len(cases), shard=700)
    V.log(f"[C15] correspondence: {len(cases)} cases in {time.time() - t0:.1f}s")
    if not ok:
        env.proof_broken("codec correspondence cases failed to evaluate in Coq", logs)
    for i in bad:
        env.disagree("codec", cases[i][1], "(model disagrees)", cases[i][0][:300])
    env.count(len(cases), (V.canon(d) for _, d in cases))
    dist = {}
    for _, d in cases:
        dist[d["fn"]] = dist.get(d["fn"], 0) + 1
    env.note("correspondence_cases_by_function", dist)
    env.note("correspondence_cases_from_oracle_runs", len(cases) - base)
    # the one hypothesis of the dictionary theorem, on the implementation's dictionary
    viol = [w for w, i in D.lookup.items() if not (0 <= i < len(comp) ** 2 and D.contents[i] == w)]
    if viol or len(D.contents) > len(comp) ** 2:
        env.proof_broken("dictionary hypothesis lookup_sound does not hold for vyxal.dictionary",
                         f"{len(viol)} words, e.g. {viol[:3]!r}; len(contents)={len(D.contents)}, |compression|^2={len(comp) ** 2}")
    env.note("dictionary", {"contents": len(D.contents), "lookup": len(D.lookup), "small_dictionary": nsmall,
                            "max_word_len": D.max_word_len, "compression_squared": len(comp) ** 2})


# ----------------------------------------------------------------------------
# the oracle: the property stated on the implementation
# ----------------------------------------------------------------------------

def oracle(env):
    V.import_repo()
    import vyxal.main  # noqa: F401  (imported before forking)
    from vyxal import dictionary as D
    from vyxal import encoding as ENC
    from vyxal import helpers as H
    rng = env.rng
    extra = []
    notes = {}

    def bad_status(kind, inp, st, val):
        env.fail({"kind": kind, **inp}, f"worker {st}: {val}", cls=f"{kind}-{st}")

    # ---- integers through øC ---------------------------------------------
    top = env.budget(3000, 100000)
    ints = list(range(1, top + 1)) + [n for n in huge_ints(rng, env.budget(150, 1500)) if n > top]
    t0 = time.time()
    res = V.pmap(w_int, ints, timeout=60)
    V.log(f"[C15] oracle integers: {len(ints)} in {time.time() - t0:.1f}s")
    over = under = 0
    heavy = []  # evaluating the model on a 120-digit number costs ~0.15 s inside Coq: sampled
    stride = max(1, len(ints) // 30000)
    for idx, (n, (st, r)) in enumerate(zip(ints, res)):
        if st != "ok":
            bad_status("int", {"n": n}, st, r)
            continue
        if "stage" in r:
            env.fail({"kind": "int", "n": n}, f"øC does not produce text: {r['got']}", cls="int-compress-error")
            continue
        text = r["text"]
        if r["back"] != ["int", n]:
            env.fail({"kind": "int", "n": n, "text": text}, f"running the compressed literal pushes {r['back']!r}, not {n}", cls="int-roundtrip")
        if not (len(text) >= 3 and text[0] == "»" and text[-1] == "»" and "»" not in text[1:-1]):
            env.fail({"kind": "int", "n": n, "text": text}, "compressed number is not »payload» with a delimiter-free payload", cls="int-shape")
            continue
        e = len(text) - 3
        if 255 ** (e + 1) <= n:
            under += 1
        if 255 ** e > n:
            over += 1
        case = (f"CCompNum {e}%nat {V.cZ(n)} {V.cstr(text)}", {"fn": "compress_num", "n": n})
        if n > top:
            heavy.append(case)
        elif idx % stride == 0:
            extra.append(case)
    extra += rng.sample(heavy, min(len(heavy), env.budget(150, 600)))
    env.count(len(ints), (f"int:{n}" for n in ints))
    notes["integers"] = {"exhaustive_to": top, "sampled_beyond": len(ints) - top, "max": max(ints),
                         "exponent_under_estimates(255^(e+1)<=n)": under, "exponent_over_estimates(leading zero digit)": over}
    env.sample({"int": ints[len(ints) // 2], "compressed": res[len(ints) // 2][1].get("text") if res[len(ints) // 2][0] == "ok" else None})

    # ---- strings over [a-z ] through øc ------------------------------------
    strs = lower_strings(rng, env.budget(2, 3), env.budget(300, 3000))
    t0 = time.time()
    res = V.pmap(w_str, [""] + strs, timeout=60)
    V.log(f"[C15] oracle strings: {len(strs)} in {time.time() - t0:.1f}s")
    st0, r0 = res[0]
    if not (st0 == "ok" and r0.get("back") == ["str", ""]):
        env.fail({"kind": "lower", "s": ""}, f"øc on the empty string: {r0 if st0 == 'ok' else st0}", cls="compress-empty-string")
    sunder = 0
    heavy = []
    for s, (st, r) in zip(strs, res[1:]):
        if st != "ok":
            bad_status("lower", {"s": s}, st, r)
            continue
        if "stage" in r:
            env.fail({"kind": "lower", "s": s}, f"øc does not produce text: {r['got']}", cls="lower-compress-error")
            continue
        text = r["text"]
        if r["back"] != ["str", s]:
            env.fail({"kind": "lower", "s": s, "text": text}, f"running the compressed literal pushes {r['back']!r}", cls="lower-roundtrip")
        if not (len(text) >= 3 and text[0] == "«" and text[-1] == "«" and "«" not in text[1:-1]):
            env.fail({"kind": "lower", "s": s, "text": text}, "compressed string is not «payload« with a delimiter-free payload", cls="lower-shape")
            continue
        e = len(text) - 3
        if 255 ** (e + 1) <= H.from_base_alphabet(s, LOWER):
            sunder += 1
        case = (f"CCompStr {e}%nat {V.cstr(s)} {V.cstr(text)}", {"fn": "compress_str", "s": s})
        if len(s) > 3:
            heavy.append(case)
        else:
            extra.append(case)
    extra += rng.sample(heavy, min(len(heavy), env.budget(100, 400)))
    env.count(len(strs) + 1, (f"lower:{s}" for s in strs))
    notes["lowercase_strings"] = {"exhaustive_len": env.budget(2, 3), "total": len(strs), "max_len": max(map(len, strs)),
                                  "exponent_under_estimates": sunder}
    env.sample({"lower": strs[-1], "compressed": res[-1][1].get("text") if res[-1][0] == "ok" else None})

    # ---- every dictionary word: its code is two compression characters that decode to the word ----
    # (exhaustive: a slip at one index - the first two-digit index, the last one - hits one word in 23 000)
    compset = set(ENC.compression)
    nwords = 0
    for w in D.lookup:
        nwords += 1
        try:
            code = D.word_index(w)
            back = H.uncompress_dict(code) if isinstance(code, str) else None
        except Exception as e:  # noqa: BLE001
            code, back = None, f"{type(e).__name__}: {e}"
        if not (isinstance(code, str) and len(code) == 2 and set(code) <= compset and back == w):
            env.fail({"kind": "dict-word", "word": w, "code": code},
                     f"word_index gives {code!r}, which decodes to {back!r}", cls="dict-word-code")
    env.count(nwords, (f"word:{w}" for w in D.lookup))
    notes["dictionary_words_swept"] = nwords

    # ---- printable ASCII / dictionary words through øD ----------------------
    words = [w for w in D.contents if w and all(c in ASCII_OK for c in w)]
    dstrs = dict_strings(rng, words, env.budget(600, 6000))
    dstrs += ["".join(t) for t in itertools.product(ASCII_OK, repeat=1)]
    n_mix = len(dstrs)
    # the word-length-class sweep (see length_class_sweep): the oracle runs all of it; the model is
    # evaluated inside Coq on every text built on a word of a rare length class (capped) and a sample of the rest
    sweep, rare, sweep_info = length_class_sweep(rng, words, env.budget(30, 250), env.budget(100, 250),
                                                 env.budget(1500, 12000), D.max_word_len)
    dstrs += sweep
    rare_idx = [n_mix + k for k, r in enumerate(rare) if r]
    rest_idx = [n_mix + k for k, r in enumerate(rare) if not r]
    to_coq = set(range(n_mix))
    to_coq.update(rng.sample(rare_idx, min(len(rare_idx), env.budget(800, 4000))))
    to_coq.update(rng.sample(rest_idx, min(len(rest_idx), env.budget(400, 3000))))
    saved = shorter = 0
    cpset = set(ENC.codepage)
    for key in DICT_ELEMENTS:
        t0 = time.time()
        res = V.pmap(w_dict_item, [(key, s) for s in dstrs], timeout=60)
        V.log(f"[C15] oracle dictionary {key}: {len(dstrs)} ({len(sweep)} from the length-class sweep) in {time.time() - t0:.1f}s")
        for idx, (s, (st, r)) in enumerate(zip(dstrs, res)):
            inp = {"kind": "dict", "s": s} if key == "øD" else {"kind": "dict", "s": s, "element": key}
            if st != "ok":
                bad_status("dict", inp, st, r)
                continue
            if r["plain"] != ["str", s]:
                env.fail(inp, f"the plain literal `s` pushes {r['plain']!r}", cls="dict-plain-literal")
            if "stage" in r:
                env.fail(inp, f"{key} does not produce text: {r['got']}", cls="dict-compress-error")
                continue
            text = r["text"]
            if r["back"] != ["str", s]:
                env.fail({**inp, "text": text}, f"running the compressed literal pushes {r['back']!r}", cls="dict-roundtrip")
            if len(text) > len(s) + 2 or not set(text) <= cpset:
                env.fail({**inp, "text": text},
                         f"compressed literal has {len(text)} characters (all in the code page: {set(text) <= cpset}), the plain literal {len(s) + 2}", cls="dict-longer")
            if len(text) < len(s) + 2:
                shorter += 1
                saved += len(s) + 2 - len(text)
            if key == "øD" and idx in to_coq:
                lk = [f"({V.cstr(s[i:j])}, {V.cZ(D.lookup[s[i:j]])})" for i in range(len(s)) for j in range(i + 1, len(s) + 1) if s[i:j] in D.lookup]
                extra.append((f"COpt {V.cstr(s)} {V.clist(lk, '(str * Z)')} {D.max_word_len}%nat {V.cstr(text)}", {"fn": "optimal_compress", "s": s}))
    env.count(len(dstrs), (f"dict:{s}" for s in dstrs))
    notes["dictionary_strings"] = {"total": len(dstrs), "random_mixes_and_single_characters": n_mix, "elements": list(DICT_ELEMENTS),
                                   "strictly_shorter_than_plain": shorter, "characters_saved": saved,
                                   "ascii_dictionary_words_available": len(words), "evaluated_in_coq": len(to_coq)}
    notes["dictionary_length_class_sweep"] = sweep_info
    k = next((i for i, (s, (st, r)) in enumerate(zip(dstrs, res)) if st == "ok" and "text" in r and len(r["text"]) < len(s)), 0)
    env.sample({"dict": dstrs[k], "compressed": res[k][1].get("text") if res[k][0] == "ok" else None})

    # ---- bases 2..300: τ then β, and the helpers ----------------------------
    bases = list(range(2, 301))
    items = [(n, b) for b in bases for n in ([0, 1, b - 1, b, b + 1] + [rng.randrange(b ** rng.randint(1, 6)) for _ in range(env.budget(2, 10))])]
    items += power_neighbours(rng, bases, 10 ** 120, env.budget(6, 24))
    items = sorted(set(items))
    t0 = time.time()
    res = V.pmap(w_base, items, timeout=60)
    V.log(f"[C15] oracle bases: {len(items)} in {time.time() - t0:.1f}s")
    bunder = bover = 0
    heavy = []
    stride = max(1, len(items) // 20000)
    for idx, ((n, b), (st, r)) in enumerate(zip(items, res)):
        inp = {"kind": "base", "n": n, "b": b}
        if st != "ok":
            bad_status("base", {"n": n, "b": b}, st, r)
            continue
        if r["h_back"] != n or not all(0 <= d < b for d in r["h_digits"]):
            env.fail(inp, f"helpers: to_base_digits gives {r['h_digits'][:8]}, from_base_digits gives {r['h_back']}", cls="base-helpers")
        t = r["digits"]
        if not (t[0] == "list" and t[1] and all(d[0] == "int" for d in t[1])):
            env.fail(inp, f"τ does not give a digit list: {t!r}"[:300], cls="to_base-zero" if n == 0 else "base-to_base-error")
            continue
        ds = [d[1] for d in t[1]]
        if not all(0 <= d < b for d in ds):
            env.fail(inp, f"τ gives a digit outside the base: {ds[:8]}", cls="base-digit-range")
        if r.get("back") != ["int", n]:
            env.fail(inp, f"τ then β gives {r.get('back')!r} (digits {ds[:8]}...)", cls="base-roundtrip")
        e = len(ds) - 1
        if b ** (e + 1) <= n:
            bunder += 1
        if e > 0 and b ** e > n:
            bover += 1
        case = (f"CToBaseE {e}%nat {V.cZ(n)} {V.cZ(b)} {czl(ds)}", {"fn": "to_base(elem)", "n": n, "b": b})
        if e > 16:
            heavy.append(case)  # the model recomputes b^i at every position like the code: cubic in e inside Coq
        elif idx % stride == 0:
            extra.append(case)
    extra += rng.sample(heavy, min(len(heavy), env.budget(150, 600)))
    env.count(len(items), (f"base:{b}:{n}" for n, b in items))
    notes["bases"] = {"bases": "2..300", "cases": len(items), "max_n": max(n for n, _ in items),
                      "exponent_under_estimates(b^(e+1)<=n)": bunder, "exponent_over_estimates": bover}
    env.sample({"base_case": items[len(items) // 3], "digits": res[len(items) // 3][1].get("h_digits") if res[len(items) // 3][0] == "ok" else None})

    # ---- alphabet versions, helpers directly --------------------------------
    alphas = [ENC.codepage_number_compress, ENC.codepage_string_compress, ENC.base_27_alphabet, ENC.compression, ENC.codepage, "01", "abc"]
    aitems = [(n, a) for a in alphas for n in list(range(0, 300)) + [len(a) ** k + d for k in range(1, 12) for d in (-1, 0, 1)]]
    for (n, a), (st, r) in zip(aitems, V.pmap(w_alpha, aitems, timeout=20)):
        if st != "ok" or r[1] != n or not all(c in a for c in r[0]):
            env.fail({"kind": "alphabet", "n": n, "alphabet": a[:12] + "…", "len": len(a)}, f"to_base_alphabet/from_base_alphabet: {r!r}"[:200], cls="alphabet-roundtrip")
    env.count(len(aitems))
    for name, a, d in (("codepage_number_compress", ENC.codepage_number_compress, "»"), ("codepage_string_compress", ENC.codepage_string_compress, "«")):
        if d in a or len(set(a)) != len(a):
            env.fail({"kind": "alphabet-delimiter", "alphabet": name}, f"{name} contains its delimiter {d!r} or a duplicate", cls="alphabet-delimiter")
    if set(ENC.compression) & set(ASCII_OK + "\\`"):
        env.fail({"kind": "alphabet-delimiter", "alphabet": "compression"}, "compression alphabet contains a printable ASCII character", cls="alphabet-compression")
    for k, v in notes.items():
        env.note(k, v)
    return extra


def run(env):
    env.rule = ("ORACLE (on the implementation, programs run with execute_vyxal, the pushed value read from its locals): "
                "n -> element øC (its table template executed on a stack holding n) -> run the produced text as a program -> n for every integer 1..N (N=3000 quick, 10^5 thorough) and integers sampled to 10^120 "
                "(all 255^k-1, 255^k, 255^k+1; a quarter of the powers of 256, 10, 2, 27, 160; random 4..120-digit numbers); "
                "s -> øc -> run -> s for every string of length 1..L over [a-z ] not starting with a space (L=2 quick, 3 thorough), random ones to length 80, and the empty string; "
                "s -> øD -> run -> s with len(text) <= len(s)+2 for random concatenations of dictionary words, ASCII chunks and separators (printable ASCII without backslash/back-quote, to length 80) and every single ASCII character; "
                "the same through a sweep stratified by dictionary word length: every dictionary word alone, every word of each rare length class (<= 100 words quick / 250 thorough) and 30 / 250 rng-chosen words of each common class "
                "in a fixed family of contexts (fillers shorter/longer than max_word_len before and after, doubled, beside other words, one character short/long, case flipped), and multi-word texts whose words are drawn class-first; "
                "elements τ then β (templates executed on a stack) for every base 2..300 with n in {0,1,b-1,b,b+1}, random n < b^6 and b^k-1,b^k,b^k+1 up to 10^120, digits inside the base; helpers' digit/alphabet round trips on the same inputs. "
                "CORRESPONDENCE (evaluated in Coq): model vs implementation for to_base_digits, from_base_digits, to_base_alphabet, from_base_alphabet, "
                "uncompress_num, uncompress_str, uncompress_dict, element to_base, øC, øc, øD. Non-trivial = every case (all change the value); distinct by canonical input.")
    extra = oracle(env)
    correspondence(env, extra)
    env.assume("the number of digits the elements τ / øC / øc produce comes from int(nsimplify(math.log(n, b))): float arithmetic outside the model; "
               "the theorems hold under b^(e+1) > n, which the check measures on every sample (see *_under_estimates in the coverage)")
    env.assume("the dictionary theorem is for any dictionary with a sound lookup (index < |compression|^2 and contents[index] == word); "
               "checked by enumeration on vyxal.dictionary on every run")
    env.assume("end-to-end evaluation of a literal relies on the parser treating literal payloads as data (property C03; repaired in /repo commit 673a938)")
    env.assume("CPython str/list indexing, str.find, divmod and int arithmetic behave as nth_error / first index / Z.div, Z.modulo / Z")


def search_without_tables(env):
    env.rule = "translator failed; oracle on the implementation only"
    try:
        oracle(env)
    except Exception as e:  # noqa: BLE001
        env.proof_broken("implementation does not run", repr(e))


def replay(rec):
    """Re-run the recorded failing input on the current tree."""
    V.import_repo()
    f = rec.get("failure", {})
    inp = f.get("input", {})
    kind = inp.get("kind")
    if kind == "int":
        print(inp, w_int(inp["n"]))
    elif kind == "lower":
        print(inp, w_str(inp["s"]))
    elif kind == "dict":
        print(inp, w_dict(inp["s"], inp.get("element", "øD")))
    elif kind == "base":
        print(inp, w_base((inp["n"], inp["b"])))
    else:
        import json
        print(json.dumps(rec, ensure_ascii=False, indent=1)[:4000])
    print("recorded:", f.get("what"))
    return 0
