"""C01 — structures execute as specified (transpiled program == reference semantics).

Deciding method: the theorem C01_compile_correct in coq/Properties/C01.v: for every program
tree of the core grammar (`core_ok`) the execution model of the EMITTED Python
(coq/Model/Machine.v, written beside Model/Transpile.tr line by line) and the documented
structure semantics (coq/Model/RefSem.v, no reference to emitted code, context / input scope
/ own stack as bracketing combinators) give the same outcome — stack, printed text,
variables, register, error, out-of-fuel — for every fuel, state, input list and flag set.
Ties, re-run against /repo on every check:
  (1) Machine vs the implementation: generated core programs x input lists x the nine flag
      sets; final stack, stdout, error class; `exec` is evaluated inside Coq;
  (2) the search oracle = the property as stated: RefSem (evaluated inside Coq) vs the real
      execute_vyxal on the same runs -> env.fail on a difference;
  (3) exact text of transpile() vs Model/Transpile.v on the same programs (vlib.transcorr);
  (4) proof obligation over the regenerated tables: the template text of every core element
      and modifier is the one the machine gives a meaning to (C01_templates).
"""
from __future__ import annotations

from vlib import common as V
from vlib import progs, transcorr

FLAGS = ["", "O", "o", "j", "s", "W", "H", "M", "m"]
FLAG_COQ = {"": "FlNone", "O": "FlO", "o": "Flo", "j": "Flj", "s": "Fls", "W": "FlW", "H": "FlH", "M": "FlM", "m": "Flm"}
FUEL = 60

PURE_ELEMENTS = list("+-*N›‹d¬=<>:D$_^!Ww\"JLhtfṘ∑n")
# the second table of the core (Values.elem_more): constants, whole-stack rotations, over, bifurcate, Python's and/or,
# comparisons, numeric monads, extremes, head/tail extraction, ranges, product, mirror, palindromise, prepend, any/all,
# not-one, all-equal, zip, uniquify, stringify
MORE_ELEMENTS = list("₀₁₄₆₇₈¤ð¶u„‟ȮḂ∧∨⟑≤≥≠⌐∷₂ȧ²%Gg∴∵ḣṫḢṪɾʀɽʁΠm∞paAċ≈zZUSżẏYysẋj")
PURE_ELEMENTS = PURE_ELEMENTS + MORE_ELEMENTS
EFFECT_ELEMENTS = list(",…£¥?")
CALL_ELEMENTS = list("MF†")
MOD1 = list("v&~ßƒɖ")
ELEMENT_SET = set(PURE_ELEMENTS + EFFECT_ELEMENTS + CALL_ELEMENTS + ["ṡ"])
MOD2 = list("₌₍")

PREAMBLE = ("From Coq Require Import List NArith ZArith Bool.\n"
            "From Vy Require Import Model.Base Model.Lexer Model.Parser Model.Values Model.Machine Model.RefSem.\n"
            "Import ListNotations.\nOpen Scope Z_scope.\n"
            "(* 10 * (machine vs observation) + (reference vs observation); 55 not in the core, 66 no parse *)\n"
            "Definition vy_case (c : list N * flag * list value * nat * list value * list N) : nat :=\n"
            "  let '(src, fl, ins, e, st, o) := c in\n"
            "  match parse_source src with\n"
            "  | Ok p => if core_program p\n"
            f"            then (10 * compare_run (run_machine fl {FUEL} ins p) e st o + compare_run (run_ref fl {FUEL} ins p) e st o)%nat\n"
            "            else 55%nat\n"
            "  | _ => 66%nat end.\n")


# ----------------------------------------------------------------------------------------------
# generator of core programs
# ----------------------------------------------------------------------------------------------
class CoreGen(progs.ProgGen):
    """Programs of the C01 core grammar.  `indef` = inside a Python def (lambda, function,
    list item, modifier operand), where the core has no assignments."""

    def __init__(self, rng, max_items=4):
        super().__init__(rng, elements=PURE_ELEMENTS, with_break=False, max_items=max_items)
        self.names = ["a", "b"]
        self.fnames = ["f", "g"]
        self.defined = set()
        self.fdefined = set()
        self.fn_locals = []      # named parameters readable right here (directly in a function body)
        self.exit_ctx = None     # where an X / x written here would belong: None | "for" | "while" | "lam"

    def num(self):
        r = self.rng
        return str(r.choice([0, 1, 2, 3, 4, 5, 7, 10, 12, 25]))

    def string(self):
        """a string literal of one of the kinds the core covers: `...`, two-character, character, compressed"""
        r = self.rng
        k = r.randrange(10)
        if k < 5:
            return "`" + r.choice(["ab", "a b", "", "0", "abcab", "Hello", "x", "12", "a-b", "el", "ab"]) + "`"
        if k < 7:
            return "‛" + r.choice(["ab", "a ", "0b", "Xy"])
        if k < 9:
            return "\\" + r.choice(["a", " ", "0", "Z", "-"])
        return "«" + r.choice(["ƛ", "a", "ab", "λ¬"]) + "«"

    def atom(self, indef, pure):
        r = self.rng
        x = r.random()
        if self.exit_ctx is not None and x < 0.07:
            return self.exit_piece()
        if x < 0.24:
            return self.num() + " "
        if x < 0.32:
            return self.string()
        if x < 0.74:
            return r.choice(PURE_ELEMENTS)
        if x < 0.82 and not pure:
            return r.choice(EFFECT_ELEMENTS)
        if x < 0.84:
            return r.choice(CALL_ELEMENTS)
        if x < 0.91 and not pure:
            if self.fn_locals and r.random() < 0.6:
                return "←" + r.choice(self.fn_locals) + " "
            known = sorted(self.defined)
            if known and r.random() < 0.9:
                return "←" + r.choice(known) + " "
            return "←" + r.choice(self.names) + " "
        if x < 0.96 and not pure:
            n = r.choice(self.names)
            self.defined.add(n)
            return "→" + n + " "
        if not pure:
            known = sorted(self.fdefined)
            if known and r.random() < 0.3:
                # the function as a VALUE (read by name like a variable), called with the call element / as a condition operand
                return "←" + r.choice(known) + " " + r.choice(["†", "†", ":††", "ß†"[:1] + "†"[:0], "$†"])
            if known and r.random() < 0.9:
                return "@" + r.choice(known) + ";"
            return "@" + r.choice(self.fnames) + ";"
        return r.choice(PURE_ELEMENTS)

    def seq(self, d, indef, pure, lo=0, ctx="same"):
        """ctx: the exit context of this statement list ("same" = inherited, as through an if)"""
        saved = self.exit_ctx
        if ctx != "same":
            self.exit_ctx = ctx
        try:
            out = ""
            for _ in range(self.rng.randrange(lo, self.max_items + 1)):
                piece = self.item(d, indef, pure)
                out += piece
                if piece and piece[0] in "v&~ßƒɖ₌₍⁽‡≬" or any(m in piece for m in "v&~ßƒɖ₌₍"):
                    # the parser gives everything after a modifier (through ifs) the modifier as parent
                    self.exit_ctx = None
            return out
        finally:
            self.exit_ctx = saved

    def exit_piece(self):
        """an early exit that the core covers at this place, or ''"""
        r = self.rng
        c = self.exit_ctx
        # incl. exits taken when the structure's own stack has just been emptied (`_X`: what the exit pops then
        # comes from the input scope that is current at that moment)
        if c == "for":
            return r.choice(["X", "x", "n2=[X]", "n3=[x]", "n2>[X]", ":[X]", "n1=[x]", "_X", "_x", "^_X"])
        if c == "while":
            return r.choice(["X", ":3=[X]", ":[|X]", "!4>[X]", "_X", "__X"])
        if c == "lam":
            return r.choice(["X", ":[X]", ":2<[X]", "n[X]", ":[|X]", "_X", "__X", "_:[X]", "n_[_X]", "$_X"])
        return ""

    def recursive_lambda(self, pure):
        """recursion with a base case, early return from nested ifs, x as the operand of a modifier"""
        r = self.rng
        n = r.choice(["3 ", "4 ", "5 ", "2 ", "n "])
        lam = r.choice([
            "λ:[:‹x*|_1];",              # factorial
            "λ:[:‹x+];",                 # triangular numbers
            "λ:2<[X]:‹x$2-x+;",          # Fibonacci with an early return
            "λ:1>[‹x›|X];",
            "λ:[‹:ßx];",                 # x as the operand of ß: the enclosing lambda
            "λ:2>[:3>[X|d]|N];",         # early return from nested ifs
            "λ:[:‹x" + ("" if pure else ",") + "];",
            "λ:0>[‹x|X]9;",
            "λ2|:[$‹$x|_];",
            "λ:[:‹x\"|w];",
        ])
        call = r.choice(["†", "†", "†", "M", ""])
        return n + lam + call

    def _single(self, d, indef=True, pure=False):
        """exactly one structure (a modifier operand)"""
        r = self.rng
        if d <= 0 or r.random() < 0.55:
            x = r.random()
            if x < 0.75:
                return r.choice(PURE_ELEMENTS + ["M", "†"])
            if x < 0.85 and not pure:
                return r.choice(EFFECT_ELEMENTS)
            return self.num() + " "
        return self.structure(d, True, pure)

    # -- targeted shapes ------------------------------------------------------------------------
    def counting_while(self, pure):
        """a terminating while loop whose CONDITION reads the context value: a counter on the stack is
        compared with `n` and incremented in the body (so the condition is re-evaluated after completed
        iterations, inside whatever binds `n` around it)"""
        r = self.rng
        cond = r.choice([":n<", ":n<", "n:$>", ":n=¬", ":n‹<"])
        mid = r.choice(["", "", ":,", "n_", "λ›;†‹", "!_"]) if not pure else r.choice(["", "", "n_", "λ›;†‹", "!_"])
        return r.choice(["0", "0", "1"]) + "{" + cond + "|" + mid + "›}"

    def context_while(self, d, pure):
        """the counting while inside something that binds `n` to an integer: for loop, map / filter lambda, lambda call"""
        r = self.rng
        w = self.counting_while(pure)
        k = r.randrange(6)
        tail = "" if pure else r.choice(["", ",", ",", "…"])
        if k == 0:
            return r.choice(["3", "4", "2"]) + "(" + w + tail + ")"
        if k == 1:
            return r.choice(["⟨2|4⟩", "⟨3|1|2⟩", "3 "]) + "ƛ" + self.counting_while(True) + ";"
        if k == 2:
            return r.choice(["3 ", "5 "]) + "λ" + w + ";†"
        if k == 3:
            return r.choice(["3", "2"]) + "(" + r.choice(["2", "3"]) + "(" + w + tail + "))"
        if k == 4:
            return r.choice(["4 ", "⟨1|3⟩"]) + "'" + self.counting_while(True) + "2<;"
        return r.choice(["3", "4"]) + "(n " + "λ" + w + ";†" + tail + ")"

    def dropping_lambda(self, pure, arity=None):
        """an explicit-arity lambda whose body really removes / consumes values of its own stack"""
        r = self.rng
        a = arity if arity is not None else r.choice([1, 2, 2, 2, 3])
        bodies = ["_", "_", "+_", "$_", "__", "_λ›;†", "λ_;†", "W", "_!", "+", "-", "$", "_n", "", ":_+"]
        if not pure:
            bodies += ["_,", ",", "_£¥"]
        return "λ" + str(a) + "|" + r.choice(bodies) + ";"

    def modified_lambda(self, d, pure):
        """every modifier on explicit-arity lambdas, with enough operands below"""
        r = self.rng
        m = r.choice(MOD1 + MOD2 + ["~", "~", "&"])
        if pure and m == "&":
            m = "~"
        lazy = m in "vɖ"
        operands = "".join(r.choice(["4 ", "3 ", "7 ", "1 ", "n ", "⟨1|2|3⟩", "12 "]) for _ in range(r.randrange(2, 5)))
        if m in MOD2:
            body = m + self.dropping_lambda(pure) + self.dropping_lambda(pure)
        elif m in "ƒɖ":
            body = m + self.dropping_lambda(True, 2)
        else:
            body = m + self.dropping_lambda(pure or lazy)
        out = operands + body
        k = r.randrange(4)
        tail = "" if pure else r.choice([",", "W,", ""])
        if k == 0:
            return r.choice(["3", "2"]) + "(" + out + tail + ")"
        if k == 1 and not pure:
            return out + "W"
        return out

    def scoping(self):
        """Python scoping of VAR_<x> inside defs, closures over parameters / locals, functions calling each
        other and themselves by name"""
        r = self.rng
        n = r.choice(["3", "4", "5", "2"])
        return r.choice([
            "@f:1|:[:‹@f;*|_1];" + n + " @f;",                       # recursion by name
            "@e:1|:[‹@o;|_1];@o:1|:[‹@e;|_0];" + n + " @e;",          # mutual recursion
            "@f:p|λ←p +;;" + n + " @f;→g 4 ←g†",                      # closure over a parameter, called after the return
            "@f:p|←p λ←p *;†;" + n + " @f;",
            "@f:p:q|λ←p ←q -;†;7 " + n + " @f;",
            "@f|" + n + "→c λ←c ›;;@f;†",                            # closure over a local of the enclosing function
            "@f|" + n + "→c λ←c ›→c ←c;†;@f;",                        # assignment makes c local to the lambda: unbound
            n + "→a λ←a 6→a;†",                                       # read before assignment in the same def
            n + "→a λ6→a ←a;† ←a W",                                  # the lambda's a is its own
            "λ" + n + "→a;† ←a",                                      # a local never reaches the module
            "@f;@f|1;",                                               # call before definition
            "@f|1;@f;@f|2;@f;W",                                      # redefinition
            n + "→a @f|←a ›;@f; 9→a @f;W",                            # a global is read at call time
            "λ3(i|←i,);†",
            n + "(i|λ←i d;†,)",
            "λ@h|9;@h;;† @h;",                                        # a function defined in a lambda is local to it
            "@f|@g|" + n + ";@g;;@f;",
            "⟨" + n + "→a ←a|7⟩ ←a",
            n + "→a ⟨←a|←a ›→a ←a⟩",
            "@f:p|⟨←p|←p d⟩;" + n + " @f;",
            "@f:p|3(←p n+,);" + n + " @f;",
            "@f:p|←p 2<[←p|←p ‹@f; ←p ‹‹@f;+];" + n + " @f;",         # Fibonacci by name with a named parameter
            "@f:p|←p ƛ←p;;" + n + " @f;",
            n + "→a λ←a;→g 9→a ←g†",
            "@f:p|λλ←p;;;" + n + " @f;††",
            "@f:p|←p›→p ←p;" + n + " @f;",
        ])

    def arity_mismatch(self, pure):
        """a lambda CALLED with another number of arguments than it was written with, whose body reads `n`:
        reduce / scan call with two, map / filter / sort-by with one, & with one"""
        r = self.rng
        use = r.choice(["n", "n∑", "nL", "n W", "nh", "n‹", "n:_", "!n\"", "nf"])
        k = r.randrange(6)
        lst = r.choice(["⟨1|2|3⟩", "⟨3|1|2⟩", "4 ", "⟨2|5⟩"])
        if k == 0:
            return lst + r.choice(["ƒ", "ɖ"]) + r.choice(["λ" + use + ";", "λ3|" + use + ";", "λ0|" + use + ";", "⁽n", "‡n∑", "‡nL"])
        if k == 1:
            return lst + "λ" + r.choice(["2", "3", "0"]) + "|" + use + ";" + r.choice(["M", "F", "ṡ", "M", "F"])
        if k == 2:
            return r.choice(["1 2 ", "7 "]) + "&λ" + r.choice(["2", "3", "0"]) + "|" + use + ";¥"
        if k == 3:
            return lst + "ƒλ" + r.choice(["", "3|"]) + "n∑;" if r.random() < 0.5 else lst + "ɖλ" + r.choice(["", "3|"]) + "nL;"
        if k == 4:
            return r.choice(["3", "2"]) + "(" + lst + "ƒλ" + use + ";" + ("" if pure else ",") + ")"
        return lst + "λ2|" + use + ";" + r.choice(["→f ←f M" if not pure else "M", "M"])

    def item(self, d, indef, pure):
        r = self.rng
        x = r.random()
        if d > 0 and 0.13 <= x < 0.16:
            return self.arity_mismatch(pure)
        if d > 0 and not pure and 0.16 <= x < 0.20:
            return self.scoping()
        if d > 0 and x < 0.04:
            return self.recursive_lambda(pure)
        if d > 0 and 0.04 <= x < 0.08:
            return self.context_while(d, pure)
        if d > 0 and 0.08 <= x < 0.13:
            return self.modified_lambda(d, pure)
        if d <= 0 or x < 0.62:
            return self.atom(indef, pure)
        if x < 0.90:
            return self.structure(d, indef, pure)
        return self.modified(d, pure)

    def modified(self, d, pure):
        r = self.rng
        k = r.random()
        if k < 0.55:
            m = r.choice(MOD1)
            if pure and m == "&":
                m = "v"
            lazy = m in "vɖ~"
            return m + self.single(d - 1, True, pure or lazy)
        if k < 0.75:
            return r.choice(MOD2) + self.single(d - 1, True, pure) + self.single(d - 1, True, pure)
        if k < 0.88:
            return "⁽" + self.single(d - 1, True, pure)
        if k < 0.96:
            return "‡" + self.single(d - 1, True, pure) + self.single(d - 1, True, pure)
        return "≬" + self.single(d - 1, True, pure) + self.single(d - 1, True, pure) + self.single(d - 1, True, pure)

    def nested(self, fn):
        """generate inside a nested def: the parameters of the enclosing function are not readable"""
        saved, self.fn_locals = self.fn_locals, []
        try:
            return fn()
        finally:
            self.fn_locals = saved

    def single(self, d, indef=True, pure=False):
        return self.nested(lambda: self._single(d, indef, pure))

    def structure(self, d, indef, pure):
        r = self.rng
        k = r.randrange(14)

        def b(i=indef, p=pure, lo=0, ctx="same"):
            if k not in (0, 1, 2, 3, 4):
                return self.nested(lambda: self.seq(d - 1, i, p, lo, ctx if ctx != "same" else None))
            return self.seq(d - 1, i, p, lo, ctx)
        if k in (0, 1):
            out = "[" + b()
            for _ in range(r.choice([0, 1, 1, 1, 2, 3])):
                out += "|" + b()
            return out + "]"
        if k in (2, 3):
            out = "("
            if r.random() < 0.3 and not pure:
                out += r.choice(["i", "a"]) + "|"
            body = b(ctx="for")
            # an unbalanced early exit shows in what `n` means AFTER the loop
            tail = ("n" if pure else r.choice(["n,", "n", "n…"])) if ("X" in body or "x" in body) and r.random() < 0.6 else ""
            return out + body + ")" + tail
        if k == 4:
            # while loops: mostly counting-down shapes so that they terminate
            x = r.random()
            if x < 0.6:
                return "{:|" + b(ctx="while") + "‹}"
            if x < 0.8:
                return "{" + b(lo=1, ctx=None) + "|" + b(ctx="while") + "}"
            return "{:0>|" + b(ctx="while") + "‹}"
        if k in (5, 6):
            out = "λ"
            if r.random() < 0.5:
                out += str(r.choice([0, 1, 1, 2, 2, 3])) + "|"
            out += b(True, pure, ctx="lam") + ";"
            x = r.random()
            return out + ("†" if x < 0.45 else "M" if x < 0.55 else "F" if x < 0.62 else "")
        if k == 7:
            return "ƛ" + b(True, True) + ";"
        if k == 8:
            return "'" + b(True, True) + ";"
        if k in (9, 10):
            out = "⟨" + b(True, pure)
            for _ in range(r.choice([0, 1, 1, 2])):
                out += "|" + b(True, pure)
            return out + "⟩"
        if k == 11 and not pure and (not indef or r.random() < 0.4):
            name = r.choice(self.fnames)
            params = r.choice(["", ":1", ":2", ":1:1", ":0", ":3", ":p", ":p:q", ":1:p", ":p:2", ":p:p", ":*", ":p:*", ":*:1"])
            saved, self.fn_locals = self.fn_locals, [x for x in ("p", "q") if x in params]
            try:
                body = self.seq(d - 1, True, False, 0, None)
            finally:
                self.fn_locals = saved
            self.fdefined.add(name)
            return "@" + name + params + "|" + body + ";"
        if k == 13:
            return "µ" + b(True, pure) + ";"
        if not pure and self.fdefined:
            return "@" + r.choice(sorted(self.fdefined)) + ";"
        return "ƛ" + b(True, True) + ";"

    def program(self, depth=3):
        self.defined = set()
        self.fdefined = set()
        self.exit_ctx = None
        head = self.rng.choice(["x", "1 2 x", "3 x", "X"]) if self.rng.random() < 0.03 else ""
        return head + self.seq(depth, False, False, 1, None)


SEEDS = [
    # FizzBuzz-like: nested lambda in for in if
    "5(n2<[n|nλ›;†],)", "3(n λ2|+;†,)", "1 2 λ2|-;†", "3 4 λ0|n;†", "λ3|W;†", "1 λ3|W;†", "3 ƛn›;", "⟨1|2|3⟩ ƛd;", "5 '2<;",
    "1 2 3 ⟨!|+|⟩", "⟨1||2⟩", "1 ⟨||2⟩", "3(n,)", "3(i|←i,)←i", "⟨4|5⟩(n)", "0[1|2]", "⟨⟩[1|2]", "0[1|0|2|3]", "0[1|0|2]",
    "3 {:|:,‹}", "@f:2|W;1 2 3 @f;", "@f:1:1|W;1 2 3 @f;", "@f|5 6;@f;W", "@f:1|n;7@f;", "@g;", "←a", "4→a ←a ←a",
    "@f:2|+;←f 3 4 ⟨5⟩ M", "3 4 ←f†", "1 2 3 v›", "⟨1|2⟩ 3 v+", "12 3 v+", "5 &›¥", "1 2 &+ ¥", "1 2 ~+", "5 ~2<", "1 ß5", "0 ß5",
    "⟨1|2|3⟩ ƒ+", "123 ƒ+", "⟨1|2|3⟩ ɖ+", "3 4 ₌+-", "3 4 ₍+-", "3 ⁽›M", "3 ‡›dM", "3 ≬›d‹M", "⟨⟩ƒ+", "⟨⟩ɖ+", "5 λ£;† ¥",
    "3(n) W", "2(3(n)) W", "3 ƛ2(n)W;", "⟨1|2⟩(n ƛn;) W", "5 λ:[n|0];†", "?? +", "? λ?;†", "λ2|;†", "2 λ λn;† ;†",
    "@f:1|:[‹@f;];3@f;W", "3→a {←a|←a, ←a‹→a}", "1 2 3 ^ W", "3 4 $ W", "1 : D W", "⟨⟨1|2⟩|3⟩ f ∑", "120 Ṙ", "⟨1|2⟩ 3 J 4 J L",
    "1 2 λ2|__-;†", "1 2 3 λ3|___\";†", "4 5 λ2|$_!;†", "@f:2|__-;1 2@f;", "1 2 ₌λ2|__-;λ2|__\";", "7 8 9 @f:3|___W;@f;",
    "@f:p|←p d;5@f;", "@f:p:q|←p ←q -;1 2@f;", "@f:1:p|←p +;1 2@f;", "@f:p:2|←p W;1 2 3@f;", "@f:p:p|←p;1 2@f;W", "3→p @f:p|←p;5@f;←p W",
    "@f:*|W;7 8 9 2@f;", "@f:*|W;7 8 9 0@f;", "@f:*|W;7 8 9 1@f;", "@f:*|W;2@f;", "@f:p:*|←p W;7 8 9 2 5@f;", "@f:*:1|W;6 7 8 9 2@f;", "@f:*|n;7 8 2@f;",
    "@f:*|W;7 8 9 1N@f;", "@f:*|W;⟨1⟩@f;",
    "@f:p|←p λ5;† +;4@f;", "@f:p|n ←p;4@f;W", "@f:p|;4@f;W", "@f:p|?;4@f;", "@f:p|_ _;4@f;W", "⟨3|1|2⟩µN;", "⟨3|1|2⟩µ;", "312µ;", "⟨3|1|2⟩µ,0;",
    "⟨⟨3⟩|⟨1|5⟩|⟨2⟩⟩µL;", "⟨3|1|2⟩ λN; ṡ", "⟨3|1|2⟩ λ2<; ṡ",
    "3 {:|n,‹}", "5 {:2>|n,‹}", "2 {:|n 2(n,)_‹}", "3 {:|λn;†,‹}", "2{:|⟨n|n⟩,‹}",
    "3(0{:n<|›},)", "⟨2|4⟩ƛ0{:n<|›};", "3 λ0{:n<|›};†", "2(3(0{:n<|:,›}))", "4 '0{:n<|›}2<;", "3(n λ0{:n<|›};†,)", "3(1{:n=¬|›},)",
    "4 3 ~λ2|_;", "4 3 ~λ2|+_;", "3(4 n ~λ2|_;,)", "4 3 ~λ2|$_;", "1 2 3 ~λ3|__;", "4 3 ~λ2|_λ›;†;", "4 3 &λ2|_;¥", "4 3 ₌λ2|_;λ2|+_;", "4 3 ₍λ2|_;λ1|_;",
    "⟨1|2|3⟩ 5 vλ2|_;", "⟨1|2|3⟩ ƒλ2|_;", "⟨1|2|3⟩ ɖλ2|$_;", "1 4 3 ßλ2|_;", "⟨4|5⟩ ~λ1|_;", "4 3 ~λ2|W;", "4 3 ~λ2|;",
    "@f:1|:[:‹@f;*|_1];5 @f;", "@e:1|:[‹@o;|_1];@o:1|:[‹@e;|_0];4 @e;", "@e:1|:[‹@o;|_1];@o:1|:[‹@e;|_0];3 @e;", "@f:p|λ←p +;;3 @f;→g 4 ←g†",
    "@f:p|←p λ←p *;†;3 @f;", "@f|3→c λ←c ›;;@f;†", "@f|3→c λ←c ›→c ←c;†;@f;", "5→a λ←a 6→a;†", "5→a λ6→a ←a;† ←a W", "λ5→a;† ←a", "@f;@f|1;",
    "@f|1;@f;@f|2;@f;W", "3→a @f|←a ›;@f; 9→a @f;W", "λ3(i|←i,);†", "3(i|λ←i d;†,)", "λ@h|9;@h;;† @h;", "@f|@g|4;@g;;@f;", "⟨3→a ←a|7⟩ ←a",
    "3→a ⟨←a|←a ›→a ←a⟩", "@f:p|⟨←p|←p d⟩;3 @f;", "@f:p|←p 2<[←p|←p ‹@f; ←p ‹‹@f;+];6 @f;", "3→a λ←a;→g 9→a ←g†", "@f:p|λλ←p;;;3 @f;††",
    "@f:p|←p›→p ←p;3 @f;", "@f|5→f;@f;", "@f:p|←p ƛ←p;;3 @f;", "3→a λ[5→a]←a;†", "@f:p|@g|←p;@g;;7 @f;", "@f:p|@g|←p;←g;3 @f;→h 9 ←h†", "λ1→a λ←a;;†† ",
    "`ab`", "`a b`,", "\\a", "‛ab", "«ƛ«", "«ab«", "`ab` `c`+", "`ab` 3*", "3 `ab`*", "3 `ab`-", "`ab` 2-", "`abcab` `ab`-", "`hello` `el`*", "`aB`N",
    "`a b`›", "`ab`‹", "`ab`d", "``¬", "`a`¬", "`0`[1|2]", "``[1|2]", "`ab`(n,)", "`ab`L", "`ab`h", "``h", "`ab`t", "``t", "`ab`f", "`ab`Ṙ", "`ab`∑",
    "``∑", "`ab` 1\"", "1 `2`=", "`2` 2=", "`a` `b`<", "2 `10`<", "`b` `a`>", "`ab` 2J", "2 `ab`J", "`ab` `cd`J", "⟨1⟩ `ab`J", "`ab`ƛd;", "`ab`w", "`ab`W",
    "`ab`…", "`ab`£¥", "`ab` 1 `c` W", "⟨`a`|`b`⟩", "⟨`a`|⟨`b`|1⟩⟩,", "`abc`'`b`=¬;", "`cab`µ`b`=;", "`ab` `cd` v+", "`ab`ƒ+", "`abc`ɖ+", "`ab`{:|:,t}",
    "`ab`:[`yes`|`no`]", "1 `a`+ 2+", "⟨1|`a`⟩ 2+", "⟨`a`|`b`⟩ `c`+", "`ab`→a ←a ←a+", "@f:p|←p `!`+;`hi`@f;", "`ab` λ`c`+;†", "`ab`M", "2 `ab`M", "`ab` 3 ~+",
    "`a` 3(:+),", "`ab`?+", "`abc` ‛bc-", "`a` `a`=[`same`|`diff`]", "`ab`!", "`ab` `ab` `a`^W", "`a`\\b+", "`ab`Ṙ`ab`=",
    "⟨1|2|3⟩ ƒλn∑;", "⟨1|2|3⟩ ɖ‡n∑", "3 λ2|n;M", "3 λ2|n‹;F", "⟨3|1|2⟩ λ2|nN;ṡ", "⟨1|2|3⟩ ƒλ3|n∑;", "4 λ0|n;M", "1 2 &λ2|n;¥",
    "@f:1|(⟨1|2|3⟩ƒλn∑;,);2 @f;", "⟨1|2|3⟩ ƒ⁽n",
    "5(n3=[X]n,)", "5(n3=[x]n,)", "5(n3=[x]n,)n", "3(n2=[x])n W", "3(2(n1=[x])n,)", "3(2(n2=[X])n,)n", "4 λ3(n2=[x])n;†", "2(3(n2=[x]n,)n,)n",
    "3 {:|:2=[X]‹}n W", "3(n[n2=[X]])n", "5 λ:[:‹x*|_1];†", "3 4 λ2|:[X]9;†", "0 4 λ2|:[X]9;†W", "1 5{:|:3=[X]‹}W", "4 λ3(n2=[X]n);†W",
    "1 2 3 λ3|X;†W", "λX;†", "3(λnX;†,)", "3 λ:2<[X]‹x;†", "6 λ:2<[X]:‹x$2-x+;†", "3 λ:[‹:ßx];†", "1 2 x", "x", "1 2 X 3", "1[X]2",
    "4(n λ:2>[:3>[X|d]|N];†,)", "3(2(n2=[X]n,)n,)", "3(n2=[x]2(n,))", "5 ƛλ:[:‹x+];†;", "4 λ:[:‹x,];†", "3 5 λ2|:[$‹$x|_];†",
    "3 {:|:2=[X]:,‹}", "5(n[n2=[X]|0])W", "3(n1=[x|n,]7,)", "2 λ3(n2=[x]n)X9;†W", "3 λ:[‹x]n;†", "4 λ:[‹x:,]X;†", "3 λ1 ~λ2|X;;†W",
    "@f:0|1 2 3; ←f †W", "@f:2|+:; 5 6 ←f †W", "@f:1|; 4 ←f ß† W", "@f:*|W; 1 2 2 ←f †",
    "1 2 λ2|__X;†W", "4 λ_ _X;†", "2(_X)W", "5 λ_ λ_X;† ;†W", "@f:1|_X;4@f;W",
    "10 λ2|n;†", "1 2 λ2|n W;†", "3 4 @f:2|n;@f;", "@f:2|!;1@f;", "@f:0|n;@f;", "λ0|!;†", "3 λ0|?;†", "⟨?|?⟩", "5 ƛ⟨n|n⟩;",
]


# ----------------------------------------------------------------------------------------------
# implementation side
# ----------------------------------------------------------------------------------------------
ERR_CODE = {None: 0, "NameError": 1, "UnboundLocalError": 1, "IndexError": 2}


def impl_run(item):
    """(src, inputs as strings, flag) -> (error code, stack canonical bottom first, stdout)"""
    src, inputs, flag = item
    import time
    from vlib import runprog
    t0 = time.process_time()
    r = runprog.run(src, list(inputs), flag)
    err = r["error"]
    code = ERR_CODE.get(err, 9)
    if code == 0 and not isinstance(r["stack"], list):
        code, err = 9, "NoStackObserved"
    return (code, r["stack"] if code == 0 else [], r["out"], err, time.process_time() - t0)


def enc_value(v):
    """canonical value of vlib.runprog -> Coq `value`; None when it is outside int/list/function"""
    if v[0] == "int":
        return f"VInt ({v[1]})"
    if v[0] == "str":
        return f"VStr {V.cstr(v[1])}"
    if v[0] == "list":
        parts = [enc_value(x) for x in v[1]]
        if any(p is None for p in parts):
            return None
        return "VList [" + "; ".join(parts) + "]"
    if v[0] == "fun":
        return "a_fun"
    return None


def truncated(v):
    """vlib.runprog.canon cuts values nested deeper than 6 levels / longer than 200 items"""
    if v[0] in ("deep", "..."):
        return True
    return v[0] == "list" and any(truncated(x) for x in v[1])


def enc_input(s):
    """what helpers.vy_eval makes of a command-line input: a Python literal (number, list, quoted string), or,
    when evaluating it fails (a bare word), the text itself"""
    import ast
    try:
        v = ast.literal_eval(s)
    except (ValueError, SyntaxError):
        v = s

    def go(x):
        if isinstance(x, int):
            return f"VInt ({x})"
        if isinstance(x, str):
            return f"VStr {V.cstr(x)}"
        return "VList [" + "; ".join(go(y) for y in x) + "]"
    return go(v)


def case_coq(src, flag, inputs, code, stack, out):
    st = "[" + "; ".join(stack) + "]" if stack else "([] : list value)"
    ins = "[" + "; ".join(enc_input(i) for i in inputs) + "]" if inputs else "([] : list value)"
    return f"({V.cstr(src)}, {FLAG_COQ[flag]}, {ins}, {code}%nat, {st}, {V.cstr(out)})"


def coq_codes(prop, name, cases, shard=60, timeout=300):
    """Evaluate both models on the cases inside Coq.  Returns (list of (machine code, reference
    code) or None per case, logs of the shards that did not evaluate)."""
    files = []
    spans = []
    for lo in range(0, len(cases), shard):
        hi = min(len(cases), lo + shard)
        text = (PREAMBLE + "Definition vy_cases := [" + ";\n".join(case_coq(*c) for c in cases[lo:hi]) + "].\n"
                + "Eval vm_compute in (map vy_case vy_cases).\n")
        files.append((f"{name}_{lo}", text))
        spans.append((lo, hi))
    res = V.coq_eval_many(prop, files, timeout)
    codes = [None] * len(cases)
    logs = []
    for (fname, _), (ok, out), (lo, hi) in zip(files, res, spans):
        vals = V.parse_nat_list(out) if ok else None
        if vals is None or len(vals) != hi - lo:
            logs.append((lo, hi, f"{fname}: {out[-1200:]}"))
            continue
        codes[lo:hi] = [divmod(v, 10) for v in vals]
    return codes, logs


# ----------------------------------------------------------------------------------------------
# a pool whose workers can be killed (a program may block inside C code -- big-number
# arithmetic -- where the alarm of V.pmap is not delivered)
# ----------------------------------------------------------------------------------------------
def _pool_worker(fn, items, idxs, conn, soft):
    import os
    try:
        import resource
        resource.setrlimit(resource.RLIMIT_AS, (4 << 30, 4 << 30))
    except Exception:  # noqa: BLE001
        pass
    V._quiet_worker()
    try:
        for i in idxs:
            conn.send((i, V._guarded((fn, items[i], soft))))
        conn.send(None)
    except BaseException:  # noqa: BLE001
        pass
    finally:
        conn.close()
        os._exit(0)


def hard_pmap(fn, items, soft=4.0, hard=12.0, procs=8):
    """like V.pmap; a case that blocks or kills its worker is reported as timeout / exc after
    `hard` seconds and the rest of that worker's share goes to a fresh process"""
    import multiprocessing
    import time
    from multiprocessing.connection import wait
    mp = multiprocessing.get_context("fork")
    n = len(items)
    out = [None] * n
    if n == 0:
        return []
    procs = max(1, min(procs, n))
    live = {}

    def spawn(idxs):
        if not idxs:
            return
        r, w = mp.Pipe(duplex=False)
        pr = mp.Process(target=_pool_worker, args=(fn, items, idxs, w, soft), daemon=True)
        pr.start()
        w.close()
        live[r] = {"proc": pr, "idxs": idxs, "pos": 0, "t": time.time()}

    for k in range(procs):
        spawn(list(range(k, n, procs)))
    while live:
        ready = wait(list(live), timeout=1.0)
        now = time.time()
        for r in ready:
            st = live[r]
            try:
                msg = r.recv()
            except (EOFError, OSError):
                msg = "dead"
            if msg is None or msg == "dead":
                st["proc"].join(timeout=1)
                if st["proc"].is_alive():
                    st["proc"].kill()
                rest = st["idxs"][st["pos"]:]
                del live[r]
                r.close()
                if msg == "dead" and rest:
                    out[rest[0]] = ("exc", "worker died")
                    spawn(rest[1:])
                continue
            i, val = msg
            out[i] = val
            st["pos"] += 1
            st["t"] = now
        for r in list(live):
            st = live[r]
            if now - st["t"] > hard:
                st["proc"].kill()
                st["proc"].join(timeout=2)
                rest = st["idxs"][st["pos"]:]
                del live[r]
                r.close()
                if rest:
                    out[rest[0]] = ("timeout", "hard")
                    spawn(rest[1:])
    return [o if o is not None else ("exc", "lost") for o in out]


# ----------------------------------------------------------------------------------------------
# documented behaviour outside the modelled domain: stated directly on the implementation
# (program, inputs, flag, expected stdout or None = "any output, but no exception", class, what the document says)
# ----------------------------------------------------------------------------------------------
DOCUMENTED = [
    ("λ0;[1|2]", [], "", "2\n", "C01:function-valued-condition",
     "Structures.md (If Statement): a function popped as the condition is called first, repeatedly, and its result is tested: λ0; is falsey"),
    ("λ3;(n,)", [], "", "1\n2\n3\n", "C01:function-valued-condition",
     "Structures.md (For Loop): a function popped as the iterable is called first and its result iterated: λ3; gives the range 1..3"),
]


def documented_expectations(env):
    """Each entry is the property as the documents state it, on the implementation alone.  A difference is a
    failure of the property; it is raised through env.fail when known_findings.json lists its class (-> a
    KNOWN-FINDING line) or when it is NEW behaviour (the entry used to pass); an unregistered, long-standing
    difference is written to the evidence as a proposed finding instead (the integrator decides: fix or list)."""
    res = hard_pmap(impl_run, [(s, i, f) for s, i, f, _, _, _ in DOCUMENTED], soft=3, hard=8, procs=3)
    registered = {k.get("class") for k in env.known} | {c for k in env.known for c in k.get("classes", [])}
    proposed = []
    for (src, inputs, fl, expected, cls, doc), (st, r) in zip(DOCUMENTED, res):
        if st != "ok":
            observed = {"status": st}
            ok = False
        else:
            code, stack, out, err, _ = r
            observed = {"error": err, "stdout": out}
            ok = err is None and (expected is None or out == expected)
        if ok:
            continue
        inp = {"program": src, "inputs": inputs, "flags": fl}
        if cls in registered:
            env.fail(inp, f"{doc}; observed {observed}", cls=cls)
        else:
            proposed.append({"class": cls, "input": inp, "documented": doc, "expected_stdout": expected, "observed": observed})
    env.note("proposed_findings_not_in_known_findings", proposed)
    env.count(len(DOCUMENTED), [])


# ----------------------------------------------------------------------------------------------
# the check
# ----------------------------------------------------------------------------------------------
INPUT_SETS = [[], ["3"], ["2", "5"], ["[1,2,3]"], ["4", "[5,6]"], ["0"], ["7", "1", "2"], ["[[1,2],3]", "2"],
              ['"ab"'], ['"a b"', "2"], ["hello", '"0"'], ['""', "3"], ['["ab", 1]']]
STRUCT_CHARS = {"[": "if", "(": "for", "{": "while", "λ": "lambda", "ƛ": "map-lambda", "'": "filter-lambda", "⟨": "list",
                "@": "function", "v": "mod-v", "&": "mod-&", "~": "mod-~", "ß": "mod-ß", "ƒ": "mod-ƒ", "ɖ": "mod-ɖ", "₌": "mod-₌",
                "₍": "mod-₍", "`": "string-literal", "‛": "two-char-string", "\\": "char-literal", "«": "compressed-string", "X": "X(break/return)", "x": "x(continue/recurse/print)", "⁽": "short-1", "‡": "short-2", "≬": "short-3", "→": "var-set", "←": "var-get", "†": "call"}
MEANING = {0: "agree", 1: "DIFFER", 2: "outside-domain(EStuck)", 3: "out-of-fuel", 4: "guard(ENotCore)", 5: "not-core", 6: "no-parse",
           7: "differ-in-back-quotes-only"}
UNQUOTED_CLS = "C01:generated-lazy-list-prints-strings-unquoted"


# element x argument matrix: every element of the core applied to every combination of argument values of every kind
# (the overloads of an element are selected by the kinds of its arguments)
MATRIX_VALUES = ["0", "1", "7", "12", "5N", "120", "1001", "``", "`a`", "`Ab c`", "`12`", "`aXa`", "⟨⟩", "⟨1|2|3⟩", "⟨3|1|2|1⟩",
                 "⟨`a`|`b`|`a`⟩", "⟨⟨1|2⟩|⟨3⟩|4⟩", "⟨0|`x`|⟨⟩⟩", "⟨7⟩", "⟨2|2⟩", "⟨1|0⟩", "⟨``|0⟩"]
MATRIX_DYAD_VALUES = ["0", "3", "12", "5N", "``", "`a`", "`Ab`", "`3`", "⟨⟩", "⟨1|2|3⟩", "⟨`a`|2⟩", "⟨⟨1|2⟩|3⟩", "⟨4⟩"]
DYADS = set("+-*=<>$\"J∧∨⟑≤≥≠%∴∵pZYẋj")
NILADS = set("^!Wn?₀₁₄₆₇₈¤ð¶u„‟Ȯ¥")


def matrix_items(env):
    items = []
    every = [e for e in PURE_ELEMENTS + EFFECT_ELEMENTS if e not in "n"]
    for e in every:
        if e in DYADS:
            for a in MATRIX_DYAD_VALUES:
                for b in MATRIX_DYAD_VALUES:
                    items.append((f"8 {a} {b} {e}W", [], ""))
        elif e in NILADS:
            for st in ["", "4", "4 `a`", "1 2 ⟨3⟩"]:
                items.append((f"{st} {e}W", ["6", "7"], ""))
                items.append((f"{st} {e}W", [], ""))
                items.append((f"{st} λ{e}W;†", [], ""))
        else:
            for a in MATRIX_VALUES:
                items.append((f"8 {a} {e}W", [], ""))
            items.append((f"{e}W", ["[3,4]"], ""))
            items.append((f"3 λ{e};†W", [], ""))
    return items


def build_items(env):
    rng = env.rng
    g = CoreGen(rng)
    depth = env.budget(3, 4)
    n_gen = env.budget(1100, 6000)
    progs_ = []
    seen = set()
    while len(progs_) < n_gen:
        s = g.program(rng.randint(1, depth))
        if s.strip() and s not in seen and len(s) <= 90:
            seen.add(s)
            progs_.append(s)
    items = []
    for s in SEEDS:                       # every seed under every flag set, two input lists
        for fl in FLAGS:
            items.append((s, [], fl))
        items.append((s, ["3", "4"], ""))
        items.append((s, ["[1,2]", "5"], "W"))
    for i, s in enumerate(progs_):        # generated: flags in rotation + one more random run
        items.append((s, INPUT_SETS[rng.randrange(len(INPUT_SETS))], FLAGS[i % len(FLAGS)]))
        items.append((s, INPUT_SETS[rng.randrange(len(INPUT_SETS))], rng.choice(FLAGS)))
    items += matrix_items(env)
    return list(dict.fromkeys((s, tuple(i), f) for s, i, f in items)), progs_


def run(env):
    env.rule = ("programs of the core grammar (generator CoreGen: number and string literals (`..`, two-character, character, compressed), the 87 core "
                "elements with their number / string / list overloads, variables / named loop variables / function definitions anywhere incl. inside lambdas, functions and list items "
                "(Python scoping: locals, closures over parameters and locals, unbound reads, recursion and mutual recursion by name, redefinition), variables and function definitions anywhere incl. inside lambdas / functions / list items (Python scoping: locals, closures over "
                "parameters and locals, unbound reads, recursion and mutual recursion by name, redefinition), function definitions / "
                "calls with numeric / named / * parameters, if / for / while, lambdas λ ƛ ' µ and shorthands ⁽ ‡ ≬, list literals, modifiers "
                "v & ~ ß ƒ ɖ ₌ ₍, early exits X / x where the core covers them (break / continue in loops through ifs, early return and "
                "recursion in plain lambdas incl. recursive templates with a base case, x as a modifier operand, x at top level); nesting depth <= 3 quick, "
                "<= 4 thorough) plus hand-written seeds; each run = program x input list (13 lists of small ints / int lists / strings) x one of the nine "
                "flag sets; compared: final stack (top popped by the implicit output), stdout, error class. (1) Machine.exec vs implementation "
                "-> disagreement; (2) RefSem.eval vs implementation -> the property fails; (3) exact text of transpile(). Both models are "
                "evaluated inside Coq (vm_compute). Non-trivial = the run agreed AND the program contains a structure or modifier; distinct "
                "by (program, inputs, flag).")
    import time
    V.import_repo()
    if not env.coq_ok:
        # the property file did not build (e.g. the template obligation C01_templates broke): the models themselves
        # are still needed for the search of a concrete failing program
        with V._Lock("coq.lock"):
            ok, out = V.coq_make(["Model/Machine.vo", "Model/RefSem.vo"])
        env.note("models_rebuilt_after_failed_property_build", ok)
    t_start = time.time()
    items, generated = build_items(env)
    res = hard_pmap(impl_run, items, soft=env.budget(3, 4), hard=env.budget(9, 12), procs=min(V.NPROC, 10))
    cases, meta = [], []
    skipped = {"timeout": 0, "harness-exc": 0, "slow": 0, "long-output": 0, "value-outside-int/list/function": 0,
               "python-resource-limit": 0, "value-too-deep-to-observe": 0}
    for it, (st, r) in zip(items, res):
        if st == "timeout":
            skipped["timeout"] += 1
            continue
        if st != "ok":
            skipped["harness-exc"] += 1
            continue
        code, stack, out, err, dt = r
        if err in ("RecursionError", "MemoryError"):
            # deep chains of lazy generators hit CPython's recursion limit: a resource limit, not a semantics
            skipped["python-resource-limit"] += 1
            continue
        if dt > 0.25:
            skipped["slow"] += 1
            continue
        if len(out) > 1200 or len(str(stack)) > 2500:
            skipped["long-output"] += 1
            continue
        if any(truncated(v) for v in stack):
            skipped["value-too-deep-to-observe"] += 1
            continue
        enc = [enc_value(v) for v in stack]
        if any(e is None for e in enc):
            skipped["value-outside-int/list/function"] += 1
            enc = ["VInt (-424242)", "VInt (-424243)"]      # never equal to a model stack: a model that accepts this run differs
        cases.append((it[0], it[2], list(it[1]), code, enc, out))
        meta.append((it, err))
    t_impl = time.time()
    codes, logs = coq_codes(env.prop, "run", cases, shard=env.budget(60, 80), timeout=env.budget(45, 70))
    heavy = []
    for lo, hi, log in logs:
        if "[timeout]" not in log:
            continue                      # a shard that failed for another reason (stale objects, ...) is not retried
        # the model is eager where the implementation is lazy: a value that grows exponentially but is never
        # forced starves its shard.  Re-evaluate such a shard case by case under a short limit; what still does
        # not finish is skipped and counted
        sub, sublogs = coq_codes(env.prop, f"retry{lo}", cases[lo:hi], shard=1, timeout=15)
        codes[lo:hi] = sub
        heavy += [cases[lo + a][0] for a, b, _ in sublogs]
    t_coq = time.time()
    dist = {}
    registered = {k.get("class") for k in env.known} | {c for k in env.known for c in k.get("classes", [])}
    unquoted = []
    per_element = {}
    differing = {}
    flags_seen = {}
    constructs = {}
    nontrivial = []
    unevaluated = 0
    # a difference must be replayable: every run the models disagree with is executed a second time in a fresh
    # worker; if the implementation's own observation is not the same twice the run is counted and left out
    suspects = [k for k, c in enumerate(codes) if c is not None and (c[0] in (1, 7) or c[1] in (1, 7))]
    again = hard_pmap(impl_run, [meta[k][0] for k in suspects], soft=env.budget(3, 4), hard=env.budget(9, 12), procs=min(V.NPROC, 6)) if suspects else []
    unstable = set()
    for k, (st, r2) in zip(suspects, again):
        same = False
        if st == "ok":
            code2, stack2, out2, err2, _ = r2
            enc2 = [enc_value(v) for v in stack2]
            same = (code2 == cases[k][3] and out2 == cases[k][5] and err2 == meta[k][1]
                    and (enc2 == cases[k][4] or any(e is None for e in enc2)))
        if not same:
            unstable.add(k)
    env.note("runs_not_reproducible_on_a_second_execution", {"count": len(unstable), "of_differing": len(suspects),
                                                              "examples": [list(meta[k][0]) for k in sorted(unstable)[:3]]})
    for k_case, ((it, err), c, case) in enumerate(zip(meta, codes, cases)):
        src, inputs, fl = it
        if c is None:
            unevaluated += 1
            continue
        if k_case in unstable:
            continue
        m, r = c
        key = f"machine:{MEANING.get(m, m)}/reference:{MEANING.get(r, r)}"
        dist[key] = dist.get(key, 0) + 1
        inp = {"program": src, "inputs": list(inputs), "flags": fl}
        obs = {"error": err, "stack": case[4], "stdout": case[5]}
        if m == 1:
            env.disagree("machine (Model/Machine.v) vs implementation", inp, "(model outcome differs; evaluate run_machine in Coq)", obs)
        elif m == 4:
            env.disagree("machine entered a function whose body is outside the core", inp, "ENotCore", obs)
        if m == 7 or r == 7:
            # LazyList.output prints the items it has ALREADY generated with vy_print (a string raw) and the others
            # with vy_repr (back-quoted): the printed text of a list depends on whether it was looked at before
            what = ("a lazy list whose items were generated before it is printed shows its string items without back-quotes "
                    f"(LazyList.output: vy_print for cached items, vy_repr for the rest); observed {obs}")
            # repaired in /repo (ed321f2): any occurrence now is a regression
            env.fail(inp, what, cls=UNQUOTED_CLS)
            if len(unquoted) < 5:
                unquoted.append({"class": UNQUOTED_CLS, "input": inp, "observed": obs})
        if m == 1 or r == 1:
            differing[src] = differing.get(src, 0) + 1
        if r == 1:
            env.fail(inp, "the implementation does not do what the documented structure semantics (Model/RefSem.v) says: final stack / stdout / "
                          f"error differ; observed {obs}", cls=None)
        if m != r:
            env.proof_broken("C01_compile_correct contradicted by evaluation", f"{inp}: machine code {m}, reference code {r}")
        if (m, r) in ((0, 0), (2, 2)):
            for ch in set(src) & ELEMENT_SET:
                per_element.setdefault(ch, [0, 0])[0 if m == 0 else 1] += 1
        if m == 0 and r == 0:
            flags_seen[fl] = flags_seen.get(fl, 0) + 1
            used = {v for k, v in STRUCT_CHARS.items() if k in src}
            for u in used:
                constructs[u] = constructs.get(u, 0) + 1
            if used:
                nontrivial.append(f"{src}\x00{inputs}\x00{fl}")
    env.note("model_evaluation_too_heavy", {"count": len(heavy), "examples": heavy[:5]})
    if unevaluated > max(3, len(cases) // 100):
        env.proof_broken("too many correspondence cases could not be evaluated in Coq", f"{unevaluated} of {len(cases)}; {[l[2][-300:] for l in logs][:3]}")
    env.count(len(cases), nontrivial)
    documented_expectations(env)
    # exact text of the transpiler on the same programs
    transcorr.check(env, SEEDS + generated[: env.budget(500, 3000)], name="c01text", shard=env.budget(125, 300))
    env.note("runs", {"total": len(items), "compared": len(cases), "skipped": skipped, "coq_unevaluated": unevaluated})
    env.note("phase_seconds", {"implementation_runs": round(t_impl - t_start, 1), "coq_evaluation": round(t_coq - t_impl, 1),
                               "text_tie": round(time.time() - t_coq, 1)})
    seedset = set(SEEDS)
    env.note("differing_programs", {"runs": sum(differing.values()), "distinct_programs": len(differing),
                                     "of_them_generated": sum(1 for s in differing if s not in seedset),
                                     "generated_examples": [s for s in differing if s not in seedset][:8]})
    env.note("lazy_list_printed_with_unquoted_strings", unquoted)
    env.note("outcomes", dist)
    env.note("agreeing_runs_per_flag_set", flags_seen)
    env.note("agreeing_runs_per_construct", constructs)
    env.note("runs_per_element[agree, outside-domain]", {k: per_element.get(k, [0, 0]) for k in sorted(ELEMENT_SET)})
    # coverage fact, not an alarm: which elements (if any) had no agreeing run in this run (the full matrix runs in both tiers,
    # so this stays empty unless an element's every application is outside the model's domain or times out)
    env.note("core_elements_without_an_agreeing_run", sorted(k for k in ELEMENT_SET if per_element.get(k, [0, 0])[0] == 0))
    env.note("programs", {"seeds": len(SEEDS), "generated": len(generated), "max_depth": env.budget(3, 4), "fuel": FUEL})
    for s in SEEDS[:3] + generated[:5]:
        env.sample({"program": s})
    env.sample({"theorem": "C01_compile_correct: core_ok_list false p = true -> exec cf fuel false p s = eval cf fuel p s"})
    env.assume("CPython executes the emitted lines as Model/Machine.v says (the principal modelled-not-verified link; validated on every "
               "run by correspondence (1), and the emitted text itself by (3) against Model/Transpile.v)")
    env.assume("the semantics of the 94 core elements and of the 8 modifier bodies (Model/Values.v) is shared by both evaluators: its fidelity is "
               "checked by correspondence only; their template texts and arities are a proof obligation over the regenerated table (C01_templates)")
    env.assume("lazy evaluation: maps / filters / vectorised calls are evaluated eagerly in the model; where that could be observed (a lazily "
               "applied body that prints, reads or writes register / variables / input, or function values among the arguments) and where a "
               "function value reaches arithmetic, a test or a printer, the model answers EStuck and the run is not compared (counted in outcomes)")
    env.assume("string overloads in the model: + (concatenation, number<->text), - (dashes, remove), * (repeat, ring translate), N (swapcase, ASCII), "
               "› ‹ d ¬ = < > (text order by code point, number compared as its decimal text), J L h t f Ṙ ∑, M F ṡ v ƒ ɖ and for over the characters, "
               "truthiness = non-empty, printing raw at top level and back-quoted inside lists; string literals with escapes or non-ASCII text, † on a "
               "string (exec), F on two strings and J on two numbers are outside the model")
    env.assume("integers, strings and finite lists only (C13 covers the identification of finite lazy lists with lists); numbers below 10^40 when printed; "
               "ranges up to 5000; stdin empty; fuel 60 nesting levels / while iterations, out-of-fuel runs are not compared")
    env.assume("a function value as the condition of an if / the iterable of a for is outside BOTH models (EStuck): Structures.md says it is called "
               "first, the implementation takes it as true / raises TypeError -- known finding C01-function-valued-condition, asserted on the "
               "implementation directly by the documented-expectation oracle (DOCUMENTED), not through the models")
