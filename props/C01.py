"""C01 — structures execute as specified (transpiled program == reference semantics).

Deciding method: the theorem C01_compile_correct in coq/Properties/C01.v: for every program
tree of the core grammar (`core_ok`) the execution model of the EMITTED Python
(coq/Model/Machine.v, written beside Model/Transpile.tr line by line) and the documented
structure semantics (coq/Model/RefSem.v, no reference to emitted code, context / input scope
/ own stack as bracketing combinators) give the same outcome — stack, printed text,
variables, register, error, out-of-fuel — for every fuel, state, input list and flag set.
Ties, re-run against /repo on every check:
  (1) Machine vs the implementation: generated core programs x input lists x the nine flag
      sets; final stack, stdout, error class; `exec` is evaluated inside Coq;
  (2) the search oracle = the property as stated: RefSem (evaluated inside Coq) vs the real
      execute_vyxal on the same runs -> env.fail on a difference;
  (3) exact text of transpile() vs Model/Transpile.v on the same programs (vlib.transcorr);
  (4) proof obligation over the regenerated tables: the template text of every core element
      and modifier is the one the machine gives a meaning to (C01_templates).
"""
from __future__ import annotations

from vlib import common as V
from vlib import progs, transcorr

FLAGS = ["", "O", "o", "j", "s", "W", "H", "M", "m"]
FLAG_COQ = {"": "FlNone", "O": "FlO", "o": "Flo", "j": "Flj", "s": "Fls", "W": "FlW", "H": "FlH", "M": "FlM", "m": "Flm"}
FUEL = 60

PURE_ELEMENTS = list("+-*N›‹d¬=<>:D$_^!Ww\"JLhtfṘ∑n")
EFFECT_ELEMENTS = list(",…£¥?")
CALL_ELEMENTS = list("MF†")
MOD1 = list("v&~ßƒɖ")
MOD2 = list("₌₍")

PREAMBLE = ("From Coq Require Import List NArith ZArith Bool.\n"
            "From Vy Require Import Model.Base Model.Lexer Model.Parser Model.Values Model.Machine Model.RefSem.\n"
            "Import ListNotations.\nOpen Scope Z_scope.\n"
            "Definition vy_case (which : bool) (c : list N * flag * list value * nat * list value * list N) : nat :=\n"
            "  let '(src, fl, ins, e, st, o) := c in\n"
            "  match parse_source src with\n"
            "  | Ok p => if core_ok_list false p\n"
            f"            then compare_run (if which then run_machine fl {FUEL} ins p else run_ref fl {FUEL} ins p) e st o\n"
            "            else 5%nat\n"
            "  | _ => 6%nat end.\n")


# ----------------------------------------------------------------------------------------------
# generator of core programs
# ----------------------------------------------------------------------------------------------
class CoreGen(progs.ProgGen):
    """Programs of the C01 core grammar.  `indef` = inside a Python def (lambda, function,
    list item, modifier operand), where the core has no assignments."""

    def __init__(self, rng, max_items=4):
        super().__init__(rng, elements=PURE_ELEMENTS, with_break=False, max_items=max_items)
        self.names = ["a", "b"]
        self.fnames = ["f", "g"]

    def num(self):
        r = self.rng
        return str(r.choice([0, 1, 2, 3, 4, 5, 7, 10, 12, 25]))

    def atom(self, indef, pure):
        r = self.rng
        x = r.random()
        if x < 0.30:
            return self.num() + " "
        if x < 0.72:
            return r.choice(PURE_ELEMENTS)
        if x < 0.80 and not pure:
            return r.choice(EFFECT_ELEMENTS)
        if x < 0.86:
            return r.choice(CALL_ELEMENTS)
        if x < 0.93 and not pure:
            return "←" + r.choice(self.names) + " "
        if x < 0.97 and not pure and not indef:
            return "→" + r.choice(self.names) + " "
        if not pure:
            return "@" + r.choice(self.fnames) + ";"
        return r.choice(PURE_ELEMENTS)

    def seq(self, d, indef, pure, lo=0):
        return "".join(self.item(d, indef, pure) for _ in range(self.rng.randrange(lo, self.max_items + 1)))

    def single(self, d, indef=True, pure=False):
        """exactly one structure (a modifier operand)"""
        r = self.rng
        if d <= 0 or r.random() < 0.55:
            x = r.random()
            if x < 0.75:
                return r.choice(PURE_ELEMENTS + ["M", "†"])
            if x < 0.85 and not pure:
                return r.choice(EFFECT_ELEMENTS)
            return self.num() + " "
        return self.structure(d, True, pure)

    def item(self, d, indef, pure):
        r = self.rng
        x = r.random()
        if d <= 0 or x < 0.62:
            return self.atom(indef, pure)
        if x < 0.90:
            return self.structure(d, indef, pure)
        return self.modified(d, pure)

    def modified(self, d, pure):
        r = self.rng
        k = r.random()
        if k < 0.55:
            m = r.choice(MOD1)
            if pure and m == "&":
                m = "v"
            lazy = m in "vɖ~"
            return m + self.single(d - 1, True, pure or lazy)
        if k < 0.75:
            return r.choice(MOD2) + self.single(d - 1, True, pure) + self.single(d - 1, True, pure)
        if k < 0.88:
            return "⁽" + self.single(d - 1, True, pure)
        if k < 0.96:
            return "‡" + self.single(d - 1, True, pure) + self.single(d - 1, True, pure)
        return "≬" + self.single(d - 1, True, pure) + self.single(d - 1, True, pure) + self.single(d - 1, True, pure)

    def structure(self, d, indef, pure):
        r = self.rng
        k = r.randrange(13)
        b = lambda i=indef, p=pure, lo=0: self.seq(d - 1, i, p, lo)  # noqa: E731
        if k in (0, 1):
            out = "[" + b()
            for _ in range(r.choice([0, 1, 1, 1, 2, 3])):
                out += "|" + b()
            return out + "]"
        if k in (2, 3):
            out = "("
            if r.random() < 0.3 and not indef and not pure:
                out += r.choice(["i", "a"]) + "|"
            return out + b() + ")"
        if k == 4:
            # while loops: mostly counting-down shapes so that they terminate
            x = r.random()
            if x < 0.6:
                return "{:|" + b() + "‹}"
            if x < 0.8:
                return "{" + b(lo=1) + "|" + b() + "}"
            return "{:0>|" + b() + "‹}"
        if k in (5, 6):
            out = "λ"
            if r.random() < 0.5:
                out += str(r.choice([0, 1, 1, 2, 2, 3])) + "|"
            return out + b(True, pure) + ";"
        if k == 7:
            return "ƛ" + b(True, True) + ";"
        if k == 8:
            return "'" + b(True, True) + ";"
        if k in (9, 10):
            out = "⟨" + b(True, pure)
            for _ in range(r.choice([0, 1, 1, 2])):
                out += "|" + b(True, pure)
            return out + "⟩"
        if k == 11 and not indef and not pure:
            name = r.choice(self.fnames)
            params = r.choice(["", ":1", ":2", ":1:1", ":0", ":3"])
            return "@" + name + params + "|" + b(True, False) + ";"
        if not pure:
            return "@" + r.choice(self.fnames) + ";"
        return "ƛ" + b(True, True) + ";"

    def program(self, depth=3):
        return self.seq(depth, False, False, 1)


SEEDS = [
    # FizzBuzz-like: nested lambda in for in if
    "5(n2<[n|nλ›;†],)", "3(n λ2|+;†,)", "1 2 λ2|-;†", "3 4 λ0|n;†", "λ3|W;†", "1 λ3|W;†", "3 ƛn›;", "⟨1|2|3⟩ ƛd;", "5 '2<;",
    "1 2 3 ⟨!|+|⟩", "⟨1||2⟩", "1 ⟨||2⟩", "3(n,)", "3(i|←i,)←i", "⟨4|5⟩(n)", "0[1|2]", "⟨⟩[1|2]", "0[1|0|2|3]", "0[1|0|2]",
    "3 {:|:,‹}", "@f:2|W;1 2 3 @f;", "@f:1:1|W;1 2 3 @f;", "@f|5 6;@f;W", "@f:1|n;7@f;", "@g;", "←a", "4→a ←a ←a",
    "@f:2|+;←f 3 4 ⟨5⟩ M", "3 4 ←f†", "1 2 3 v›", "⟨1|2⟩ 3 v+", "12 3 v+", "5 &›¥", "1 2 &+ ¥", "1 2 ~+", "5 ~2<", "1 ß5", "0 ß5",
    "⟨1|2|3⟩ ƒ+", "123 ƒ+", "⟨1|2|3⟩ ɖ+", "3 4 ₌+-", "3 4 ₍+-", "3 ⁽›M", "3 ‡›dM", "3 ≬›d‹M", "⟨⟩ƒ+", "⟨⟩ɖ+", "5 λ£;† ¥",
    "3(n) W", "2(3(n)) W", "3 ƛ2(n)W;", "⟨1|2⟩(n ƛn;) W", "5 λ:[n|0];†", "?? +", "? λ?;†", "λ2|;†", "2 λ λn;† ;†",
    "@f:1|:[‹@f;];3@f;W", "3→a {←a|←a, ←a‹→a}", "1 2 3 ^ W", "3 4 $ W", "1 : D W", "⟨⟨1|2⟩|3⟩ f ∑", "120 Ṙ", "⟨1|2⟩ 3 J 4 J L",
    "10 λ2|n;†", "1 2 λ2|n W;†", "3 4 @f:2|n;@f;", "@f:2|!;1@f;", "@f:0|n;@f;", "λ0|!;†", "3 λ0|?;†", "⟨?|?⟩", "5 ƛ⟨n|n⟩;",
]


# ----------------------------------------------------------------------------------------------
# implementation side
# ----------------------------------------------------------------------------------------------
ERR_CODE = {None: 0, "NameError": 1, "UnboundLocalError": 1, "IndexError": 2}


def impl_run(item):
    """(src, inputs as strings, flag) -> (error code, stack canonical bottom first, stdout)"""
    src, inputs, flag = item
    from vlib import runprog
    r = runprog.run(src, list(inputs), flag)
    err = r["error"]
    code = ERR_CODE.get(err, 9)
    return (code, r["stack"] if code == 0 else [], r["out"], err)


def enc_value(v):
    """canonical value of vlib.runprog -> Coq `value`; None when it is outside int/list/function"""
    if v[0] == "int":
        return f"VInt ({v[1]})"
    if v[0] == "list":
        parts = [enc_value(x) for x in v[1]]
        if any(p is None for p in parts):
            return None
        return "VList [" + "; ".join(parts) + "]"
    if v[0] == "fun":
        return "a_fun"
    return None


def enc_input(s):
    import ast
    v = ast.literal_eval(s)

    def go(x):
        if isinstance(x, int):
            return f"VInt ({x})"
        return "VList [" + "; ".join(go(y) for y in x) + "]"
    return go(v)


def case_coq(src, flag, inputs, code, stack, out):
    st = "[" + "; ".join(stack) + "]" if stack else "([] : list value)"
    ins = "[" + "; ".join(enc_input(i) for i in inputs) + "]" if inputs else "([] : list value)"
    return f"({V.cstr(src)}, {FLAG_COQ[flag]}, {ins}, {code}%nat, {st}, {V.cstr(out)})"


def coq_codes(env_or_prop, name, cases, which, shard=150, timeout=900):
    """Evaluate the model (which=True: Machine, False: RefSem) on the cases inside Coq.
    Returns (list of outcome codes or None per case, logs)."""
    prop = env_or_prop if isinstance(env_or_prop, str) else env_or_prop.prop
    files = []
    spans = []
    for lo in range(0, len(cases), shard):
        hi = min(len(cases), lo + shard)
        text = (PREAMBLE + "Definition vy_cases := [" + ";\n".join(case_coq(*c) for c in cases[lo:hi]) + "].\n"
                + f"Eval vm_compute in (map (vy_case {'true' if which else 'false'}) vy_cases).\n")
        files.append((f"{name}_{lo}", text))
        spans.append((lo, hi))
    res = V.coq_eval_many(prop, files, timeout)
    codes = [None] * len(cases)
    logs = []
    for (fname, _), (ok, out), (lo, hi) in zip(files, res, spans):
        vals = V.parse_nat_list(out) if ok else None
        if vals is None or len(vals) != hi - lo:
            logs.append(f"{fname}: {out[-1500:]}")
            continue
        codes[lo:hi] = vals
    return codes, logs
