"""C19 — online mode contains the program: no host output, no evaluation of user text.

Deciding method: theorems in coq/Properties/C19.v — (i) soundness of the syntactic guard
check on path conditions and the sweep of the sink table regenerated from /repo/vyxal/*.py
by tools/gen_sinks.py (every print / eval / exec / compile / input call site is guarded by
`not online` or is one of the entries listed and justified in Model/Online.v), (ii) the
effect-trace models of vy_eval, vy_print / LazyList.output, function_call's string
overload, vy_exec and execute_vyxal's input parsing / error capture.  The models are tied
to the implementation by the correspondence below (the model is evaluated inside Coq on
the cases the implementation ran).  The oracle states the property directly on the
implementation: real runs of execute_vyxal(..., online_mode=True) under an interpreter
audit hook with the host's stdout captured.  Host-level effects are OBSERVED, not proved:
the claim is partial there."""
from __future__ import annotations

import ast
import builtins
import contextlib
import io
import os
import sys

from vlib import common as V
from vlib import progs as PG

MARK = "VYTAINT"
# Python expressions with a visible side effect (or at least a visible value) that a
# hostile user would paste; none contains a backtick (they are also used as Vyxal strings)
PAYLOADS = [
    "__import__('os').system('echo VYTAINT')",
    "print('VYTAINT')",
    "1+1",
    "VYTAINT_probe(1)",
    "open('/tmp/VYTAINT_file','w')",
    "[VYTAINT_x for VYTAINT_x in (1,)]",
    "exec(\"print('VYTAINT')\")",
    "(lambda: print('VYTAINT'))()",
    "__import__('subprocess').Popen(['echo','VYTAINT'])",
    "len('VYTAINT')",
]
LITERALS = ["12", "-3", "[1, 2]", "'VYTAINT'", "\"abc\"", "3.5", "(1, 2)", "[[1], 'x']", "0"]
PRINTERS = [",", "…", "₴", "¨,", "¨…"]
# every kind of valid Python literal that is not (directly) a Vyxal value, and the
# lexical edge cases of literals; input parsing must read each as a value or keep it as
# the string it is -- it has no try/except around it in execute_vyxal
ODD_LITERALS = [
    "None", "...", "Ellipsis", "True", "False", "b'x'", "b''", "{1, 2}", "{1: 2}", "{}", "set()", "frozenset()", "(1, 2)", "()", "(1,)",
    "[1, None]", "[None]", "(None,)", "{None}", "[...]", "[Ellipsis]", "[True]", "[(1, 2), {3}]", "[1, [2, (3, {4: b'5'})]]", "{'a': [1]}", "[b'x', 'y']",
    "1j", "1+2j", "[1j]", "9" * 60, "-" + "9" * 45, "1e400", "-1e400", "1e309", "[1e400]", "1e-400", "nan", "inf", "-inf", "[nan]", "0x10", "0b11", "0o7", "1_000", "-0", "+3", "- 3", "1.", ".5", "1e3",
    "'it''s'", "'a\\'b'", "\"a\\nb\"", "'\\x00'", "'`'", "'\\\\'", "''", "\"\"", "' '", " ", "   ", "  12", "12  ", "\t5", "[]", "[[]]", "[ ]", "[1,", "(", "'unterminated", "[1, 2]]", "1 2", "None None",
]

WATCHED = {"compile", "exec", "builtins.input", "os.system", "subprocess.Popen", "open", "urllib.Request",
           "os.exec", "os.posix_spawn", "os.spawn", "os.fork"}
BLOCKED = {"os.system", "subprocess.Popen", "urllib.Request", "os.exec", "os.posix_spawn", "os.spawn", "os.fork"}

_ST = {"armed": False, "busy": False, "events": [], "installed": False, "texts": (), "cores": ()}
RUN_SECONDS = 3.0
CORR_SECONDS = 30.0   # correspondence cases are small; this only matters on an overloaded machine
MAX_EVENTS = 20000   # per run; a program that loops on input()/print keeps only the first ones
# identifiers the TRANSPILER makes out of a variable / function name of the Vyxal program
# (the characters it keeps are property C18's concern): not user text run as Python
GENERATED_NAME_PREFIXES = ("VAR_", "FN_", "_lambda_")
IN_SCOPE_FUNCTIONS = {"vy_eval", "function_call", "exp2_or_eval", "get_input"}
_AST_FILE = os.path.normcase(os.path.realpath(ast.__file__))


class Blocked(RuntimeError):
    pass


def nospace(x):
    """text with all white space removed: sympy's parser re-spaces the tokens it is given"""
    return "".join(x.split())


def sweep_sentinels():
    """Side effects a payload can have that raise no audit event: names left behind in
    os.environ / builtins / sys.modules.  Returns them and removes them."""
    found = []
    for where, d in (("os.environ", os.environ), ("builtins", builtins.__dict__), ("sys.modules", sys.modules)):
        for k in [k for k in list(d) if isinstance(k, str) and MARK in k]:
            found.append((where, k))
            try:
                del d[k]
            except Exception:  # noqa: BLE001
                pass
    return found


class HardTimeout(BaseException):
    """raised by the run's own repeating alarm: not an Exception, so neither execute_vyxal's
    `except Exception` nor get_input's can swallow it (the framework's one-shot Timeout can be)"""


def _hard_alarm(signum, frame):
    if _ST.get("deadline"):
        raise HardTimeout()


def with_deadline(seconds, fn, *args, **kw):
    """fn(*args) under a repeating SIGALRM; returns (timed_out, result)"""
    import signal
    old = signal.signal(signal.SIGALRM, _hard_alarm)
    _ST["deadline"] = True
    signal.setitimer(signal.ITIMER_REAL, seconds, 0.25)
    try:
        return False, fn(*args, **kw)
    except HardTimeout:
        _ST["deadline"] = False
        return True, None
    finally:
        _ST["deadline"] = False
        signal.setitimer(signal.ITIMER_REAL, 0)
        signal.signal(signal.SIGALRM, old)


def _hook(event, args):
    st = _ST
    if not st["armed"] or st["busy"] or event not in WATCHED:
        return
    ev = st["events"]
    if len(ev) >= MAX_EVENTS and event not in BLOCKED:
        st["dropped"] = st.get("dropped", 0) + 1
        return
    st["busy"] = True
    try:
        if event == "compile":
            src = args[0]
            f1 = sys._getframe(1)
            f2 = f1.f_back
            parse_only = f1.f_code.co_name == "parse" and os.path.normcase(os.path.realpath(f1.f_code.co_filename)) == _AST_FILE
            if isinstance(src, (bytes, bytearray, memoryview)):
                try:
                    src = bytes(src).decode("utf-8", "replace")
                except Exception:  # noqa: BLE001
                    src = repr(src)
            elif isinstance(src, ast.AST):
                try:
                    src = ast.unparse(src)
                except Exception:  # noqa: BLE001
                    src = ast.dump(src)
                parse_only = False
            elif src is None:
                # a code object compiled from an AST (compile(ast_obj,...)): audit gives None
                src = ""
            caller = f1 if not parse_only else f2
            src = str(src)
            chain = ()
            if not parse_only and (MARK in src or any(t in src for t in st["texts"])):
                # which of the package's functions is this compile() working for?
                names, f, n = [], f1, 0
                while f is not None and n < 60:
                    if (os.sep + "vyxal" + os.sep) in f.f_code.co_filename:
                        names.append(f.f_code.co_name)
                    f, n = f.f_back, n + 1
                chain = tuple(names)
            ev.append(("compile", src, bool(parse_only),
                       f1.f_code.co_name, f2.f_code.co_name if f2 is not None else "",
                       caller.f_code.co_filename if caller is not None else "", chain))
        elif event == "exec":
            co = args[0]
            names = []
            stack = [co]
            while stack:
                c = stack.pop()
                if hasattr(c, "co_names"):
                    names += list(c.co_names) + list(c.co_varnames) + list(c.co_freevars) + list(c.co_cellvars)
                    stack += [k for k in c.co_consts if hasattr(k, "co_names")]
            ev.append(("exec", getattr(co, "co_filename", ""),
                       [n for n in names if MARK in n and not n.startswith(GENERATED_NAME_PREFIXES)], sys._getframe(1).f_code.co_filename))
        elif event == "builtins.input":
            ev.append(("input", repr(args[0]) if args else ""))
        elif event == "open":
            ev.append(("open", repr(args[0])[:200], repr(args[1]) if len(args) > 1 else ""))
            if MARK in repr(args[0]):
                raise Blocked("C19 harness: host effect blocked: open")
        else:
            ev.append(("side", event, " ".join(repr(a)[:200] for a in args)))
            if event in BLOCKED:
                raise Blocked("C19 harness: host effect blocked: " + event)
    finally:
        st["busy"] = False


def ensure_hook():
    if not _ST["installed"]:
        sys.addaudithook(_hook)
        _ST["installed"] = True


class RecDict(dict):
    """the caller's output record; every write is an event"""

    def __setitem__(self, k, v):
        old = self.get(k, "")
        if _ST["armed"] and len(_ST["events"]) < MAX_EVENTS:
            _ST["events"].append(("out", k, v[len(old):] if isinstance(v, str) and isinstance(old, str) and v.startswith(old) else v))
        dict.__setitem__(self, k, v)


_MAIN_INFO = {}


def main_info():
    """line ranges of the try statements of execute_vyxal (from the file actually loaded)"""
    import vyxal.main as M
    if not _MAIN_INFO:
        with open(M.__file__, encoding="utf-8") as f:
            tree = ast.parse(f.read())
        fn = next(n for n in tree.body if isinstance(n, ast.FunctionDef) and n.name == "execute_vyxal")
        tries = [(n.lineno, n.end_lineno) for n in fn.body if isinstance(n, ast.Try)]
        _MAIN_INFO["tries"] = tries
        _MAIN_INFO["fn"] = (fn.lineno, fn.end_lineno)
    return _MAIN_INFO


def where_raised(exc):
    """pre | try | post (relative to the try statements of execute_vyxal) | outside"""
    import vyxal.main as M
    tb = exc.__traceback__
    line = None
    while tb is not None:
        if tb.tb_frame.f_code is M.execute_vyxal.__code__:
            line = tb.tb_lineno
        tb = tb.tb_next
    if line is None:
        return "outside"
    tries = main_info()["tries"]
    if not tries:
        return "post"
    for lo, hi in tries:
        if lo <= line <= hi:
            return "try"
    if line > tries[-1][1]:
        return "post"
    return "pre"


def run_impl(prog, inputs, flags, online, count_prints=False, texts=(), cores=()):
    """One real run of execute_vyxal.  Returns the observation record (never raises)."""
    _ST["cores"] = tuple(nospace(c) for c in cores)
    sweep_sentinels()
    _ST["texts"] = tuple(t for t in texts if len(t.strip()) >= 2 and (MARK in t or not is_plain_literal(t.strip())))
    import vyxal.main as M
    ensure_hook()
    out = RecDict()
    dict.__setitem__(out, 1, "")
    dict.__setitem__(out, 2, "")
    buf = io.StringIO()
    err, where, msg = None, None, ""
    _ST["events"] = []
    real_print = builtins.print

    def counting_print(*a, **k):
        if _ST["armed"] and k.get("file") is None and len(_ST["events"]) < MAX_EVENTS:
            _ST["events"].append(("print",))
        return real_print(*a, **k)

    if count_prints:
        builtins.print = counting_print
    _ST["armed"] = True
    try:
        with contextlib.redirect_stdout(buf):
            if online:
                M.execute_vyxal(prog, flags + "e", "\n".join(inputs), out, True)
            else:
                M.execute_vyxal(prog, flags + "e", list(inputs))
    except SystemExit:
        err = "SystemExit"
    except (V.Timeout, HardTimeout):
        _ST["armed"] = False
        builtins.print = real_print
        raise
    except BaseException as e:  # noqa: BLE001
        err = type(e).__name__
        msg = str(e)[:200]
        try:
            where = where_raised(e)
        except Exception:  # noqa: BLE001
            where = "outside"
    finally:
        _ST["armed"] = False
        builtins.print = real_print
    for where_, key in sweep_sentinels():
        _ST["events"].append(("sentinel", where_, key))
    return {"host": buf.getvalue(), "out1": out[1], "out2": out[2], "err": err, "where": where, "msg": msg,
            "events": _ST["events"]}


# ----------------------------------------------------------------------------
# judging one observation (the oracle)
# ----------------------------------------------------------------------------

def str_constants(src):
    """string constants of a Python source (None when it does not parse)"""
    for mode in ("exec", "eval"):
        try:
            tree = ast.parse(src, mode=mode)
        except (SyntaxError, ValueError, RecursionError, MemoryError):
            continue
        return [n.value for n in ast.walk(tree) if isinstance(n, ast.Constant) and isinstance(n.value, str)]
    return None


def is_plain_literal(t):
    try:
        ast.literal_eval(t)
        return True
    except Exception:  # noqa: BLE001
        return False


def compiled_user_text(src, texts, cores=()):
    """Is one of the user's texts compiled as CODE by this source, i.e. does it occur in it
    outside every string constant?  (The transpiled program legitimately contains the
    user's strings as constants.)"""
    s = src.strip()
    for t in texts:
        ts = t.strip()
        if len(ts) < 2 or (MARK not in ts and is_plain_literal(ts)):
            continue
        if s == ts:
            return t
        if ts in src:
            consts = str_constants(src)
            if consts is None:
                # does not parse: nothing will run, but user text was handed to compile()
                return t if MARK in ts else None
            if not any(ts in c for c in consts):
                return t
    # the payload inside a larger text, re-spaced by a tokenizer on the way to compile()
    if cores and MARK in src:
        ns = nospace(src)
        for c in cores:
            nc = nospace(c)
            if nc in ns:
                consts = str_constants(src)
                if consts is None or not any(nc in nospace(k) for k in consts):
                    return c
    # the marker in identifier position
    if MARK in src:
        for mode in ("exec", "eval"):
            try:
                tree = ast.parse(src, mode=mode)
            except (SyntaxError, ValueError, RecursionError, MemoryError):
                continue
            for n in ast.walk(tree):
                for fld in ("id", "attr", "arg", "name"):
                    v = getattr(n, fld, None)
                    if isinstance(v, str) and MARK in v and not v.startswith(GENERATED_NAME_PREFIXES):
                        return v
            break
    return None


def judge(rec, texts, flags="", expect_raise=None, expect_out1=None, cores=()):
    """-> list of (cls, what).  The property, stated on the observation of one online run."""
    bad = []
    if rec["host"] != "":
        bad.append(("C19:host-stdout", f"host stdout received {rec['host'][:80]!r}"))
    ninput = 0
    for e in rec["events"]:
        if e[0] == "compile" and not e[2]:
            hit = compiled_user_text(e[1], texts, cores)
            if hit is not None and "sympy" in e[5] and not (set(e[6]) & IN_SCOPE_FUNCTIONS):
                bad.append(("NOTE:sympy-evaluates-text", f"user text {hit[:60]!r} reaches sympy's parser ({e[3]}): {e[1][:80]!r}"))
            elif hit is not None:
                bad.append(("C19:compile-user-text", f"user text {hit[:60]!r} compiled as Python by {e[3]} ({os.path.basename(e[5])}): {e[1][:80]!r}"))
        elif e[0] == "exec" and e[2]:
            bad.append(("C19:exec-user-text", f"code object with tainted names {e[2][:3]} executed"))
        elif e[0] == "sentinel":
            bad.append(("C19:host-side-effect", f"user text was executed: it left {e[2]!r} in {e[1]}"))
        elif e[0] == "side":
            bad.append(("C19:host-side-effect", f"audit event {e[1]} {e[2][:100]}"))
        elif e[0] == "open" and MARK in e[1]:
            bad.append(("C19:host-side-effect", f"open {e[1][:100]}"))
        elif e[0] == "input":
            ninput += 1
            if e[1] not in ("''", '""', ""):
                bad.append(("C19:host-stdout", f"input() prompt {e[1]!r} written to the host"))
    err = rec["err"]
    if err not in (None, "SystemExit"):
        bad.append(("C19:error-propagates", f"{err}: {rec['msg'][:80]} propagates out of execute_vyxal (raised {rec['where']} its try blocks); online_output[2] = {rec['out2'][-40:]!r}"))
    if err == "SystemExit" and "h" not in flags and "Q" not in texts and "Traceback" not in rec["out2"]:
        bad.append(("C19:exit-without-record", "sys.exit without an error report in online_output[2]"))
    if expect_raise is True and not (err == "SystemExit" and "Traceback" in rec["out2"]):
        bad.append(("C19:error-not-recorded", f"program raises; expected traceback in online_output[2] and SystemExit, got err={err} out2={rec['out2'][-60:]!r}"))
    if expect_raise is False and err is not None:
        bad.append(("C19:unexpected-error", f"err={err} {rec['msg'][:60]} out2={rec['out2'][-80:]!r}"))
    if expect_out1 is not None and rec["out1"] != expect_out1:
        bad.append(("C19:output-record", f"online_output[1] = {rec['out1'][:80]!r}, expected {expect_out1[:80]!r}"))
    return bad, ninput


def limit_memory():
    """safety net in the forked workers: a runaway program gets MemoryError, not the machine"""
    if not _ST.get("limited"):
        _ST["limited"] = True
        try:
            import resource
            soft, hard = resource.getrlimit(resource.RLIMIT_AS)
            want = 4 << 30
            if hard == resource.RLIM_INFINITY or want < hard:
                resource.setrlimit(resource.RLIMIT_AS, (want, hard))
        except Exception:  # noqa: BLE001
            pass


def oracle_case(case):
    """module-level worker: one online run judged; optional differential offline run"""
    V.import_repo()
    if case.get("limit"):
        limit_memory()
    prog, inputs, flags = case["prog"], case["inputs"], case["flags"]
    texts = list(case.get("texts", [])) + list(inputs)
    cores = case.get("cores", ())
    timed_out, rec = with_deadline(RUN_SECONDS, run_impl, prog, inputs, flags, True, texts=texts, cores=cores)
    if timed_out:
        return {"bad": [], "err": "timeout", "where": None, "ninput": 0, "nev": {}, "out1": "", "out2": False, "diff": None}
    bad, ninput = judge(rec, texts, flags, case.get("raises"), case.get("out1"), cores)
    diff = None
    if case.get("diff") and rec["err"] is None and len(rec["events"]) < MAX_EVENTS:
        # every print(...) of the offline run must be a write to the record online
        timed_out, off = with_deadline(RUN_SECONDS, run_impl, prog, inputs, flags, False, count_prints=True)
        if not timed_out and off["err"] is None and len(off["events"]) < MAX_EVENTS:
            n_off = sum(1 for e in off["events"] if e[0] == "print")
            n_on = sum(1 for e in rec["events"] if e[0] == "out" and e[1] == 1)
            diff = "same-text" if off["host"] == rec["out1"] else "same-count"
            if n_off != n_on:
                diff = "differs"
                bad.append(("C19:output-record", f"offline run makes {n_off} print() calls ({off['host'][:50]!r}) but the online run makes {n_on} writes to online_output[1] ({rec['out1'][:50]!r})"))
    nev = {}
    for e in rec["events"]:
        k = e[0] + ("-parse" if e[0] == "compile" and e[2] else "")
        nev[k] = nev.get(k, 0) + 1
    return {"bad": bad, "err": rec["err"], "where": rec["where"], "ninput": ninput, "nev": nev,
            "out1": rec["out1"][:80], "out2": bool(rec["out2"]), "diff": diff}


# ----------------------------------------------------------------------------
# programs
# ----------------------------------------------------------------------------

def vy_string(s):
    return "`" + s + "`"


def fixed_cases():
    cs = []

    def add(prog, inputs=(), flags="", texts=(), **kw):
        cs.append({"prog": prog, "inputs": list(inputs), "flags": flags, "texts": list(texts), **kw})

    # every printing element on a scalar, a list, a lazy list, a function; with expectations
    add("1,", out1="1\n", raises=False)
    add("`ab`,", out1="ab\n", raises=False)
    add("1…", out1="1\n", raises=False)
    add("1₴", out1="1", raises=False)
    add("1¨,", out1="1 ", raises=False)
    add("1¨…", out1="1 ", raises=False)
    add("3ɾ,", out1="⟨ 1 | 2 | 3 ⟩\n", raises=False)
    add("3ɾ…_", out1="⟨ 1 | 2 | 3 ⟩\n", raises=False)
    add("3ɾ₴", out1="⟨ 1 | 2 | 3 ⟩", raises=False)
    add("3ɾ¨,", out1="⟨ 1 | 2 | 3 ⟩ ", raises=False)
    add("⟨1|2⟩,", out1="⟨ 1 | 2 ⟩\n", raises=False)
    add("⟨1|`a`⟩₴", out1="⟨ 1 | `a` ⟩", raises=False)
    add("λ7;,", raises=False)
    add("3ɾ:h_,", out1="⟨ 1 | 2 | 3 ⟩\n", raises=False)
    add("3ɾ2ɾ\",", raises=False)
    add("7", out1="7\n", raises=False)                      # implicit output
    add("3ɾ", out1="⟨ 1 | 2 | 3 ⟩\n", raises=False)
    add("1,2", out1="1\n", raises=False)                    # printed: no implicit output
    add("1,2", flags="o", out1="1\n2\n", raises=False)
    add("7", flags="O", out1="", raises=False)
    for fl, exp in (("j", "1\n2\n3\n"), ("S", "1 2 3\n"), ("s", "6\n"), ("d", "6\n"), ("l", "3\n"), ("G", "3\n"), ("g", "1\n"),
                    ("…", None), ("P", "[1, 2, 3]\n")):
        add("3ɾ", flags=fl, out1=exp, raises=False)
    add("⟨`ab`|`c`⟩", flags="L", raises=False)
    add("⟨`ab`|`c`⟩", flags="C", raises=False)
    for fl, exp in (("W", "⟨ 1 | 2 | 3 ⟩\n"), ("J", "1\n2\n3\n"), ("ṡ", "1 2 3\n"), ("Ṫ", "6\n")):
        add("1 2 3", flags=fl, out1=exp, raises=False)
    add("1", flags="c", out1="1\n", raises=False)
    add("1", flags="h")
    add("3ɾ(n,)", out1="1\n2\n3\n", raises=False)
    add("1 2 3W,", raises=False)
    # E, dagger, E-dot on tainted strings; printing them; vectorised
    for p in PAYLOADS + LITERALS:
        s = vy_string(p)
        add(s + "E", texts=[p], raises=False)
        add(s + "E,", texts=[p], raises=False)
        add(s + "†", texts=[p], raises=False)
        add(s + "†,", texts=[p], raises=False)
        add(s + "Ė", texts=[p])
        add(s + ",", texts=[p], out1=p + "\n", raises=False)
        add("⟨" + s + "|" + s + "⟩E,", texts=[p], raises=False)
        add(s + "E" + "E", texts=[p])      # 2 ** n: `-3`EE is a float whose printing raises (recorded)
        add(s + "wE", texts=[p], raises=False)
        add("λ" + s + "E;†", texts=[p], raises=False)
        add(s + "λE;†,", texts=[p], raises=False)
        add(s + "vE", texts=[p], raises=False)
        add(s + "E", flags="j", texts=[p], raises=False)
        # inputs carrying the same text
        for prog in ("?", "?,", "?E", "?E,", "?†", "?Ė", ",", "E", "†", "?…E", "□,", "?₴?¨,", "λE;†"):
            add(prog, inputs=[p], texts=[p])
        add("?,", inputs=[p], flags="a", texts=[p])
        add("?,", inputs=[p], flags="Ṡ", texts=[p], out1=p + "\n", raises=False)
        add("?,?,", inputs=[p, "7"], texts=[p], raises=False)
    for p in PAYLOADS:
        # a non-literal is kept as the string it is
        add(vy_string(p) + "E,", texts=[p], out1=p + "\n", raises=False)
        add("?,", inputs=[p], texts=[p], out1=p + "\n", raises=False)
        add("?E,", inputs=[p], texts=[p], out1=p + "\n", raises=False)
    # valid Python literals that are not Vyxal values, as inputs: alone and mixed with
    # ordinary inputs, read explicitly, implicitly and through E.  Nothing may escape.
    for t in ODD_LITERALS:
        big = False
        try:
            v = ast.literal_eval(t)
            big = isinstance(v, int) and not isinstance(v, bool) and abs(v) > 64
        except Exception:  # noqa: BLE001
            pass
        progs = ["?", "?,", ",", "?…_", "?:,"] + ([] if big else ["?E", "?E,", "E"])
        for prog in progs:
            add(prog, inputs=[t], texts=[t], odd=True)
        add("?,?,?,", inputs=["7", t, "'abc'"], texts=[t], odd=True)
        add("?,?,", inputs=[t, "[1, 2]"], texts=[t], odd=True)
        add("1,", inputs=[t], texts=[t], out1="1\n", raises=False, odd=True)     # parsed even when never read
        add("?,", inputs=[t], flags="a", texts=[t], odd=True)
        add("?,", inputs=[t], flags="Ṡ", texts=[t], out1=(t + "\n") if t.strip() else None, raises=False, odd=True)
        if "`" not in t and "\\" not in t and not big:
            add(vy_string(t) + "E,", texts=[t], odd=True)
    add("?,?,", inputs=["7", ""], texts=[], out1="7\n\n", raises=False, odd=True)      # an empty input line stays ''
    add("?,?,", inputs=["", "7"], texts=[], odd=True)
    add("`12`E,", out1="12\n", raises=False)
    add("`[1, 2]`E,", out1="⟨ 1 | 2 ⟩\n", raises=False)
    add("?,", inputs=["[1, 2]"], out1="⟨ 1 | 2 ⟩\n", raises=False)
    add("?,", inputs=["'VYTAINT'"], out1="VYTAINT\n", raises=False)
    add("?,?,", inputs=["12", "\"abc\""], out1="12\nabc\n", raises=False)
    # programs that raise: the error lands in the record, SystemExit follows
    for prog in ("`abc`λ1;/", "←x", "1,`abc`λ1;/", "3ɾ,←x", "@", "`a`,←zz 5", "λ|", "ßß", "1,λ|", "@:"):
        add(prog, raises=True)
    add("1,`abc`λ1;/", raises=True, out1="1\n")
    add("?,←x", inputs=[PAYLOADS[1]], texts=[PAYLOADS[1]], raises=True, out1=PAYLOADS[1] + "\n")
    add("`abc`λ1;/", flags="c", raises=True)
    # errors raised by the flag post-processing / the implicit output (after the body's try):
    # recorded like any other, whatever was printed before stays in the record
    add("kn", raises=True, out1="")
    add("λ`a`λ1;/;", raises=True, out1="")
    add("3ɾƛ`a`λ1;/;", raises=True, out1="⟨ ")
    add("1 kn", raises=True)
    add("1,kn", flags="o", raises=True, out1="1\n")
    add("kn", flags="j", raises=True)
    add("3ɾ", flags="L", raises=True)
    add("3ɾ", flags="C", raises=True)
    add("`-3`EE", raises=True)
    add("?E", inputs=["-3"], raises=True)
    add("?Ė", inputs=["[[1], 'x']"], raises=True)
    return cs



# ----------------------------------------------------------------------------
# tainted texts in literal-looking contexts
# ----------------------------------------------------------------------------
# A guard that decides "this text is harmless, hand it to an evaluator" looks at how the
# text BEGINS or what it is MADE OF.  So every side-effect payload is wrapped:
#     prefix  joiner  payload  suffix
# with prefixes that look like every kind of literal (and lexical variants of them),
# joiners that continue an expression / statement after such a literal, and suffixes.
SENTINEL_PAYLOADS = [
    "__import__('os').environ.__setitem__('VYTAINT','x')",          # no audit event: found in os.environ afterwards
    "__import__('builtins').__dict__.__setitem__('VYTAINT_B',1)",   # found in builtins afterwards
    "print('VYTAINT')",                                             # host stdout
    "__import__('os').system('echo VYTAINT')",                      # audit event os.system (blocked)
    "open('/tmp/VYTAINT_file','w')",                                # audit event open (blocked)
    "VYTAINT_probe(1)",                                             # a tainted NAME in the compiled code
]
CTX_PREFIXES = [
    "1", "0", "-1", "+7", "12345678901234567890", "1/2", "-22/7", "+3 / 4", "1 /2", "1/ 2", "10/5", "1//2", "1%2", "1**2",
    "0.5", "-.5", "1.", "1e3", "2E-2", "-1.5e+3", "1j", "1+2j", "0x1f", "0b101", "0o17", "1_000",
    "'a'", "\"a\"", "\"\"\"a\"\"\"", "b'a'", "f'a'", "''", "[1", "[1, 2]", "[", "(1", "(1, 2)", "(", "{1: 2", "{1", "{1: 2}", "{",
    "True", "False", "None", "...", "-", "+", "~1", "not 1", "x", "_", "lambda: 1", "1 if 1 else 2", "1,", "1, 2", "[]", "()", "{}",
    " 1/2", "\t1/2", "1/2 ", "  7", "1/2#c", "1/2\\", "(1/2)", "[1/2]", "- 1/2", "1 2", "1/2/3", "22/7.0", "1/0",
]
CTX_JOINERS = [
    "+", "-", "*", "/", "//", "%", "**", ",", ", ", ";", "; ", " if ", " else ", " if 1 else ", " and ", " or ", " for _ in ", " in ", " is ",
    "==", "<", "|", "&", "^", "@", ".real+", ".__class__+", "[0]+", "()+", "(", "[", ".", " ", "  ", "\t", "\n", "#\n", ":", "=", ":=",
    "]+", ")+", "}+", "]", ")", "}", "],", "),", "",
]
CTX_SUFFIXES = ["", "", "", " ", ")", "]", "}", "#x", ";1", " or 1", "+1/2", ",1", "\n1", " if 1 else 2"]


def context_text(prefix, joiner, core, suffix):
    return prefix + joiner + core + suffix


def context_cases(rng, thorough):
    """every prefix x joiner (payload and suffix drawn per pair), each through evaluation
    sinks in rotation: explicit / implicit input, input then E, E on a string literal,
    vectorised E, the call element, E-dot, input flags"""
    cases = []
    n = 0
    for pre in CTX_PREFIXES:
        for j in CTX_JOINERS:
            core = rng.choice(SENTINEL_PAYLOADS)
            t = context_text(pre, j, core, rng.choice(CTX_SUFFIXES))
            lit_ok = "`" not in t and "\\" not in t
            one_line = "\n" not in t
            sinks = []
            # (program, inputs, flags, expected record[1] or None)
            sinks.append(("?,", [t], "", (t + "\n") if one_line else None))
            sinks.append(("?E,", [t], "", (t + "\n") if one_line else None))
            sinks.append((",", [t], "", (t + "\n") if one_line else None))
            sinks.append(("?,?,", ["7", t], "", ("7\n" + t + "\n") if one_line else None))
            sinks.append(("?,", [t], rng.choice(["a", "ḋ", "j", "Ṡ", "ḋa"]), None))
            if lit_ok:
                sinks.append((vy_string(t) + "E,", [], "", t + "\n"))
                sinks.append(("⟨" + vy_string(t) + "|" + vy_string(t) + "⟩E,", [], "", None))
                sinks.append((vy_string(t) + "†", [], "", None))
                sinks.append((vy_string(t) + "wvE,", [], "", None))
                if n % 7 == 0:
                    sinks.append((vy_string(t) + "Ė", [], "", None))
            k = min(5, len(sinks)) if thorough else 2
            for i in range(k):
                prog, inputs, flags, exp = sinks[(n + i * 3) % len(sinks)]
                cases.append({"prog": prog, "inputs": inputs, "flags": flags, "texts": [t], "cores": [core], "out1": exp,
                              "limit": True, "ctx": (pre, j)})
            n += 1
    return cases


# ----------------------------------------------------------------------------
# flags x scalar kinds x printing elements
# ----------------------------------------------------------------------------
SCALAR_KINDS = [
    ("int", "5"), ("negative", "5N"), ("rational", "1 3/"), ("decimal literal", "0.25"), ("irrational", "2√"), ("sum with irrational", "1 3/2√+"),
    ("python float", "`-3`EE"), ("complex", "`1j`E"), ("complex sum", "`1+2j`E"), ("big int", "10 30e"), ("string", "`ab`"), ("numeric string", "`1/3`"),
    ("function", "λ1 3/;"), ("list", "⟨1 3/|2√|`a`⟩"), ("lazy list", "3ɾ3/"), ("nested", "⟨⟨1 3/⟩|3ɾ2/⟩"), ("evaluated input", "?"),
]
PRINT_FORMS = [",", "…_", "₴", "¨,", "¨…_", "", ":,,", "w,", "S,"]
FLAG_ALPHABET = "ḋjJWSsdlGgLCPṪṡoOaṠMmṀRrtD…H23?"


def flag_sets(rng, n):
    base = ["", "ḋ", "P", "j", "W", "ḋj", "ḋW", "ḋP", "ḋo", "ḋs", "ḋS", "ḋJ", "ḋl", "ḋṠ", "ḋa", "ḋO", "ḋr", "ḋt"]
    out = list(base)
    while len(out) < n:
        out.append("".join(rng.sample(FLAG_ALPHABET, rng.randrange(1, 4))))
    return out


def print_matrix_cases(rng, thorough):
    cases = []
    fsets = flag_sets(rng, 30 if thorough else 24)
    for kind, push in SCALAR_KINDS:
        for form in PRINT_FORMS:
            for fl in (fsets if thorough else fsets[:10] + rng.sample(fsets[10:], 4)):
                cases.append({"prog": push + form, "inputs": ["1/3", "0.5"] if push == "?" else ["7"], "flags": fl, "texts": [],
                              "diff": True, "limit": True, "matrix": kind})
    return cases


class TaintGen(PG.ProgGen):
    """core grammar + every printing element + E, dagger, E-dot; string literals carry a
    payload.  E is only ever emitted right after a string literal or an input read: E on a
    NUMBER is 2**n, and a chain of those is an uninterruptible big-integer power."""

    def tainted_string(self):
        r = self.rng
        if r.random() < 0.5:
            p = context_text(r.choice(CTX_PREFIXES), r.choice(CTX_JOINERS), r.choice(SENTINEL_PAYLOADS), r.choice(CTX_SUFFIXES))
            if "`" in p or "\\" in p:
                p = r.choice(PAYLOADS)
        else:
            p = r.choice(PAYLOADS + LITERALS)
        return [("`", PG.CODE), (p, PG.PAYLOAD, "string"), ("`", PG.CLOSER)]

    def literal(self):
        x = self.rng.random()
        if x < 0.4:
            return self.tainted_string()
        if x < 0.5:
            return [(self.rng.choice(["0.5", "2.25", ".1", "1 3/", "2√", "1 7/"]), PG.CODE), (" ", PG.CODE)]
        return super().literal()

    def element(self):
        r = self.rng
        x = r.random()
        if x < 0.22:
            src = self.tainted_string() if r.random() < 0.7 else [("?", PG.CODE)]
            return src + [(r.choice(["E", "E", "E,", "†", "Ė", "E" + r.choice(PRINTERS)]), PG.CODE)]
        return super().element()


def random_cases(rng, n, diff=False):
    if diff:
        elements = [e for e in PG.CORE_ELEMENTS if e not in "†?"] + PRINTERS * 2
    else:
        elements = PG.CORE_ELEMENTS + PRINTERS * 2 + ["†", "Ė", "?", "/", "/", "√", "I"]
    g = TaintGen(rng, elements=elements, with_break=True, with_functions=True, with_modifiers=True,
                 payload_chars=list("abz019 "), max_items=4) if not diff else PG.ProgGen(
        rng, elements=elements, payload_chars=list("abz019 "), max_items=4)
    out = []
    for _ in range(n):
        prog = PG.text(g.program(depth=rng.choice([1, 2, 2, 3])))
        if diff:
            inputs = [rng.choice(LITERALS) for _ in range(rng.randrange(0, 3))] or ["5"]
            flags = rng.choice(["", "", "j", "W", "J", "S", "o", "O", "ḋ", "ḋj", "P"])
            texts = []
        else:
            inputs = [rng.choice(PAYLOADS + LITERALS) if rng.random() < 0.5 else
                      context_text(rng.choice(CTX_PREFIXES), rng.choice(CTX_JOINERS), rng.choice(SENTINEL_PAYLOADS), rng.choice(CTX_SUFFIXES))
                      for _ in range(rng.randrange(0, 3))]
            flags = "" if rng.random() < 0.3 else "".join(rng.sample(FLAG_ALPHABET + "c", rng.randrange(1, 4)))
            texts = [p for p in PAYLOADS + LITERALS if p in prog]
        out.append({"prog": prog, "inputs": inputs, "flags": flags, "texts": texts, "diff": diff, "limit": True,
                    "cores": [] if diff else SENTINEL_PAYLOADS})
    return out


def called_names(text):
    try:
        tree = ast.parse(text)
    except (SyntaxError, ValueError):
        return set()
    out = set()
    for n in ast.walk(tree):
        if isinstance(n, ast.Call):
            if isinstance(n.func, ast.Name):
                out.add(n.func.id)
            elif isinstance(n.func, ast.Attribute):
                out.add(n.func.attr)
        elif isinstance(n, ast.Name):
            out.add(n.id)
    return out


SWEEP_PAYLOAD = "print('VYTAINT')"


def sweep_cases(env):
    """For EVERY element of the table whose implementation can call a function it is handed
    (derived from the sources: the element's template calls a function of the translator's
    `calls_user_function` closure -- safe_apply, or a call of a parameter, transitively --
    or calls a popped value itself) and every modifier: online programs that hand it a
    lambda that prints, applies E to a tainted string, applies the call element to one."""
    t = env.tables or {}
    user = set((t.get("gen_sinks") or {}).get("calls_user_function", {}))
    lambdas = [("print", "λ,;"), ("eval", "λ_" + vy_string(SWEEP_PAYLOAD) + "E;"), ("call", "λ_" + vy_string(SWEEP_PAYLOAD) + "†;")]
    LIST = "⟨1|2|3⟩"
    cases, keys = [], []
    for e in t.get("elements", []):
        names = called_names(e["text"])
        # the template's own locals called as functions (e.g. `top(stack, ...)`) count too
        direct = any(n in ("lhs", "rhs", "third", "top", "fn", "function") for n in names & {"lhs", "rhs", "third", "top"}) and "(" in e["text"]
        if not (names & user) and not direct:
            continue
        k, ar = e["key"], e["arity"]
        if k in ("Q",) or ar < 0:
            continue
        keys.append(k)
        for lname, lam in lambdas:
            if ar <= 1:
                arrs = [lam + " ", lam + "w", LIST + lam]
            elif ar == 2:
                arrs = [LIST + lam, lam + LIST, "3 " + lam, lam + "3", LIST + lam + "w"]
            else:
                arrs = [LIST + lam + LIST, LIST + LIST + lam, lam + LIST + LIST, LIST + "2 " + lam, LIST + lam + "2", "1 " + lam + "3"]
            for a in arrs:
                for tail in (("", ",") if env.thorough or lname == "print" else ("",)):
                    cases.append({"prog": a + k + tail, "inputs": ["5", "[4, 6]"], "flags": "", "texts": [SWEEP_PAYLOAD],
                                  "diff": lname == "print", "limit": True, "sweep": k})
    mods = [m["key"] for m in t.get("modifiers", [])]
    pc = t.get("parser", {})
    for m in mods:
        n_ops = 1 if m in pc.get("monadic_modifiers", []) else 2 if m in pc.get("dyadic_modifiers", []) else 3
        for lname, lam, el in (("print", "λ,;", ","), ("eval", "λ_" + vy_string(SWEEP_PAYLOAD) + "E;", "E"), ("call", "λ_" + vy_string(SWEEP_PAYLOAD) + "†;", "†")):
            tainted_list = "⟨" + vy_string(SWEEP_PAYLOAD) + "|" + vy_string(SWEEP_PAYLOAD) + "⟩"
            for prog in (LIST + m + lam * n_ops, tainted_list + m + el * n_ops, tainted_list + LIST + m + el * n_ops, LIST + m + (lam + "†") * 1 + el * (n_ops - 1)):
                for tail in (("", ",") if env.thorough else ("",)):
                    cases.append({"prog": prog + tail, "inputs": ["5", "[4, 6]"], "flags": "", "texts": [SWEEP_PAYLOAD],
                                  "diff": lname == "print", "limit": True, "sweep": "modifier " + m})
    return cases, keys, mods


def oracle(env):
    V.import_repo()
    import vyxal.main  # noqa: F401  (imported before forking)
    fixed = fixed_cases()
    rnd = random_cases(env.rng, env.budget(1500, 14000))
    dif = random_cases(env.rng, env.budget(450, 4000), diff=True)
    for c in fixed[:40]:
        c["diff"] = "c" not in c["flags"] and "h" not in c["flags"]
    swp, swept_keys, swept_mods = sweep_cases(env)
    ctxc = context_cases(env.rng, env.thorough)
    mat = print_matrix_cases(env.rng, env.thorough)
    cases = fixed + rnd + dif + swp + ctxc + mat
    res = V.pmap(oracle_case, cases, timeout=4 * RUN_SECONDS, procs=min(V.NPROC, 8))
    stats = {"ok": 0, "timeout": 0, "exc": 0, "raised_recorded": 0, "finished": 0, "host_input_reads": 0,
             "diff_compared": 0}
    nev = {}
    keys = []
    sympy_notes = []
    for c, (st, r) in zip(cases, res):
        inp = {"program": c["prog"], "inputs": c["inputs"], "flags": c["flags"], "online": True}
        if st == "timeout":
            stats["timeout"] += 1
            continue
        if st == "exc" and "HardTimeout" in str(r):
            stats["timeout"] += 1
            continue
        if st == "exc":
            stats["exc"] += 1
            env.fail(inp, f"harness could not observe the run: {r}", cls="C19:harness")
            continue
        if r["err"] == "timeout":
            stats["timeout"] += 1
            continue
        stats["ok"] += 1
        for k, v in r["nev"].items():
            nev[k] = nev.get(k, 0) + v
        stats["host_input_reads"] += r["ninput"]
        if r["err"] == "SystemExit":
            stats["raised_recorded"] += 1
        elif r["err"] is None:
            stats["finished"] += 1
        if r["diff"] is not None:
            stats["diff_compared"] += 1
            stats["diff_" + r["diff"]] = stats.get("diff_" + r["diff"], 0) + 1
        for cls, what in r["bad"]:
            if cls.startswith("NOTE:"):
                if len(sympy_notes) < 6:
                    sympy_notes.append({"input": inp, "what": what})
                stats["sympy_text_evaluations_noted"] = stats.get("sympy_text_evaluations_noted", 0) + 1
                continue
            env.fail(inp, what, cls=cls)
        if c.get("texts") or c["inputs"] or any(p in c["prog"] for p in PRINTERS) or r["err"]:
            keys.append("run:" + c["prog"] + "|" + "\n".join(c["inputs"]) + "|" + c["flags"])
    env.count(len(cases), keys)
    env.note("user_function_sweep", {"elements_that_can_call_a_user_function": len(swept_keys), "keys": "".join(k + " " for k in swept_keys),
                                     "modifiers": "".join(swept_mods), "programs": len(swp),
                                     "lambdas": ["λ,;", "λ_`" + SWEEP_PAYLOAD + "`E;", "λ_`" + SWEEP_PAYLOAD + "`†;"]})
    env.note("tainted_context_grammar", {"prefixes": len(CTX_PREFIXES), "joiners": len(CTX_JOINERS), "payloads": len(SENTINEL_PAYLOADS), "suffixes": len(set(CTX_SUFFIXES)),
                                         "pairs_covered": len(CTX_PREFIXES) * len(CTX_JOINERS), "programs": len(ctxc),
                                         "sinks": "?, | ?E, | implicit input | mixed inputs | input flags a ḋ j Ṡ | `t`E, | vectorised E | † | wvE | Ė"})
    env.note("print_matrix", {"scalar_kinds": [k for k, _ in SCALAR_KINDS], "print_forms": PRINT_FORMS, "programs": len(mat)})
    env.note("oracle_runs", {"fixed": len(fixed), "user_function_sweep": len(swp), "tainted_contexts": len(ctxc), "print_matrix": len(mat), "random_tainted": len(rnd), "random_differential": len(dif), **stats})
    env.note("audit_event_counts", nev)
    env.note("sympy_text_evaluation_reached_NOT_judged", sympy_notes)
    env.sample({"oracle_case": cases[len(fixed) + 3]})
    env.sample({"oracle_case": fixed[60]})


def out_of_scope_probes(env):
    """Noted, not judged: evaluation of text outside the property's stated scope."""
    V.import_repo()
    notes = []
    probes = [
        ("`print('VYTAINT')`øḋ", [], "", "sympy.pycode(str) parses (evaluates) the text: element øḋ"),
        ("`__import__('os').system('echo VYTAINT')`∆e", [], "", "make_expression -> sympy.parse_expr evaluates the text: element ∆e"),
        ("`print('VYTAINT')`∆d", [], "", "make_expression: element ∆d"),
        ("1", [], "f", "flag f reads inputs[0] as a host file name before the try (IndexError / FileNotFoundError propagates)"),
        ("1", ["/etc/VYTAINT"], "f", "flag f opens a user-chosen host path"),
        ("?", [], "", "empty input list: get_input calls input() on the host's stdin"),
        ("`example.org/VYTAINT`¨U", [], "", "element ¨U fetches a user-chosen URL when online"),
    ]
    for prog, inputs, flags, why in probes:
        st, r = V._guarded((oracle_case, {"prog": prog, "inputs": inputs, "flags": flags, "texts": [MARK]}, 10))
        if st != "ok":
            notes.append({"program": prog, "flags": flags, "why": why, "observed": f"{st}: {r}"})
            continue
        notes.append({"program": prog, "inputs": inputs, "flags": flags, "why": why,
                      "observed": sorted({cls for cls, _ in r["bad"]}) or "nothing", "err": r["err"], "host_input_reads": r["ninput"]})
    env.note("out_of_scope_probes_NOT_judged", notes)


# ----------------------------------------------------------------------------
# correspondence: the Coq models vs the implementation
# ----------------------------------------------------------------------------

PRE = ("From Coq Require Import List NArith Bool.\nFrom Vy Require Import Model.Base Model.Online.\nImport ListNotations.\n"
       "Definition eff_eqb (a b : effect) : bool := match a, b with\n"
       " | HostPrint, HostPrint | OnlineOut, OnlineOut | PyEval, PyEval | PyExec, PyExec | PyEval, PyExec | PyExec, PyEval\n"
       " | LiteralEval, LiteralEval | VyExec, VyExec | HostInput, HostInput | Exit, Exit | ErrRecord, ErrRecord | Raise, Raise => true\n"
       " | _, _ => false end.\n"
       "Fixpoint effs_eqb (a b : list effect) : bool := match a, b with [] , [] => true | x :: a', y :: b' => eff_eqb x y && effs_eqb a' b' | _, _ => false end.\n"
       "Definition res_eqb (a b : eval_result) : bool := match a, b with RValue, RValue | RUnchanged, RUnchanged | RRaises, RRaises => true | _, _ => false end.\n"
       "Definition md (b : bool) : mode := {| online := b |}.\n"
       "Definition tf (a b : bool) : text_facts := {| is_literal := a; is_evaluable := b |}.\n")


def cb(b):
    return "true" if b else "false"


def ceffs(l):
    return "[" + "; ".join(l) + "]" if l else "([] : list effect)"


def observed_trace(rec, texts):
    """events of one run -> effect constructor names (PyEval stands for eval or exec of user text)"""
    out = []
    tset = {t.strip() for t in texts}
    for e in rec["events"]:
        if e[0] == "compile":
            src, parse_only, f1, f2, cfile = e[1], e[2], e[3], e[4], e[5]
            if parse_only:
                if f2 == "literal_eval" and src.strip() in tset:
                    out.append("LiteralEval")
            elif src.strip() in tset:
                out.append("PyEval")
            elif os.sep + "vyxal" + os.sep in cfile and "sympy" not in cfile:
                out.append("VyExec")
        elif e[0] == "out":
            out.append("OnlineOut" if e[1] == 1 else "ErrRecord")
        elif e[0] == "print":
            out.append("HostPrint")
    if rec["err"] == "SystemExit":
        out.append("Exit")
    elif rec["err"] is not None:
        out.append("Raise")
    return out


def converts(v, top=True):
    """Does the Python value become a Vyxal value without an error AT CONVERSION TIME?
    (independent of vy_eval: what vyxalify / the float step can take.)  None and Ellipsis
    are not iterable; a top-level float goes through Rational(str(t)), which rejects
    inf / nan; lists convert their items eagerly; every other iterable (tuple, set, dict,
    bytes) becomes a lazy list whose items are converted only when pulled."""
    import math
    if v is None or v is Ellipsis:
        return False
    import types
    if isinstance(v, (bool, int, str, complex, types.FunctionType)):
        return True
    if isinstance(v, float):
        return math.isfinite(v) if top else True
    if isinstance(v, list):
        return all(converts(x, False) for x in v)
    try:
        iter(v)
        return True
    except TypeError:
        return False


SAFE_BUILTINS = {"len": len, "max": max, "abs": abs, "min": min, "sum": sum, "set": set, "frozenset": frozenset,
                 "Ellipsis": Ellipsis}


def text_facts(text):
    """independent of vy_eval: (a Python literal that converts, eval succeeds and the result
    converts).  eval is only ever called here on the harness's own benign texts."""
    try:
        lit = converts(ast.literal_eval(text))
    except Exception:  # noqa: BLE001
        lit = False
    try:
        ev = converts(eval(text, {"__builtins__": SAFE_BUILTINS}, {}))  # benign pool only
    except Exception:  # noqa: BLE001
        ev = False
    return lit, ev, True


def benign_texts(rng, n):
    pool = []
    for _ in range(n):
        k = rng.randrange(12)
        a, b = rng.randrange(-20, 200), rng.randrange(1, 50)
        w = "".join(rng.choice("abcxyz") for _ in range(rng.randrange(1, 5)))
        if k == 0:
            t = str(a)
        elif k == 1:
            t = f"{a}.{b}"
        elif k == 2:
            t = repr(w)
        elif k == 3:
            t = "[" + ", ".join(str(rng.randrange(9)) for _ in range(rng.randrange(0, 4))) + "]"
        elif k == 4:
            t = f"[{a}, {w!r}, [{b}]]"
        elif k == 5:
            t = f"{a}+{b}"
        elif k == 6:
            t = f"len({w!r})*{b}"
        elif k == 7:
            t = f"max({a}, {b})"
        elif k == 8:
            t = w + " " + w
        elif k == 9:
            t = w
        elif k == 10:
            t = f"({a}, {b})"
        else:
            t = rng.choice([f"{a} +", f"[{a}", f"{w}(", f"'{w}", f"{a}//{b}", f"abs({a})", f"\"{w}\"", f"  {a}", f"{a} "])
        pool.append(t)
    # the literal-looking contexts of the oracle, around harmless cores, and on their own
    cores = ["len('ab')", "max(1, 2)", "abs(-3)", "7", "'s'"]
    for pre in CTX_PREFIXES:
        if pre in ("x", "_"):
            continue
        pool.append(pre)
        for j in rng.sample(CTX_JOINERS, 3) + ["+"]:
            pool.append(context_text(pre, j, rng.choice(cores), rng.choice(CTX_SUFFIXES)))
    return [t for t in pool if "\n" not in t or rng.random() < 0.5]


def corr_eval_case(item):
    timed_out, r = with_deadline(CORR_SECONDS, _corr_eval_case, item)
    return None if timed_out else r


def _corr_eval_case(item):
    V.import_repo()
    text, online = item
    from vyxal.context import Context
    from vyxal import helpers
    ensure_hook()
    ctx = Context()
    ctx.online = online
    fresh = "".join(list(text))          # a new object: "unchanged" is decided by identity
    _ST["events"] = []
    _ST["texts"] = ()
    _ST["armed"] = True
    err = None
    res = None
    try:
        with contextlib.redirect_stdout(io.StringIO()):
            res = helpers.vy_eval(fresh, ctx)
    except HardTimeout:
        raise
    except BaseException as e:  # noqa: BLE001
        err = type(e).__name__ + ": " + str(e)[:80]
    finally:
        _ST["armed"] = False
    rec = {"events": _ST["events"], "err": None}
    if err is not None:
        return observed_trace(rec, [text]), "RRaises", err
    unchanged = isinstance(res, str) and (res is fresh if len(text) > 1 else res == text)
    return observed_trace(rec, [text]), "RUnchanged" if unchanged else "RValue", ""


def build_pval(tree, rng_vals):
    """pval tree (nested tuples) -> a Python value of that shape"""
    import sympy
    from vyxal.LazyList import LazyList
    k = tree[0]
    if k == "S":
        return rng_vals[tree[1] % len(rng_vals)]
    if k == "L":
        return [1, "a", [2]]
    if k == "F":
        inner = tree[1]

        def fn(stack, self_, arity=-1, ctx=None):
            return [build_pval(inner, rng_vals)]
        return fn
    gen = [build_pval(t, rng_vals) for t in tree[1]]
    rest = [build_pval(t, rng_vals) for t in tree[2]]
    ll = LazyList(iter(gen + rest))
    for _ in gen:
        next(ll)
    return ll


def pval_coq(tree):
    k = tree[0]
    if k == "S":
        return "PScalar"
    if k == "L":
        return "PList"
    if k == "F":
        return f"(PFun {pval_coq(tree[1])})"
    g = "; ".join(pval_coq(t) for t in tree[1])
    r = "; ".join(pval_coq(t) for t in tree[2])
    return f"(PLazy [{g}] [{r}])"


def gen_pval(rng, d):
    x = rng.random()
    if d <= 0 or x < 0.35:
        return ("S", rng.randrange(6)) if rng.random() < 0.7 else ("L",)
    if x < 0.5:
        return ("F", gen_pval(rng, d - 1))
    return ("Z", [gen_pval(rng, d - 1) for _ in range(rng.randrange(0, 3))],
            [gen_pval(rng, d - 1) for _ in range(rng.randrange(0, 4))])


def corr_print_case(item):
    timed_out, r = with_deadline(CORR_SECONDS, _corr_print_case, item)
    return None if timed_out else r


def _corr_print_case(item):
    V.import_repo()
    tree, online, end = item
    import sympy
    from vyxal.context import Context
    from vyxal import elements as E
    ensure_hook()
    vals = ["ab", 7, -3, sympy.Rational(1, 2), "x y", 0]
    value = build_pval(tree, vals)
    ctx = Context()
    ctx.online = online
    out = RecDict()
    dict.__setitem__(out, 1, "")
    dict.__setitem__(out, 2, "")
    ctx.online_output = out
    ctx.stacks.append([])
    buf = io.StringIO()
    real_print = builtins.print

    def counting_print(*a, **k):
        if _ST["armed"]:
            _ST["events"].append(("print",))
        return real_print(*a, **k)
    _ST["events"] = []
    builtins.print = counting_print
    _ST["armed"] = True
    err = None
    try:
        with contextlib.redirect_stdout(buf):
            E.vy_print(value, end, ctx)
    except Exception as e:  # noqa: BLE001
        err = type(e).__name__
    finally:
        _ST["armed"] = False
        builtins.print = real_print
    tr = observed_trace({"events": _ST["events"], "err": err}, [])
    return tr, (out[1] if online else buf.getvalue()), buf.getvalue() if online else ""


def corr_call_case(item):
    timed_out, r = with_deadline(CORR_SECONDS, _corr_call_case, item)
    return None if timed_out else r


def _corr_call_case(item):
    V.import_repo()
    which, top, online = item
    from vyxal.context import Context
    from vyxal import elements as E
    ensure_hook()
    ctx = Context()
    ctx.online = online
    out = RecDict()
    dict.__setitem__(out, 1, "")
    dict.__setitem__(out, 2, "")
    ctx.online_output = out
    stack = []
    ctx.stacks.append(stack)
    _ST["events"] = []
    _ST["armed"] = True
    err = None
    try:
        with contextlib.redirect_stdout(io.StringIO()):
            if which == "call":
                stack.append(top)
                E.function_call(stack, ctx)
            else:
                E.vy_exec(top, ctx)
    except Exception as e:  # noqa: BLE001
        err = type(e).__name__
    finally:
        _ST["armed"] = False
    return observed_trace({"events": _ST["events"], "err": err}, [top] if isinstance(top, str) else [])


BODY_ITEMS = [
    ("1,", "BPrint PScalar", [], True),
    ("`ab`,", "BPrint PScalar", [], True),
    ("3ɾ,", "BPrint (PLazy [] [PScalar; PScalar; PScalar])", [], True),
    ("⟨1|2⟩,", "BPrint PList", [], True),
    ("2ɾ₴", "BPrint (PLazy [] [PScalar; PScalar])", [], True),
    ("1¨,", "BPrint PScalar", [], True),
    ("`1+1`E_", "BEval (tf false true)", ["1+1"], False),
    ("`12`E_", "BEval (tf true true)", ["12"], False),
    ("`ab cd`E_", "BEval (tf false false)", ["ab cd"], False),
    ("`max(3, 4)`E_", "BEval (tf false true)", ["max(3, 4)"], False),
    ("`1`†_", "BCall TString", ["1"], False),
    ("`zq = 5`†_", "BCall TString", ["zq = 5"], False),
    ("5†_", "BCall TOther", [], False),
    ("`1 2+`Ė_", "BVyExec TString", ["1 2+"], False),
    ("2Ė_", "BVyExec TOther", [], False),
]
FINALS = [
    ("7", "Some PScalar"),
    ("`fin`", "Some PScalar"),
    ("3ɾ", "Some (PLazy [] [PScalar; PScalar; PScalar])"),
    ("⟨1|2⟩", "Some PList"),
    ("kn", "None"),
]
RAISER = "`abc`λ1;/"
INPUT_POOL = ["12", "[1, 2]", "'abc'", "-3", "1+1", "len('ab')", "max(1, 2)", "hello world", "abc", "1 +", "3.5"]


def gen_scenario(rng):
    items = [rng.choice(BODY_ITEMS) for _ in range(rng.randrange(0, 4))]
    raises = rng.random() < 0.25
    transpile_ok = rng.random() >= 0.12
    final = rng.choice(FINALS)
    flags = "".join(f for f in "cOoṠ" if rng.random() < 0.25)
    inputs = [rng.choice(INPUT_POOL) for _ in range(rng.randrange(0, 3))] or ["0"]
    prog = "".join(i[0] for i in items)
    if raises:
        prog += RAISER
    else:
        prog += " " + final[0]
    if not transpile_ok:
        prog += " λ|"
    return {"items": items, "raises": raises, "transpile_ok": transpile_ok, "final": final, "flags": flags,
            "inputs": inputs, "prog": prog}


def scenario_coq(sc):
    facts = []
    for t in sc["inputs"]:
        lit, ev, _ = text_facts(t)
        facts.append(f"tf {cb(lit)} {cb(ev)}")
    body = "[" + "; ".join(i[1] for i in sc["items"]) + "]"
    if not sc["items"]:
        body = "([] : list body_item)"
    run = f"RunRaises {body}" if sc["raises"] else f"RunOk {body}"
    return ("{| sc_inputs := %s; sc_all_strings := %s; sc_transpile_ok := %s; sc_show_code := %s; sc_run := %s; "
            "sc_flag_O := %s; sc_flag_o := %s; sc_final := %s |}") % (
        "[" + "; ".join(facts) + "]" if facts else "([] : list text_facts)", cb("Ṡ" in sc["flags"]), cb(sc["transpile_ok"]),
        cb("c" in sc["flags"]), run, cb("O" in sc["flags"]), cb("o" in sc["flags"]), sc["final"][1])


def corr_exec_case(item):
    timed_out, r = with_deadline(CORR_SECONDS, _corr_exec_case, item)
    return None if timed_out else r


def _corr_exec_case(item):
    V.import_repo()
    sc, online = item
    texts = list(sc["inputs"])
    for i in sc["items"]:
        texts += i[2]
    rec = run_impl(sc["prog"], sc["inputs"], sc["flags"], online, count_prints=True)
    return observed_trace(rec, texts), rec["err"], rec["where"], rec["host"] if online else ""


def correspondence(env):
    V.import_repo()
    import vyxal.main  # noqa: F401
    rng = env.rng
    procs = min(V.NPROC, 8)
    skipped = {}
    # 1. vy_eval
    texts = benign_texts(rng, env.budget(500, 2500)) + LITERALS[:6] + ["1+1", "max(1, 2)", "abc", "1 +"] + ODD_LITERALS + [""]
    items = [(t, o) for t in texts for o in (True, False)]
    res = V.pmap(corr_eval_case, items, timeout=4 * CORR_SECONDS, procs=procs)
    cases, meta = [], []
    for (t, o), (st, r) in zip(items, res):
        if st == "timeout" or (st == "ok" and r is None):
            skipped["vy_eval"] = skipped.get("vy_eval", 0) + 1
            continue
        if st != "ok":
            env.proof_broken("vy_eval correspondence case did not run", f"{t!r} online={o}: {st} {r}")
            continue
        lit, ev, _ = text_facts(t)
        tr, kind, err = r
        cases.append(f"(({cb(o)}, tf {cb(lit)} {cb(ev)}), ({ceffs(tr)}, {kind}))")
        meta.append({"text": t, "online": o, "literal": lit, "evaluable": ev, "impl_trace": tr, "impl_result": kind, "impl_error": err})
    chk = ("fun c => match c with ((o, t), (tr, k)) => effs_eqb (vy_eval_trace (md o) t) tr && res_eqb (vy_eval_result (md o) t) k end")
    ok, bad, logs = env.coq_mismatches("eval", PRE, lambda lo, hi: "[" + ";\n ".join(cases[lo:hi]) + "]", chk, len(cases))
    if not ok:
        env.proof_broken("vy_eval correspondence cases failed to evaluate", logs)
    for i in bad:
        env.disagree("vy_eval", {k: meta[i][k] for k in ("text", "online", "literal", "evaluable")},
                     "trace/result of Model.Online.vy_eval_*", {"trace": meta[i]["impl_trace"], "result": meta[i]["impl_result"]})
        if meta[i]["impl_result"] == "RRaises":
            env.fail({"function": "vy_eval", "text": meta[i]["text"], "online": meta[i]["online"]},
                     f"vy_eval raises {meta[i]['impl_error']} instead of returning a value or the text unchanged (input parsing in execute_vyxal has no try around it)",
                     cls="C19:input-parse-raises")
        elif meta[i]["online"] and ("PyEval" in meta[i]["impl_trace"] or (meta[i]["impl_result"] == "RValue" and not meta[i]["literal"])):
            env.fail({"function": "vy_eval", "text": meta[i]["text"], "online": True},
                     f"vy_eval does not treat the text as a literal-or-string online: trace {meta[i]['impl_trace']}, result {meta[i]['impl_result']}", cls="C19:compile-user-text")
    env.count(len(cases), (f"eval:{m['text']}:{m['online']}" for m in meta))
    dist = {"literal": sum(m["literal"] for m in meta), "evaluable_nonliteral": sum(m["evaluable"] and not m["literal"] for m in meta),
            "neither": sum(not m["evaluable"] and not m["literal"] for m in meta), "total": len(meta),
            "python_literals_that_are_not_vyxal_values_or_edge_cases": len(ODD_LITERALS) + 1}
    env.note("vy_eval_case_distribution", dist)
    if meta:
        env.sample({"vy_eval_case": meta[len(meta) // 3]})

    # 2. vy_print / LazyList.output
    trees = [("S", 0), ("L",), ("F", ("S", 1)), ("Z", [], []), ("Z", [("S", 0)], []), ("Z", [], [("S", 0)]),
             ("Z", [("S", 0)], [("S", 1)]), ("Z", [("S", 0), ("L",)], [("F", ("S", 2)), ("Z", [], [("S", 1)])])]
    trees += [gen_pval(rng, 3) for _ in range(env.budget(350, 1800))]
    items = [(t, o, e) for t in trees for o in (True, False) for e in ("\n",) + (("",) if rng.random() < 0.3 else ())]
    res = V.pmap(corr_print_case, items, timeout=4 * CORR_SECONDS, procs=procs)
    cases, meta = [], []
    texts_by_tree = {}
    for (t, o, e), (st, r) in zip(items, res):
        if st == "timeout" or (st == "ok" and r is None):
            skipped["vy_print"] = skipped.get("vy_print", 0) + 1
            continue
        if st != "ok":
            env.proof_broken("vy_print correspondence case did not run", f"{t!r}: {st} {r}")
            continue
        tr, text, host = r
        cases.append(f"(({cb(o)}, {pval_coq(t)}), {ceffs(tr)})")
        meta.append({"value": pval_coq(t), "online": o, "end": e, "impl_trace_len": len(tr), "impl_trace_head": tr[:3]})
        if o and host:
            env.fail({"function": "vy_print", "value": pval_coq(t), "end": e, "online": True}, f"host stdout received {host[:60]!r}", cls="C19:host-stdout")
        texts_by_tree.setdefault((repr(t), e), {})[o] = (text, pval_coq(t))
    chk = "fun c => match c with ((o, v), tr) => effs_eqb (print_trace (md o) v) tr end"
    ok, bad, logs = env.coq_mismatches("print", PRE, lambda lo, hi: "[" + ";\n ".join(cases[lo:hi]) + "]", chk, len(cases))
    if not ok:
        env.proof_broken("vy_print correspondence cases failed to evaluate", logs)
    for i in bad:
        env.disagree("vy_print", {k: meta[i][k] for k in ("value", "online", "end")}, "Model.Online.print_trace",
                     {"len": meta[i]["impl_trace_len"], "head": meta[i]["impl_trace_head"]})
    ntext = 0
    for (v, e), d in texts_by_tree.items():
        if True in d and False in d:
            ntext += 1
            if d[True][0] != d[False][0]:
                env.fail({"function": "vy_print", "value": d[True][1], "end": e}, f"online_output[1] gets {d[True][0][:60]!r}, offline stdout {d[False][0][:60]!r}", cls="C19:output-record")
    env.count(len(cases), (f"print:{m['value']}:{m['online']}:{m['end']!r}" for m in meta if m["value"] not in ("PScalar", "PList")))
    env.note("vy_print_cases", {"values": len(trees), "cases": len(cases), "online_vs_offline_text_compared": ntext,
                                "max_trace_len": max([m["impl_trace_len"] for m in meta] or [0])})
    if meta:
        env.sample({"vy_print_case": meta[-1]})

    # 3. function_call on a string / vy_exec
    items = []
    for o in (True, False):
        for top in ("1", "zq = 5", "pass", "zz9 = [1]; zz9.append(2)"):
            items.append(("call", top, o))
        for top in (5, 12, [1, 0]):
            items.append(("call", top, o))
        for top in ("1 2+", "3ɾ", "`a`"):
            items.append(("vyexec", top, o))
        for top in (2, 4):
            items.append(("vyexec", top, o))
    res = V.pmap(corr_call_case, items, timeout=4 * CORR_SECONDS, procs=procs)
    cases, meta = [], []
    for (w, top, o), (st, r) in zip(items, res):
        if st == "timeout" or (st == "ok" and r is None):
            skipped["call"] = skipped.get("call", 0) + 1
            continue
        if st != "ok":
            env.proof_broken("function_call/vy_exec correspondence case did not run", f"{w} {top!r}: {st} {r}")
            continue
        kind = "TString" if isinstance(top, str) else "TOther"
        cases.append(f"((({cb(w == 'call')}, {cb(o)}), {kind}), {ceffs(r)})")
        meta.append({"function": "function_call" if w == "call" else "vy_exec", "top": top, "online": o, "impl_trace": r})
    chk = ("fun c => match c with (((w, o), k), tr) => effs_eqb (if (w : bool) then function_call_trace (md o) k else vy_exec_trace (md o) k) tr end")
    ok, bad, logs = env.coq_mismatches("call", PRE, lambda lo, hi: "[" + ";\n ".join(cases[lo:hi]) + "]", chk, len(cases))
    if not ok:
        env.proof_broken("function_call correspondence cases failed to evaluate", logs)
    for i in bad:
        env.disagree(meta[i]["function"], {"top": meta[i]["top"], "online": meta[i]["online"]}, "Model.Online trace", meta[i]["impl_trace"])
        if meta[i]["online"] and "PyEval" in meta[i]["impl_trace"]:
            env.fail({"function": meta[i]["function"], "top": meta[i]["top"], "online": True},
                     f"user string executed as Python online: trace {meta[i]['impl_trace']}", cls="C19:compile-user-text")
    env.count(len(cases), (f"call:{m['function']}:{m['top']!r}:{m['online']}" for m in meta))

    # 4. execute_vyxal scenarios
    scs = [gen_scenario(rng) for _ in range(env.budget(450, 2400))]
    items = [(s, o) for s in scs for o in (True, False)]
    res = V.pmap(corr_exec_case, items, timeout=4 * CORR_SECONDS, procs=procs)
    cases, meta = [], []
    for (s, o), (st, r) in zip(items, res):
        if st == "timeout" or (st == "ok" and r is None):
            skipped["execute_vyxal"] = skipped.get("execute_vyxal", 0) + 1
            continue
        if st != "ok":
            env.proof_broken("execute_vyxal correspondence case did not run", f"{s['prog']!r} online={o}: {st} {r}")
            continue
        tr, err, where, host = r
        cases.append(f"(({cb(o)}, {scenario_coq(s)}), {ceffs(tr)})")
        meta.append({"program": s["prog"], "inputs": s["inputs"], "flags": s["flags"], "online": o, "impl_trace": tr, "err": err, "where": where})
        if o and host:
            env.fail({"program": s["prog"], "inputs": s["inputs"], "flags": s["flags"], "online": True}, f"host stdout received {host[:60]!r}", cls="C19:host-stdout")
    chk = "fun c => match c with ((o, s), tr) => effs_eqb (execute_trace (md o) s) tr end"
    ok, bad, logs = env.coq_mismatches("exec", PRE, lambda lo, hi: "[" + ";\n ".join(cases[lo:hi]) + "]", chk, len(cases), shard=150)
    if not ok:
        env.proof_broken("execute_vyxal correspondence cases failed to evaluate", logs)
    for i in bad:
        env.disagree("execute_vyxal", {k: meta[i][k] for k in ("program", "inputs", "flags", "online")}, "Model.Online.execute_trace", meta[i]["impl_trace"])
    env.count(len(cases), (f"exec:{m['program']}:{m['inputs']}:{m['flags']}:{m['online']}" for m in meta))
    kinds = {"transpile_fails": sum(not s["transpile_ok"] for s in scs), "body_raises": sum(s["raises"] and s["transpile_ok"] for s in scs),
             "final_print_raises": sum(s["final"][1] == "None" and not s["raises"] and s["transpile_ok"] for s in scs),
             "with_flag_c": sum("c" in s["flags"] for s in scs), "all_strings": sum("Ṡ" in s["flags"] for s in scs), "scenarios": len(scs)}
    env.note("execute_vyxal_scenarios", kinds)
    env.note("correspondence_cases_skipped_on_timeout", skipped)
    if sum(skipped.values()) > 0.2 * max(1, len(items)):
        env.proof_broken("correspondence could not be evaluated: too many cases timed out", str(skipped))
    if meta:
        env.sample({"execute_vyxal_case": meta[len(meta) // 2]})


def sink_summary(env):
    t = (env.tables or {}).get("gen_sinks") or {}
    sinks = t.get("sinks", [])
    if t.get("error"):
        env.note("sink_translator_error", t["error"])
    by_kind = {}
    for s in sinks:
        by_kind[s["kind"]] = by_kind.get(s["kind"], 0) + 1
    in_scope = [s for s in sinks if s["kind"] in ("KPrint", "KExec", "KEval", "KCompile", "KInput")]
    env.note("sink_table", {"sinks": len(sinks), "by_kind": by_kind, "in_scope": len(in_scope),
                            "in_scope_guarded_by_not_online": [f"{s['file']}:{s['line']} {s['fn']} {s['callee']}" for s in in_scope if s["guarded"]],
                            "in_scope_unguarded_(must_be_listed_in_Model/Online.v)": [f"{s['file']}:{s['line']} {s['fn']} {s['callee']}({s['arg']}) when {s['cond_text']}" for s in in_scope if not s["guarded"]],
                            "online_flag_writes": [f"{w['file']} {w['fn']} {w['kind']}" for w in t.get("online_writes", [])]})
    calls = t.get("ctx_calls", [])
    must = [c for c in calls if c["caller_has_ctx"] and c["risky"]]
    env.note("ctx_forwarding_table", {
        "helpers_with_defaulted_ctx": {k: v[0]["default"] for k, v in (t.get("ctx_helpers") or {}).items()},
        "calls_and_references": len(calls), "from_ctx_scope_to_helper_reaching_a_mode_decision": len(must),
        "of_which_pass_ctx": sum(c["passes"] for c in must),
        "left_to_the_default_(listed_in_Model/Online.v_ctx_exclusions)": [
            f"{c['file']}:{c['line']} {c['fn']} -> {c['callee']} (default {c['default']})" for c in must if not c["passes"]],
        "functions_that_can_call_a_user_function": len(t.get("calls_user_function", {})),
        "functions_reaching_a_mode_decision": len(t.get("reaches_mode_decision", {}))})
    env.note("sinks_listed_legit_unguarded", [
        "main.py execute_vyxal exec(code): code = transpile(program), fixed template vocabulary (C18)",
        "elements.py vy_exec exec(transpile(lhs)): the string is run as Vyxal",
        "helpers.py simplify / elements.py vy_str, vy_print: eval(sympy.pycode(<number>))",
        "helpers.py reverse_number eval(rev): reversed digit string of a number",
        "templates kN, kð: eval(datetime.now().strftime(<fixed format>))",
        "dictionary.py module level print under __name__ == '__main__'",
        "main.py repl(): input / print / exec of the offline REPL, never reached from execute_vyxal",
    ])
    env.note("sinks_noted_out_of_scope_unguarded", [
        "helpers.py get_input input(): reads the HOST stdin online when the input list is empty (prompt empty)",
        "template □: input() when ctx.inputs[0] is empty",
        "template øḋ: eval(sympy.pycode(lhs)) -- sympy parses a string lhs in any mode (DESIGN §8 F10)",
        "KSympy sinks (make_expression / parse_expr / sympify, %d call sites) evaluate text in any mode; KUrl/KOpen sinks (request, flag f) are host effects the property does not name" % by_kind.get("KSympy", 0),
    ])


def run(env):
    env.rule = ("ORACLE: real runs of execute_vyxal(program, flags+'e', newline-joined inputs, record, online_mode=True) under sys.addaudithook "
                "(compile / exec / builtins.input / os.system / subprocess.Popen / open / urllib.Request; host effects are blocked by raising) with host stdout captured. "
                "A run violates the property when anything reaches host stdout; when a compile event that is not ast.parse's (literal_eval) has a source in which a user text "
                "(string literal of the program or input line) occurs outside every string constant, or equals it; when an executed code object has a tainted name; when a side-effect event fires; "
                "when an exception other than SystemExit leaves execute_vyxal (wherever it was raised: input handling, transpile, body, flag post-processing, implicit output); when a raising program does not end in SystemExit with a traceback in record[2]; when SystemExit comes without a record; when record[1] differs from the expected text "
                "(fixed cases) or from the offline stdout of the same program (differential cases). Programs: a fixed list (every printing element on scalar/list/lazy list/function, flags jJWSsdlGgLC…PṪṡcoOh, implicit output, "
                "E/†/Ė/vectorised E on 10 tainted payloads and 9 literals, 73 valid Python literals that are not Vyxal values or are lexical edge cases (None, ..., True, bytes, sets, dicts, tuples, [1, None], complex, huge ints, 1e400, nan, quotes/escapes, whitespace, unterminated) as inputs alone and mixed, read by ? / implicit input / ?E / never read, flags a and Ṡ, every element whose implementation can call a function it is handed (derived from the translator's call graph: safe_apply or a call of a parameter, transitively) and every modifier with lambdas that print / apply E / apply † to a tainted string,  the same texts as inputs through ? , implicit input, □, flags a/Ṡ, raising programs, programs whose flag post-processing or implicit output raises) "
                "every side-effect payload (sentinels left in os.environ / builtins, host print, os.system, open, a tainted name) wrapped in LITERAL-LOOKING CONTEXTS -- 72 prefixes (ints, signed, fractions 1/2 -22/7 with spacing variants, decimals, exponent forms, complex, hex/bin/oct, strings in every quote style, list/tuple/dict/set openers and closed forms, True/None/..., unary operators, names, whitespace/comment/continuation variants) x 49 joiners (arithmetic, comma, semicolon, if/else/and/or/for/in, attribute/index/call tails, whitespace/newline/comment, closers) x 14 suffixes -- every prefix x joiner pair through evaluation sinks in rotation (?, / ?E, / implicit input / mixed inputs / input flags / E on a string literal / vectorised E / the call element / E-dot), expecting the text back unchanged where it is printed; a matrix of 17 scalar kinds (int, rational, decimal, irrational, python float, complex, big int, string, function, list, lazy list, nested, evaluated input) x 9 printing forms (, … ₴ ¨, ¨… implicit output, dup, wrapped, stringified) x flag sets (ḋ alone and combined, P j W s S J l Ṡ a O r t, random subsets) with the offline/online print-count differential; plus random programs from the core grammar (vlib/progs.py) extended with , … ₴ ¨, ¨… E † Ė whose string literals and inputs are drawn from the payloads. "
                "CORRESPONDENCE (model evaluated in Coq): vy_eval on generated benign texts and the 73 odd literals x both modes (trace + value / unchanged (same object) / raises -- the model never raises), vy_print on random value shapes (scalar, list, function, lazy list with cached prefix, nested) x both modes "
                "(number and kind of output effects; online text = offline text), function_call/vy_exec on strings and numbers, execute_vyxal on generated scenarios (inputs, flags c O o Ṡ, body of prints/E/†/Ė, raising body, transpile failure, final value that prints or raises) x both modes. "
                "Non-trivial = the run involves a user text, an input, a printing element or an error / the value is not a bare scalar; distinct by canonical input.")
    import time
    t0 = time.time()
    sink_summary(env)
    correspondence(env)
    t1 = time.time()
    oracle(env)
    t2 = time.time()
    out_of_scope_probes(env)
    env.note("phase_seconds", {"correspondence": round(t1 - t0, 1), "oracle": round(t2 - t1, 1), "probes": round(time.time() - t2, 1)})
    V.log(f"[C19] correspondence {t1 - t0:.1f}s, oracle {t2 - t1:.1f}s")
    env.assume("host-level effects (what reaches the host's stdout, what the interpreter compiles and executes) are OBSERVED on the runs above through audit events, not proved: the C19 claim is partial there")
    env.assume("the sink table is syntactic: call sites of the builtin names / dotted names listed in tools/gen_sinks.py in vyxal/*.py and in string constants that parse as Python; "
               "getattr/importlib tricks, sinks inside sympy or the standard library, and flask_app.py are outside it")
    env.assume("path conditions drop conjuncts they cannot use (early returns) and never invent one; ctx.online is assumed constant during a run, which the table obligation on the writes to `.online` supports")
    env.assume("the sinks listed in Model/Online.v (legit_unguarded, noted_out_of_scope) are justified by reading the code, not by proof; "
               "that transpiled code contains user text only as quoted literals is properties C18/C06")
    env.assume("ctx forwarding is checked syntactically (explicit keyword / enough positional arguments / helper handed on to a call that gets ctx=...); "
               "'can reach a mode decision' is an over-approximating name-based call graph; the 12 listed call sites that keep the default were judged by reading the code and by the dynamic sweep")
    env.assume("the effect-trace models equal the implementation's decision logic (checked by the correspondence, not proved)")


def search_without_tables(env):
    env.rule = "translator failed; oracle on the implementation only"
    try:
        oracle(env)
    except Exception as e:  # noqa: BLE001
        env.proof_broken("implementation does not run", repr(e))


def replay(rec):
    import json
    V.import_repo()
    f = rec.get("failure") or {}
    inp = f.get("input") or {}
    print(json.dumps(rec, ensure_ascii=False, indent=1)[:3000])
    if "program" in inp:
        r = oracle_case({"prog": inp["program"], "inputs": inp.get("inputs", []), "flags": inp.get("flags", ""),
                         "texts": [p for p in PAYLOADS + LITERALS if p in inp["program"]]})
        print("replayed on the current tree:", r["bad"] or "no violation", "err =", r["err"])
        return 1 if r["bad"] else 0
    return 0
