"""C17 — number-theory builtins agree with their textbook definitions.

Deciding method: theorems in coq/Properties/C17.v about the executable reference
definitions of coq/Model/NumTheory.v (trial division, Pascal's triangle, counting
coprimes, repeated division by the base, ...).  The tie to /repo is the correspondence
below: the element templates of vyxal/elements.py are executed in-process, their
canonicalised answers are written into Coq case files and compared with the model by
vm_compute inside Coq.  The oracle states the property directly on the implementation
(naive Python reference definitions, independent of the Coq model) to find concrete
failing inputs."""
from __future__ import annotations

import math

from vlib import common as V
from vlib import nasty as N

# name -> element key (the template text of the key is executed, so a change of the
# table entry is seen as well as a change of the anchored function)
KEYS = {
    "is_prime": "æ", "prime_factors": "ǐ", "prime_factorisation": "Ǐ", "divisors": "K",
    "gcd": "ġ", "lcm": "∆Ŀ", "factorial": "¡", "binomial": "ƈ", "totient": "∆ṫ",
    "next_prime": "∆Ṗ", "bin": "b", "from_bin": "B", "hex": "H",
    "inclusive_one_range": "ɾ", "inclusive_zero_range": "ʀ",
    "exclusive_one_range": "ɽ", "exclusive_zero_range": "ʁ",
    "halve": "½", "double": "d", "square": "²", "sqrt": "√", "digit_sum": "∑", "digits": "f",
}
ANCHORS = ["is_prime", "prime_factors", "prime_factorisation", "divisors_or_prefixes", "vy_gcd",
           "lowest_common_multiple", "factorial", "n_choose_r", "totient", "next_prime", "vy_bin",
           "vy_hex", "vy_int", "inclusive_one_range", "inclusive_zero_range", "exclusive_one_range",
           "exclusive_zero_range", "halve", "multiply", "square", "square_root", "vy_sum", "deep_flatten"]

EXCLUDED = {
    "prime_factors(0)": "0 has no prime factorisation",
    "prime_factorisation(0)": "every prime divides 0: the set of prime divisors is infinite",
    "divisors(0)": "every positive integer divides 0: the set of divisors is infinite",
    "totient(0)": "Euler's totient is defined for n >= 1",
}

# ----------------------------------------------------------------------------
# implementation side
# ----------------------------------------------------------------------------
_G = None


def _impl():
    global _G
    if _G is None:
        V.import_repo()
        import sympy
        from vyxal import elements as E
        from vyxal.context import Context
        from vyxal.LazyList import LazyList
        codes = {n: compile(E.elements[k][0], f"<element {k}>", "exec") for n, k in KEYS.items()}
        _G = {"sympy": sympy, "E": E, "LazyList": LazyList, "codes": codes,
              "globals": dict(E.__dict__), "ctx": Context()}
    return _G


def canon(v, depth=0):
    """Canonical form of an implementation value: int | ('q', p, q) | ('sym', text) |
    str | list of canonical forms."""
    g = _impl()
    sympy = g["sympy"]
    if isinstance(v, bool):
        return int(v)
    if isinstance(v, int):
        return v
    if isinstance(v, sympy.Integer):
        return int(v)
    if isinstance(v, sympy.Rational):
        return ("q", int(v.p), int(v.q))
    if isinstance(v, sympy.Basic):
        return ("sym", str(v))
    if isinstance(v, float):
        return ("float", repr(v))
    if isinstance(v, str):
        return v
    if isinstance(v, (list, tuple, g["LazyList"])) and depth < 4:
        out = []
        for i, x in enumerate(v):
            if i > 2_000_000:
                return ("too-long",)
            out.append(canon(x, depth + 1))
        return out
    return ("other", type(v).__name__)


def call(name, *args):
    """Run the element's template on a fresh stack holding args; canonical result,
    or ('exc', class name)."""
    g = _impl()
    stack = list(args)
    env = g["globals"]
    env["stack"] = stack
    env["ctx"] = g["ctx"]
    try:
        exec(g["codes"][name], env)
        return canon(stack[-1])
    except Exception as e:  # noqa: BLE001
        return ("exc", type(e).__name__)


# ----------------------------------------------------------------------------
# naive reference definitions (Python), independent of sympy and of the Coq model
# ----------------------------------------------------------------------------
def ref_is_prime(n):
    if n < 2:
        return False
    if n % 2 == 0:
        return n == 2
    d = 3
    while d * d <= n:
        if n % d == 0:
            return False
        d += 2
    return True


def ref_factor(n):
    """n >= 1: prime factors with multiplicity, ascending."""
    out = []
    d = 2
    while d * d <= n:
        while n % d == 0:
            out.append(d)
            n //= d
        d += 1 if d == 2 else 2
    if n > 1:
        out.append(n)
    return out


def ref_divisors(n):
    return [d for d in range(1, n + 1) if n % d == 0]


def ref_gcd(a, b):
    while b:
        a, b = b, a % b
    return a


def ref_lcm(a, b):
    return 0 if a == 0 or b == 0 else a * b // ref_gcd(a, b)


def ref_totient(n):
    return sum(1 for k in range(1, n + 1) if math.gcd(k, n) == 1)


def ref_next_prime(n):
    m = n + 1
    while not ref_is_prime(m):
        m += 1
    return m


def ref_digits(n, b):
    if n == 0:
        return [0]
    out = []
    while n:
        out.append(n % b)
        n //= b
    return out[::-1]


HEXD = "0123456789abcdef"


def ref_hex(n):
    return "".join(HEXD[d] for d in ref_digits(n, 16))


def ref_isqrt(n):
    """integer root if n is a perfect square, else None (bisection)."""
    lo, hi = 0, n + 1
    while hi - lo > 1:
        mid = (lo + hi) // 2
        if mid * mid <= n:
            lo = mid
        else:
            hi = mid
    return lo if lo * lo == n else None


def ref_halve(n):
    return n // 2 if n % 2 == 0 else ("q", n, 2)


def pascal_rows(nmax, kmax):
    """rows[n][k] = C(n, k) for k <= kmax by Pascal's rule."""
    rows = [[1] + [0] * kmax]
    for n in range(1, nmax + 1):
        p = rows[-1]
        rows.append([1] + [p[k - 1] + p[k] for k in range(1, kmax + 1)])
    return rows


# ----------------------------------------------------------------------------
# oracle workers: the property stated on the implementation
# ----------------------------------------------------------------------------
def _bad(out, fn, inp, want, got):
    if len(out) < 20:
        out.append({"fn": fn, "input": inp, "want": _short(want), "got": _short(got)})


def _short(x):
    s = repr(x)
    return s if len(s) <= 300 else s[:300] + "..."


def _sorted_ints(v):
    """The order of the list returned by prime_factors is not part of the property (a
    factorisation is a multiset; the implementation's order is unspecified for large n):
    compared after sorting."""
    return sorted(v) if is_ints(v) else v


def check_monads(n, out, ranges=True, fact=None):
    """All monadic statements of the property at n (n >= 0); appends failures."""
    ip = call("is_prime", n)
    if ip != int(ref_is_prime(n)):
        _bad(out, "is_prime", n, int(ref_is_prime(n)), ip)
    if n >= 1:
        fs = ref_factor(n)
        got = call("prime_factors", n)
        if _sorted_ints(got) != fs:
            _bad(out, "prime_factors", n, fs, got)
        got = call("prime_factorisation", n)
        if got != sorted(set(fs)):
            _bad(out, "prime_factorisation", n, sorted(set(fs)), got)
        ds = ref_divisors(n)
        got = call("divisors", n)
        if got != ds:
            _bad(out, "divisors", n, ds, got)
        t = ref_totient(n)
        got = call("totient", n)
        if got != t:
            _bad(out, "totient", n, t, got)
    np_ = ref_next_prime(n)
    got = call("next_prime", n)
    if got != np_:
        _bad(out, "next_prime", n, np_, got)
    check_notation(n, out)
    check_arith(n, out)
    if ranges:
        for fn, want in (("inclusive_one_range", list(range(1, n + 1))), ("inclusive_zero_range", list(range(0, n + 1))),
                         ("exclusive_one_range", list(range(1, n))), ("exclusive_zero_range", list(range(0, n)))):
            got = call(fn, n)
            if got != want:
                _bad(out, fn, n, want, got)
    if fact is not None:
        got = call("factorial", n)
        if got != fact:
            _bad(out, "factorial", n, fact, got)


def check_notation(n, out):
    bits = ref_digits(n, 2)
    got = call("bin", n)
    if got != bits:
        _bad(out, "bin", n, bits, got)
    if isinstance(got, list):
        back = call("from_bin", got)
        if back != n:
            _bad(out, "from_bin(bin(n))", n, n, back)
    back = call("from_bin", bits)
    if back != n:
        _bad(out, "from_bin", bits, n, back)
    hx = ref_hex(n)
    got = call("hex", n)
    if got != hx:
        _bad(out, "hex", n, hx, got)
    if isinstance(got, str):
        back = call("hex", got)
        if back != n:
            _bad(out, "from_hex(hex(n))", n, n, back)
    back = call("hex", hx.upper())
    if back != n:
        _bad(out, "from_hex", hx.upper(), n, back)
    ds = ref_digits(n, 10)
    got = call("digits", n)
    if got != ds:
        _bad(out, "digits", n, ds, got)
    got = call("digit_sum", n)
    if got != sum(ds):
        _bad(out, "digit_sum", n, sum(ds), got)


def check_arith(n, out):
    got = call("double", n)
    if got != n + n:
        _bad(out, "double", n, n + n, got)
    h = call("halve", n)
    if h != ref_halve(n):
        _bad(out, "halve", n, ref_halve(n), h)
    g = _impl()
    # the inverse pairs on the implementation's own values (uncanonicalised in between)
    for first, second, label in (("double", "halve", "halve(double(n))"), ("halve", "double", "double(halve(n))"),
                                 ("square", "sqrt", "sqrt(square(n))")):
        env = g["globals"]
        stack = [n]
        env["stack"] = stack
        env["ctx"] = g["ctx"]
        try:
            exec(g["codes"][first], env)
            exec(g["codes"][second], env)
            back = canon(stack[-1])
        except Exception as e:  # noqa: BLE001
            back = ("exc", type(e).__name__)
        if back != n:
            _bad(out, label, n, n, back)
    got = call("square", n)
    if got != n * n:
        _bad(out, "square", n, n * n, got)
    r = ref_isqrt(n)
    got = call("sqrt", n)
    if r is not None:
        if got != r:
            _bad(out, "sqrt", n, r, got)
    elif isinstance(got, int) or (isinstance(got, tuple) and got[0] in ("q", "exc")):
        _bad(out, "sqrt", n, "an irrational value (n is not a perfect square)", got)


def oracle_chunk(item):
    lo, hi, range_limit, fact_limit = item
    out = []
    f = None
    if lo <= fact_limit:
        f = 1
        for i in range(2, lo + 1):
            f *= i
    for n in range(lo, hi):
        if n > fact_limit:
            f = None
        elif n > lo and n > 1:
            f *= n
        check_monads(n, out, ranges=(n <= range_limit), fact=f)
    return out


def oracle_dyads(item):
    a, pmax = item
    out = []
    row = pascal_rows(a, pmax)[a]
    for b in range(0, pmax + 1):
        g = call("gcd", a, b)
        if g != ref_gcd(a, b):
            _bad(out, "gcd", [a, b], ref_gcd(a, b), g)
        l = call("lcm", a, b)
        if l != ref_lcm(a, b):
            _bad(out, "lcm", [a, b], ref_lcm(a, b), l)
        if isinstance(g, int) and isinstance(l, int) and g * l != a * b:
            _bad(out, "gcd*lcm", [a, b], a * b, g * l)
        c = call("binomial", a, b)
        if c != row[b]:
            _bad(out, "binomial", [a, b], row[b], c)
    return out


def oracle_large(item):
    """Large and classically hard n: every statement checked against the independent
    reference of vlib/nasty.py (deterministic Miller-Rabin with the first 13 prime bases, a
    proof below 3.3 * 10^24, + strong Lucas above; recorded factorisations of constructed
    numbers, else Pollard rho; no sympy).  m is the second operand of the dyads; `full` is
    false when n is too large to factor without a recorded factorisation (then only
    primality, next prime, notation, arithmetic and the dyads are checked)."""
    n, m, _kind, full = item
    out = []
    want = int(N.is_prime_ref(n))
    ip = call("is_prime", n)
    if ip != want:
        _bad(out, "is_prime", n, want, ip)
    if n >= 1 and full:
        fs = N.factor_ref(n)
        got = call("prime_factors", n)
        if not is_ints(got) or math.prod(got) != n or not all(N.is_prime_ref(p) for p in got) or sorted(got) != fs:
            _bad(out, "prime_factors", n, fs, got)
        elif got != fs:
            out.append({"unsorted": n, "got": got})
        got = call("prime_factorisation", n)
        if got != sorted(set(fs)):
            _bad(out, "prime_factorisation", n, sorted(set(fs)), got)
        ds = N.divisors_ref(n)
        got = call("divisors", n)
        if got != ds:
            _bad(out, "divisors", n, ds, got)
        t = N.totient_ref(n)
        got = call("totient", n)
        if got != t:
            _bad(out, "totient", n, t, got)
    np_ = N.next_prime_ref(n)
    got = call("next_prime", n)
    if got != np_:
        _bad(out, "next_prime", n, np_, got)
    check_notation(n, out)
    check_arith(n, out)
    g = call("gcd", n, m)
    if g != ref_gcd(n, m):
        _bad(out, "gcd", [n, m], ref_gcd(n, m), g)
    l = call("lcm", n, m)
    if l != ref_lcm(n, m):
        _bad(out, "lcm", [n, m], ref_lcm(n, m), l)
    k = m % 12
    nn = n % 100003
    want = 1
    for i in range(1, k + 1):
        want = want * (nn - k + i) // i if nn >= k else 0
    c = call("binomial", nn, k)
    if c != want:
        _bad(out, "binomial", [nn, k], want, c)
    return out


# ----------------------------------------------------------------------------
# correspondence: implementation answers compared with the model inside Coq
# ----------------------------------------------------------------------------
PRE = """From Coq Require Import List ZArith NArith Bool.
From Vy Require Import Model.NumTheory.
Import ListNotations.
Open Scope Z_scope.
Fixpoint zl_eqb (a b : list Z) : bool :=
  match a, b with [], [] => true | x :: a', y :: b' => (x =? y) && zl_eqb a' b' | _, _ => false end.
Fixpoint nl_eqb (a b : list N) : bool :=
  match a, b with [], [] => true | x :: a', y :: b' => N.eqb x y && nl_eqb a' b' | _, _ => false end.
Definition oz_eqb (a b : option Z) : bool :=
  match a, b with Some x, Some y => x =? y | None, None => true | _, _ => false end.
"""


def zs(l):
    return "([] : list Z)" if not l else "[" + "; ".join(str(x) if x >= 0 else f"({x})" for x in l) + "]"


def is_ints(v):
    return isinstance(v, list) and all(isinstance(x, int) and not isinstance(x, bool) for x in v)


def impl_row(n):
    """Everything the correspondence needs at n."""
    r = {"n": n}
    for fn in ("is_prime", "next_prime", "bin", "hex", "digits", "digit_sum", "double", "halve", "square", "sqrt"):
        r[fn] = call(fn, n)
    if n >= 1:
        for fn in ("prime_factors", "prime_factorisation", "divisors", "totient"):
            r[fn] = call(fn, n)
        r["prime_factors"] = _sorted_ints(r["prime_factors"])
    r["from_bin"] = call("from_bin", ref_digits(n, 2))
    r["from_hex"] = call("hex", ref_hex(n).upper() if n % 2 else ref_hex(n))
    return r


def impl_hard(n):
    return {"n": n, "is_prime": call("is_prime", n), "prime_factors": _sorted_ints(call("prime_factors", n)),
            "prime_factorisation": call("prime_factorisation", n)}


def impl_small(n):
    r = {"n": n, "factorial": call("factorial", n)}
    for fn in ("inclusive_one_range", "inclusive_zero_range", "exclusive_one_range", "exclusive_zero_range"):
        r[fn] = call(fn, n)
    return r


def impl_pairs(item):
    a, pmax = item
    return {"a": a, "gcd": [call("gcd", a, b) for b in range(pmax + 1)], "lcm": [call("lcm", a, b) for b in range(pmax + 1)],
            "binomial": [call("binomial", a, b) for b in range(pmax + 1)]}


# component -> (shape test of the implementation value, Coq case text, Coq checker, python hint)
def _int(v):
    return isinstance(v, int) and not isinstance(v, bool)


def _halve_ok(v):
    return _int(v) or (isinstance(v, tuple) and v[0] == "q")


def _halve_coq(v):
    return f"({v}, 1)" if _int(v) else f"({v[1]}, {v[2]})"


def _sqrt_ok(v):
    return _int(v) or (isinstance(v, tuple) and v[0] == "sym")


MONADS = {
    "is_prime": (lambda v: v in (0, 1), lambda v: "true" if v else "false",
                 "fun c => Bool.eqb (is_prime (fst c)) (snd c)", lambda n: int(ref_is_prime(n))),
    "next_prime": (_int, str, "fun c => oz_eqb (next_prime (fst c)) (Some (snd c))", ref_next_prime),
    "prime_factors": (is_ints, zs, "fun c => zl_eqb (prime_factors (fst c)) (snd c)", ref_factor),
    "prime_factorisation": (is_ints, zs, "fun c => zl_eqb (distinct_prime_factors (fst c)) (snd c)", lambda n: sorted(set(ref_factor(n)))),
    "divisors": (is_ints, zs, "fun c => zl_eqb (divisors (fst c)) (snd c)", ref_divisors),
    "totient": (_int, str, "fun c => totient (fst c) =? snd c", ref_totient),
    "bin": (is_ints, zs, "fun c => zl_eqb (to_bin (fst c)) (snd c)", lambda n: ref_digits(n, 2)),
    "from_bin": (_int, str, "fun c => from_bin (to_bin (fst c)) =? snd c", lambda n: n),
    "hex": (lambda v: isinstance(v, str), V.cstr, "fun c => nl_eqb (to_hex (fst c)) (snd c)", ref_hex),
    "digits": (is_ints, zs, "fun c => zl_eqb (digits (fst c)) (snd c)", lambda n: ref_digits(n, 10)),
    "digit_sum": (_int, str, "fun c => digit_sum (fst c) =? snd c", lambda n: sum(ref_digits(n, 10))),
    "double": (_int, str, "fun c => double (fst c) =? snd c", lambda n: 2 * n),
    "halve": (_halve_ok, _halve_coq, "fun c => let '(p, q) := halve (fst c) in (p =? fst (snd c)) && (q =? snd (snd c))", ref_halve),
    "square": (_int, str, "fun c => square (fst c) =? snd c", lambda n: n * n),
    "sqrt": (_sqrt_ok, lambda v: f"Some {v}" if _int(v) else "(None : option Z)", "fun c => oz_eqb (sqrt_exact (fst c)) (snd c)", ref_isqrt),
}
SMALL = {
    "factorial": (_int, str, "fun c => factorial (fst c) =? snd c", math.factorial),
    "inclusive_one_range": (is_ints, zs, "fun c => zl_eqb (inclusive_one_range (fst c)) (snd c)", lambda n: list(range(1, n + 1))),
    "inclusive_zero_range": (is_ints, zs, "fun c => zl_eqb (inclusive_zero_range (fst c)) (snd c)", lambda n: list(range(0, n + 1))),
    "exclusive_one_range": (is_ints, zs, "fun c => zl_eqb (exclusive_one_range (fst c)) (snd c)", lambda n: list(range(1, n))),
    "exclusive_zero_range": (is_ints, zs, "fun c => zl_eqb (exclusive_zero_range (fst c)) (snd c)", lambda n: list(range(0, n))),
}


def coq_component(env, name, spec, rows, key, shard):
    """rows: list of (input n, implementation value).  Evaluates the model on every n
    inside Coq and compares with the embedded implementation value."""
    okshape, lit, checker, hint = spec
    cases = []
    for n, v in rows:
        if okshape(v):
            cases.append((n, v))
        else:  # an exception or a value of another type cannot equal the model's value
            env.disagree(name, {key: n}, _short(hint(n)), _short(v))
    if not cases:
        return 0
    ok, bad, logs = env.coq_mismatches(
        "c17_" + name, PRE, lambda lo, hi: "[" + ";\n".join(f"({n}, {lit(v)})" for n, v in cases[lo:hi]) + "]",
        checker, len(cases), shard=shard)
    if not ok:
        env.proof_broken(f"correspondence cases of {name} failed to evaluate in Coq", logs)
    for i in bad:
        n, v = cases[i]
        env.disagree(name, {key: n}, _short(hint(n)) + " (python mirror of the model)", _short(v))
    return len(cases)


def correspondence(env):
    nmax = env.budget(300, 3000)
    smax = env.budget(120, 400)
    pmax = env.budget(40, 120)
    shard = env.budget(80, 200)
    total = 0
    res = V.pmap(impl_row, list(range(0, nmax + 1)), timeout=30)
    rows = []
    for n, (st, r) in enumerate(res):
        if st != "ok":
            env.proof_broken(f"implementation run for correspondence failed at n={n}", f"{st}: {r}")
        else:
            rows.append(r)
    for name, spec in MONADS.items():
        lo = 1 if name in ("prime_factors", "prime_factorisation", "divisors", "totient") else 0
        total += coq_component(env, name, spec, [(r["n"], r[name]) for r in rows if r["n"] >= lo], "n", shard)
    # the hard numbers within reach of the model's trial division (square root <= 5500)
    hard = [n for n, _ in N.hard_integers(limit=3 * 10 ** 7) if n > nmax]
    res = V.pmap(impl_hard, hard, timeout=30)
    hrows = [r for st, r in res if st == "ok"]
    if len(hrows) != len(hard):
        env.proof_broken("implementation run for correspondence failed (hard numbers)", repr([r for r in res if r[0] != "ok"][:3]))
    for name in ("is_prime", "prime_factors", "prime_factorisation"):
        total += coq_component(env, name + "_hard", MONADS[name], [(r["n"], r[name]) for r in hrows], "n", 60)
    env.note("correspondence_hard_numbers", {"count": len(hard), "upto": 3 * 10 ** 7, "functions": ["is_prime", "prime_factors", "prime_factorisation"]})
    # from_hex: the string handed to the implementation is the model's own to_hex
    # (lower case for even n, upper case for odd n); the model parses it back
    fh = [(r["n"], r["from_hex"]) for r in rows]
    spec = (_int, str, "fun c => let s := to_hex (fst c) in let s' := if Z.even (fst c) then s else "
            "map (fun ch => if (97 <=? ch)%N then (ch - 32)%N else ch) s in oz_eqb (from_hex s') (Some (snd c))", lambda n: n)
    total += coq_component(env, "from_hex", spec, fh, "n", shard)
    res = V.pmap(impl_small, list(range(0, smax + 1)), timeout=30)
    small = [r for st, r in res if st == "ok"]
    if len(small) != smax + 1:
        env.proof_broken("implementation run for correspondence failed (factorial/ranges)", repr([r for r in res if r[0] != "ok"][:3]))
    for name, spec in SMALL.items():
        total += coq_component(env, name, spec, [(r["n"], r[name]) for r in small], "n", 60)
    # dyads
    res = V.pmap(impl_pairs, [(a, pmax) for a in range(pmax + 1)], timeout=60)
    pairs = [r for st, r in res if st == "ok"]
    if len(pairs) != pmax + 1:
        env.proof_broken("implementation run for correspondence failed (dyads)", repr([r for r in res if r[0] != "ok"][:3]))
    gl = []
    for r in pairs:
        for b, (g, l) in enumerate(zip(r["gcd"], r["lcm"])):
            if _int(g) and _int(l):
                gl.append((r["a"], b, g, l))
            else:
                env.disagree("gcd/lcm", {"a": r["a"], "b": b}, [ref_gcd(r["a"], b), ref_lcm(r["a"], b)], _short([g, l]))
    ok, bad, logs = env.coq_mismatches(
        "c17_gcdlcm", PRE, lambda lo, hi: "[" + ";\n".join(f"({a}, {b}, {g}, {l})" for a, b, g, l in gl[lo:hi]) + "]",
        "fun c => match c with (a, b, g, l) => (gcd a b =? g) && (lcm a b =? l) end", len(gl), shard=1500)
    if not ok:
        env.proof_broken("correspondence cases of gcd/lcm failed to evaluate in Coq", logs)
    for i in bad:
        a, b, g, l = gl[i]
        env.disagree("gcd/lcm", {"a": a, "b": b}, [ref_gcd(a, b), ref_lcm(a, b)], [g, l])
    total += len(gl)
    br = []
    for r in pairs:
        if is_ints(r["binomial"]):
            br.append((r["a"], r["binomial"]))
        else:
            env.disagree("binomial", {"n": r["a"]}, "row of Pascal's triangle", _short(r["binomial"]))
    ok, bad, logs = env.coq_mismatches(
        "c17_binomial", PRE, lambda lo, hi: "[" + ";\n".join(f"({a}, {zs(row)})" for a, row in br[lo:hi]) + "]",
        f"fun c => zl_eqb (binomial_row (fst c) {pmax + 1}) (snd c)", len(br), shard=20)
    if not ok:
        env.proof_broken("correspondence cases of binomial failed to evaluate in Coq", logs)
    rows_ref = pascal_rows(pmax, pmax)
    for i in bad:
        a, row = br[i]
        ks = [k for k in range(pmax + 1) if row[k] != rows_ref[a][k]]
        env.disagree("binomial", {"n": a, "k": ks[:5]}, _short([rows_ref[a][k] for k in ks[:5]]), _short([row[k] for k in ks[:5]]))
    total += len(br) * (pmax + 1)
    env.note("correspondence", {"monads_n_upto": nmax, "factorial_and_ranges_n_upto": smax, "dyad_pairs_upto": pmax,
                                "cases_evaluated_in_coq": total})
    env.count(total, ())
    return rows


# ----------------------------------------------------------------------------
# inputs
# ----------------------------------------------------------------------------
FACTOR_LIMIT = 2 ** 70   # above it only numbers with a recorded factorisation are factored


def large_inputs(env):
    """(n, second operand, kind, full) items: the whole hard pool of vlib/nasty.py
    (non-negative part: the property speaks of non-negative arguments) and random n."""
    rng = env.rng
    hard = N.hard_integers()
    xs = [(n, kind) for n, kind in hard]
    structured = len(xs)
    nrand = env.budget(150, 1500)
    for i in range(nrand):
        if i % 3 == 0:
            xs.append((rng.randint(20001, 10 ** 12), "random-uniform-10^12"))
        elif i % 3 == 1:
            xs.append((rng.getrandbits(rng.randint(15, 64)) + 1, "random-bits-15..64"))
        else:   # a product of two random primes of equal size: the hard case of factoring
            b = rng.randint(8, 30)
            p, q = N.next_prime_ref(rng.getrandbits(b) + 2), N.next_prime_ref(rng.getrandbits(b) + 2)
            xs.append((p * q, "random-semiprime"))
    pool = [n for n, _ in hard if n > 1]
    items = []
    for i, (n, kind) in enumerate(xs):
        if i % 3 == 0:
            m = rng.choice(pool)                                   # another hard number
        elif i % 3 == 1:
            fs = N.HARD_FACTORS.get(n)
            m = (rng.choice(fs) if fs else (ref_gcd(n, 720720) or 1)) * rng.randint(0, 10 ** 6)   # shares a factor with n
        else:
            m = rng.randint(0, 10 ** 12)
        items.append((n, m, kind, n <= FACTOR_LIMIT or n in N.HARD_FACTORS))
    return items, structured


UNSORTED = []


def collect(env, res, items, what):
    for it, (st, out) in zip(items, res):
        if st != "ok":
            env.proof_broken(f"oracle worker {what} did not finish on {it!r}", f"{st}: {out}")
            continue
        for f in out:
            if "unsorted" in f:
                UNSORTED.append((f["unsorted"], f["got"]))
                continue
            env.fail({"fn": f["fn"], "input": f["input"]}, f"{f['fn']}({f['input']}) returns {f['got']}, the definition gives {f['want']}",
                     cls=f"{f['fn']}:{f['input']}")


def oracle(env):
    nmax = env.budget(2000, 20000)
    range_limit = env.budget(500, 2000)
    fact_limit = env.budget(2000, 5000)
    step = env.budget(50, 100)
    items = [(lo, min(lo + step, nmax + 1), range_limit, fact_limit) for lo in range(0, nmax + 1, step)]
    res = V.pmap(oracle_chunk, items, timeout=600, chunksize=1)
    collect(env, res, items, "exhaustive")
    per_n = 25
    env.count((nmax + 1) * per_n, (f"n:{n}" for n in range(2, nmax + 1)))
    pmax = env.budget(100, 300)
    items = [(a, pmax) for a in range(pmax + 1)]
    res = V.pmap(oracle_dyads, items, timeout=600, chunksize=1)
    collect(env, res, items, "dyads")
    env.count(3 * (pmax + 1) ** 2, (f"pair:{a},{b}" for a in range(1, pmax + 1) for b in range(1, pmax + 1)))
    items, structured = large_inputs(env)
    res = V.pmap(oracle_large, items, timeout=300, chunksize=1)
    collect(env, res, items, "large")
    env.count(len(items) * 27, (f"n:{it[0]}" for it in items))
    bits, kinds = {}, {}
    for it in items:
        bits[it[0].bit_length()] = bits.get(it[0].bit_length(), 0) + 1
        k = it[2].split("-first")[0]
        kinds[k] = kinds.get(k, 0) + 1
    env.note("oracle", {
        "exhaustive_n": [0, nmax], "ranges_exhaustive_n_upto": range_limit, "factorial_exhaustive_n_upto": fact_limit,
        "dyads_all_pairs_upto": pmax, "large_inputs": len(items), "large_structured": structured,
        "large_not_factored": sum(1 for it in items if not it[3]),
        "large_kinds": kinds,
        "large_structured_source": "vlib/nasty.py hard_integers(): built by construction (psi_1..psi_13 verified, p(r(p-1)+1) strong pseudoprimes, "
                                   "Korselt/Chernick Carmichael numbers, Poulet numbers, primes near 10^k and 2^31/2^32/2^53/2^63/2^64 with neighbours, "
                                   "squares, cubes, products of close primes, Mersenne/Fermat numbers, 2^k, 10^k, n!, primorials with +-1)",
        "large_reference": "vlib/nasty.py: deterministic Miller-Rabin (first 13 prime bases, proof below 3.3e24) + strong Lucas above; recorded "
                           "factorisations or Pollard rho; no sympy",
        "large_random_distribution": "a third uniform on [20001, 10^12], a third uniform bit length 15..64 then uniform bits, a third products of two "
                                     "random primes of 8..30 bits; second operand: another hard number / a multiple of a prime factor of n / uniform to 10^12",
        "large_bit_length_histogram": {str(k): v for k, v in sorted(bits.items())},
    })
    return items


# ----------------------------------------------------------------------------
# dense sweep  (input family added after the seeded defect C17e-2)
#
# Family: EVERY n of a dense range two orders of magnitude beyond the exhaustive naive range
# (0..2*10^5 quick / 0..10^6 thorough) for all six factorisation-like builtins (is_prime,
# prime_factors, prime_factorisation, divisors, totient, next_prime), plus p*p*m and p*q*m for
# ALL consecutive primes p < q below 10^4 and every small cofactor m.  Why general: an
# implementation that replaces sympy by tables / trial division / thresholds can be wrong on
# a handful of isolated n (a table one entry short, an off-by-one threshold) that no random
# draw and no hand-made pool hits; a dense range leaves no gaps below the bound, and the
# neighbouring-prime products are exactly the numbers whose smallest factor is as large as it
# can be, i.e. the last ones a short table gets right, at every table length up to 10^4.
# The reference is a smallest-prime-factor sieve (no sympy, no division in the factoring),
# the products are decided by construction.
# ----------------------------------------------------------------------------
_SPF = None
COFACTORS = (1, 2, 3, 5, 7, 210)


def build_spf(limit):
    """smallest prime factor of every n <= limit (sieve of Eratosthenes)."""
    global _SPF
    spf = list(range(limit + 1))
    i = 2
    while i * i <= limit:
        if spf[i] == i:
            for j in range(i * i, limit + 1, i):
                if spf[j] == j:
                    spf[j] = i
        i += 1
    _SPF = spf
    return spf


def sieve_factor(n):
    out = []
    while n > 1:
        p = _SPF[n]
        out.append(p)
        n //= p
    return out


def divisors_from(fs):
    """all divisors, ascending, from the sorted prime factors with multiplicity."""
    ds = [1]
    i = 0
    while i < len(fs):
        p, e = fs[i], 0
        while i < len(fs) and fs[i] == p:
            e += 1
            i += 1
        ds = [d * p ** k for d in ds for k in range(e + 1)]
    return sorted(ds)


def totient_from(n, fs):
    for p in set(fs):
        n = n // p * (p - 1)
    return n


def check_factoring(n, fs, nxt, out):
    """n >= 1 with its known sorted prime factors fs and (if not None) the next prime."""
    want = int(len(fs) == 1)
    got = call("is_prime", n)
    if got != want:
        _bad(out, "is_prime", n, want, got)
    got = call("prime_factors", n)
    if _sorted_ints(got) != fs:
        _bad(out, "prime_factors", n, fs, got)
    got = call("prime_factorisation", n)
    if got != sorted(set(fs)):
        _bad(out, "prime_factorisation", n, sorted(set(fs)), got)
    want = divisors_from(fs)
    got = call("divisors", n)
    if got != want:
        _bad(out, "divisors", n, want, got)
    want = totient_from(n, fs)
    got = call("totient", n)
    if got != want:
        _bad(out, "totient", n, want, got)
    if nxt is not None:
        got = call("next_prime", n)
        if got != nxt:
            _bad(out, "next_prime", n, nxt, got)


def oracle_dense(item):
    lo, hi = item
    out = []
    nxt = lo + 1
    for n in range(max(lo, 1), hi):
        if nxt <= n:
            nxt = n + 1
        while _SPF[nxt] != nxt:
            nxt += 1
        check_factoring(n, sieve_factor(n), nxt, out)
    return out


def oracle_products(item):
    out = []
    for n, fs in item:
        check_factoring(n, fs, N.next_prime_ref(n), out)
    return out


def dense(env):
    import time
    t0 = time.time()
    nmax = env.budget(2 * 10 ** 5, 10 ** 6)
    pmax = 10 ** 4
    build_spf(nmax + 1000)          # the margin holds the next prime after nmax (prime gaps below 10^6 are < 200)
    step = 2000
    items = [(lo, min(lo + step, nmax + 1)) for lo in range(0, nmax + 1, step)]
    res = V.pmap(oracle_dense, items, timeout=300, chunksize=1)
    collect(env, res, items, "dense")
    env.count(6 * nmax, (f"n:{n}" for n in range(2, nmax + 1)))
    primes = [p for p in range(2, pmax) if _SPF[p] == p]
    prods = {}
    for p, q in zip(primes, primes[1:]):
        for m in COFACTORS:
            prods[p * p * m] = sorted([p, p] + sieve_factor(m))
            prods[p * q * m] = sorted([p, q] + sieve_factor(m))
    prods = sorted(prods.items())
    items = [prods[i:i + 200] for i in range(0, len(prods), 200)]
    res = V.pmap(oracle_products, items, timeout=300, chunksize=1)
    collect(env, res, [(it[0][0], it[-1][0]) for it in items], "prime products")
    env.count(6 * len(prods), (f"n:{n}" for n, _ in prods))
    env.note("oracle_dense", {
        "seconds": round(time.time() - t0, 1), "every_n": [1, nmax], "functions": ["is_prime", "prime_factors", "prime_factorisation", "divisors", "totient", "next_prime"],
        "reference": "smallest-prime-factor sieve (no sympy); divisors and totient derived from the sieve's factorisation",
        "prime_products": {"count": len(prods), "form": "p*p*m and p*q*m for all consecutive primes p < q < %d, m in %r" % (pmax, list(COFACTORS)),
                           "largest": prods[-1][0], "reference": "by construction; next prime by deterministic Miller-Rabin"}})


# ----------------------------------------------------------------------------
# history independence  (observation sequence added after the seeded defect C17e-1)
#
# Family: the property is a statement about every CALL, so the answer must not depend on
# what the process did before.  One fresh process (forked from the freshly imported state)
# per sequence; in it every covered builtin is asked several times, in a seeded random order,
# at arguments of a per-sequence scale, and between the calls "disturbers" run: EVERY other
# element of the element table that accepts numbers (decided by a trial run, so the set follows
# the table; elements doing input/output/evaluation are left out), with the first k items of
# whatever list it returns consumed (infinite lists included; k of a per-sequence scale drawn
# independently of the argument scale, so prefixes both shorter and far longer than anything
# the builtins were asked for occur).  Every disturber is the focus of its own sequences
# (run after about every second covered call), the others are sprinkled in.  Every covered
# answer is compared with the naive sympy-free reference.  Why general: any module-level
# cache, table, generator or counter shared between a covered builtin and anything else in
# the table (or between two calls of the builtin itself) is exercised in both orders, with
# reads beyond and below what is cached; no element, constant or argument is singled out.
# ----------------------------------------------------------------------------
IO_WORDS = ("vy_print", "input", "exit(", "vy_exec", "function_call", "request(", "ctx.inputs", "context_values", "(eval(")
ARG_SCALES = (6, 25, 100, 400)
PREFIX_SCALES = (8, 40, 150)
TRIAL_PREFIX = max(PREFIX_SCALES)
TRIAL_SECONDS = 0.25
COVERED = tuple(KEYS) + ("from_hex",)
NEEDS_POSITIVE = ("prime_factors", "prime_factorisation", "divisors", "totient")
DYADS = ("gcd", "lcm", "binomial")
_POOL = {}        # disturber key -> list of argument tuples that passed the trial


def _dcode(key):
    g = _impl()
    d = g.setdefault("dcodes", {})
    if key not in d:
        d[key] = compile(g["E"].elements[key][0], f"<element {key}>", "exec")
    return d[key]


def consume(v, k, depth=0):
    """force the first k items of a list-like value (and a few items of its items)."""
    g = _impl()
    if isinstance(v, (list, tuple, g["LazyList"])):
        import itertools
        for x in itertools.islice(iter(v), k):
            if depth < 1:
                consume(x, min(k, 5), depth + 1)
        return "inf" if isinstance(v, g["LazyList"]) and getattr(v, "infinite", False) else "list"
    return "scalar"


def run_disturber(key, args, k):
    g = _impl()
    stack = [list(a) if isinstance(a, list) else a for a in args]
    env = g["globals"]
    env["stack"] = stack
    env["ctx"] = g["ctx"]
    try:
        exec(_dcode(key), env)
        kinds = [consume(x, k) for x in stack[-2:]]
        return kinds[-1] if kinds else "nothing"
    except Exception:  # noqa: BLE001   a disturber's own answer is not the subject
        return "exc"


def trial_op(op):
    import time
    import warnings
    warnings.simplefilter("ignore")      # sympy deprecation chatter of elements outside the property
    key, args = op
    t = time.time()
    kind = run_disturber(key, args, TRIAL_PREFIX)
    return kind, time.time() - t


def ref_factorial(n):
    f = 1
    for i in range(2, n + 1):
        f *= i
    return f


def ref_binomial(n, k):
    if k > n:
        return 0
    c = 1
    for i in range(1, k + 1):
        c = c * (n - k + i) // i
    return c


def _from_digits(ds, b):
    n = 0
    for d in ds:
        n = n * b + d
    return n


REFS = {
    "is_prime": lambda n: int(ref_is_prime(n)), "prime_factors": ref_factor, "prime_factorisation": lambda n: sorted(set(ref_factor(n))),
    "divisors": ref_divisors, "gcd": ref_gcd, "lcm": ref_lcm, "factorial": ref_factorial, "binomial": ref_binomial,
    "totient": ref_totient, "next_prime": ref_next_prime, "bin": lambda n: ref_digits(n, 2), "from_bin": lambda bits: _from_digits(bits, 2),
    "hex": ref_hex, "from_hex": lambda s: _from_digits([HEXD.index(c) for c in s.lower()], 16),
    "inclusive_one_range": lambda n: list(range(1, n + 1)), "inclusive_zero_range": lambda n: list(range(0, n + 1)),
    "exclusive_one_range": lambda n: list(range(1, n)), "exclusive_zero_range": lambda n: list(range(0, n)),
    "halve": ref_halve, "double": lambda n: n + n, "square": lambda n: n * n, "digit_sum": lambda n: sum(ref_digits(n, 10)),
    "digits": lambda n: ref_digits(n, 10),
}


def covered_check(name, args):
    """One call of a covered builtin against its definition: None, or (want, got)."""
    elem = "hex" if name == "from_hex" else name
    got = call(elem, *[list(a) if isinstance(a, list) else a for a in args])
    if name == "sqrt":
        r = ref_isqrt(args[0])
        if r is not None:
            return None if got == r else (r, got)
        if isinstance(got, int) or (isinstance(got, tuple) and got[0] in ("q", "exc")):
            return ("an irrational value (n is not a perfect square)", got)
        return None
    want = REFS[name](*args)
    if name == "prime_factors":
        got = _sorted_ints(got)
    return None if got == want else (want, got)


def covered_args(rng, name, scale):
    n = rng.randint(0, 6) if rng.random() < 0.2 else rng.randint(0, scale)
    if name in NEEDS_POSITIVE:
        n = max(n, 1)
    if name in DYADS:
        return [n, rng.randint(0, scale)]
    if name == "sqrt" and rng.random() < 0.5:
        return [n * n]
    if name == "from_bin":
        return [ref_digits(n, 2)]
    if name == "from_hex":
        h = ref_hex(n)
        return [h.upper() if rng.random() < 0.5 else h]
    return [n]


def make_sequence(focus, seed, reps):
    """The operations of one process: ['c', builtin, args] | ['d', element key, args, prefix]."""
    import random
    rng = random.Random(seed)
    scale, kmax = rng.choice(ARG_SCALES), rng.choice(PREFIX_SCALES)
    keys = sorted(_POOL)
    calls = [name for name in COVERED for _ in range(reps)]
    rng.shuffle(calls)
    seq = []
    for name in calls:
        r = rng.random()
        key = focus if r < 0.5 else (rng.choice(keys) if r < 0.7 else None)
        if key is not None:
            seq.append(["d", key, rng.choice(_POOL[key]), rng.randint(1, kmax)])
        seq.append(["c", name, covered_args(rng, name, scale)])
    return seq, scale, kmax


def exec_sequence(seq, only_last=False):
    """Runs the operations in this process; the first covered call that disagrees with its
    definition is returned (only_last: the earlier covered calls are executed, not judged)."""
    for i, op in enumerate(seq):
        if op[0] == "d":
            run_disturber(op[1], op[2], op[3])
        elif only_last and i < len(seq) - 1:
            call("hex" if op[1] == "from_hex" else op[1], *[list(a) if isinstance(a, list) else a for a in op[2]])
        else:
            bad = covered_check(op[1], op[2])
            if bad is not None:
                return {"at": i, "fn": op[1], "args": op[2], "want": _short(bad[0]), "got": _short(bad[1])}
    return None


def in_child(fn, budget):
    """fn() in a forked child of this process (so that nothing it does to module-level state
    survives): ('ok', json-able result) | ('died', why).  The child carries its own alarm."""
    import json
    import os
    import signal
    r, w = os.pipe()
    pid = os.fork()
    if pid == 0:
        try:
            os.close(r)
            try:
                os.dup2(os.open(os.devnull, os.O_WRONLY), 1)
            except OSError:
                pass
            import warnings
            warnings.simplefilter("ignore")
            signal.signal(signal.SIGALRM, V._alarm)
            signal.setitimer(signal.ITIMER_REAL, budget, 0.5)
            try:
                res = ("ok", fn())
            except V.Timeout:
                res = ("died", "timeout")
            except BaseException as e:  # noqa: BLE001
                res = ("died", type(e).__name__)
            signal.setitimer(signal.ITIMER_REAL, 0)
            with os.fdopen(w, "wb") as f:
                f.write(json.dumps(res).encode())
        except BaseException:  # noqa: BLE001
            pass
        finally:
            os._exit(0)
    os.close(w)
    try:
        with os.fdopen(r, "rb") as f:
            data = f.read()
    finally:
        try:
            os.kill(pid, signal.SIGKILL)
        except ProcessLookupError:
            pass
        os.waitpid(pid, 0)
    if not data:
        return ("died", "no answer")
    return tuple(json.loads(data))


def history_worker(item):
    focus, seed, reps = item
    seq, scale, kmax = make_sequence(focus, seed, reps)
    st, res = in_child(lambda: exec_sequence(seq), 120)
    if st != "ok":
        return {"died": res, "ops": len(seq)}
    out = {"ops": len(seq), "covered": sum(1 for op in seq if op[0] == "c"), "scale": scale, "kmax": kmax, "fail": None}
    if res is not None:
        last = seq[res["at"]]
        st2, fresh = in_child(lambda: covered_check(last[1], last[2]), 60)
        res["history"] = seq[:res["at"]]
        res["fresh"] = "the definition's value" if (st2 == "ok" and fresh is None) else _short(fresh)
        out["fail"] = res
    return out


def still_fails(history, last):
    st, res = in_child(lambda: exec_sequence(history + [last], only_last=True), 120)
    return st == "ok" and res is not None


def minimise(history, last, budget=80):
    """Greedy chunk removal (each candidate in its own fresh child): a shorter history after
    which the same call still disagrees with its definition."""
    if not still_fails(history, last):
        return history        # not reproducible from the parent's state: keep the full record
    chunk = max(1, len(history) // 2)
    while chunk >= 1 and budget > 0:
        i = 0
        while i < len(history) and budget > 0:
            cand = history[:i] + history[i + chunk:]
            budget -= 1
            if still_fails(cand, last):
                history = cand
            else:
                i += chunk
        chunk //= 2
    return history


def history(env):
    import time
    t0 = time.time()
    g = _impl()
    rng = env.rng
    table = g["E"].elements
    covered_keys = set(KEYS.values())
    left_out = sorted(k for k, (t, a) in table.items() if k not in covered_keys and any(w in t for w in IO_WORDS))
    cands = [k for k, (t, a) in table.items() if k not in covered_keys and k not in left_out]
    ops = []
    per_elem = env.budget(4, 8)
    for k in cands:
        arity = table[k][1]
        for j in range(1 if arity == 0 else per_elem):
            s = ARG_SCALES[j % len(ARG_SCALES)]
            args = []
            for _ in range(arity):
                if rng.random() < 0.7:
                    args.append(rng.randint(0, s))
                else:
                    args.append([rng.randint(0, s) for _ in range(rng.randint(1, 5))])
            ops.append((k, args))
    res = V.pmap(trial_op, ops, timeout=3, hard=10)
    _POOL.clear()
    kinds, dropped = {}, {}
    for (k, args), (st, r) in zip(ops, res):
        if st == "ok" and r[0] != "exc" and r[1] < TRIAL_SECONDS:
            _POOL.setdefault(k, []).append(args)
            kinds[r[0]] = kinds.get(r[0], 0) + 1
        else:
            why = st if st != "ok" else ("exception" if r[0] == "exc" else "slow")
            dropped[why] = dropped.get(why, 0) + 1
    per_focus = env.budget(2, 6)
    reps = env.budget(4, 6)
    items = [(k, rng.getrandbits(48), reps) for k in sorted(_POOL) for _ in range(per_focus)]
    res = V.pmap(history_worker, items, timeout=200, chunksize=1)
    fails, ncalls, nops = [], 0, 0
    for it, (st, out) in zip(items, res):
        if st != "ok" or "died" in out:
            env.proof_broken(f"history sequence (focus {it[0]!r}, seed {it[1]}) did not finish", f"{st}: {out}")
            continue
        ncalls += out["covered"]
        nops += out["ops"]
        if out["fail"]:
            fails.append((it, out["fail"]))
    seen = set()
    for it, f in fails:
        if f["fn"] in seen or len(seen) >= 6:      # one minimised report per builtin
            continue
        seen.add(f["fn"])
        last = ["c", f["fn"], f["args"]]
        hist = minimise(f["history"], last)
        env.fail({"fn": f["fn"], "input": f["args"], "history": hist, "sequence": {"focus": it[0], "seed": it[1], "reps": it[2]}},
                 f"after the {len(hist)} recorded operations in one process, {f['fn']}({f['args']}) returns {f['got']}, the definition gives {f['want']}; "
                 f"the same call in a fresh process gives {f['fresh']} ({len(fails)} of {len(items)} sequences failed)",
                 cls=f"history:{f['fn']}")
    env.count(ncalls, (f"seq:{k}:{s}" for k, s, _ in items))
    env.note("oracle_history", {
        "seconds": round(time.time() - t0, 1), "sequences": len(items), "operations": nops, "covered_calls_compared": ncalls, "covered_builtins": list(COVERED),
        "calls_per_builtin_per_sequence": reps, "sequences_per_focus_disturber": per_focus,
        "disturber_elements": len(_POOL), "disturber_argument_tuples": sum(len(v) for v in _POOL.values()),
        "disturber_result_kinds_in_trial": kinds, "candidate_elements": len(cands), "trial_dropped": dropped,
        "left_out_io_elements": left_out,
        "distribution": "one fresh forked process per sequence; per sequence an argument scale from %r and a prefix scale from %r, drawn independently; "
                        "covered argument uniform on [0, scale] (a fifth of the time on [0, 6]; perfect squares for half of the root calls; both "
                        "operands of the dyads uniform); before each covered call with probability 0.5 the focus disturber, 0.2 a uniformly chosen "
                        "other disturber, with a prefix of uniform length 1..prefix scale consumed from each list it returns; disturber arguments: "
                        "ints uniform on [0, s] (0.7) or lists of 1..5 such ints (0.3), s cycling through the argument scales; an argument tuple is "
                        "kept when its trial (prefix %d) answered without exception within %.2f s" % (list(ARG_SCALES), list(PREFIX_SCALES), TRIAL_PREFIX, TRIAL_SECONDS)})


def run(env):
    env.rule = ("(1) correspondence: every monadic builtin on n = 0..300 (quick) / 0..3000 (thorough), factorial and the four ranges on "
                "n = 0..120 / 0..400, gcd, lcm, binomial on all pairs <= 40 / <= 120: the element's template is executed in-process, its "
                "canonicalised answer is embedded in a Coq case file and compared with the model by vm_compute; "
                "(2) oracle on the implementation against naive Python reference definitions: all monads for every n = 0..2000 / 0..20000 "
                "(ranges to 500 / 2000, factorial to 2000 / 5000), gcd, lcm, gcd*lcm = a*b, binomial on all pairs <= 100 / <= 300, and "
                "the hard-number pool of vlib/nasty.py (strong pseudoprimes psi_1..psi_13 and their family, Carmichael and Poulet numbers, primes "
                "near powers of ten and word sizes with neighbours, prime squares/cubes, products of close primes, Mersenne/Fermat numbers, 2^k, 10^k, "
                "n!, primorials +-1; up to 2^128) + random n up to 2^64 and random semiprimes, all decided by an independent reference (deterministic "
                "Miller-Rabin, recorded factorisations / Pollard rho, no sympy); the pool members below 3*10^7 also go through the Coq model "
                "(is_prime, prime_factors); "
                "(3) dense sweep: is_prime, prime_factors, prime_factorisation, divisors, totient, next_prime for EVERY n = 1..2*10^5 / 1..10^6 against a "
                "smallest-prime-factor sieve, and for p*p*m, p*q*m over all consecutive primes p < q < 10^4 with small cofactors m (decided by construction); "
                "(4) history independence: one fresh process per sequence, every covered builtin called several times in seeded random order at "
                "arguments of a per-sequence scale, interleaved with every other element of the table that accepts numbers (the first k items of the "
                "lists it returns consumed, infinite lists included, k of an independent per-sequence scale), every covered answer compared with the "
                "naive reference; a failing sequence is minimised and reported with its history. "
                "Non-trivial = n >= 2 (pairs: both >= 1; sequences: one per focus element and seed), distinct by input; "
                "inputs where the textbook function is undefined are excluded and listed under `excluded`.")
    V.import_repo()
    g = _impl()
    missing = [a for a in ANCHORS if not hasattr(g["E"], a)]
    if missing:
        env.proof_broken("anchored functions missing from vyxal/elements.py", repr(missing))
    texts = {e["key"]: e for e in env.tables["elements"]}
    env.note("elements_checked", {name: {"key": k, "template": g["E"].elements[k][0][:120], "arity": g["E"].elements[k][1]} for name, k in KEYS.items()})
    for name, k in KEYS.items():
        if k not in texts:
            env.proof_broken(f"element {k} ({name}) is not in the regenerated element table", "")
    rows = correspondence(env)
    items = oracle(env)
    dense(env)
    history(env)
    # what the implementation does where the textbook function is undefined
    env.note("excluded", {k: {"why": why, "implementation_returns": _short(call(k.split("(")[0], 0))} for k, why in EXCLUDED.items()})
    env.note("prime_factors_order", {
        "compared_as": "sorted multiset (the order of the returned list is not part of the property)",
        "implementation_order": "ascending for every n <= 20000; unspecified for large n (iteration order of sympy.factorint's dict), "
                                "e.g. 17179869183 -> [3, 131071, 43691]",
        "unsorted_answers_seen_this_run": len(UNSORTED), "examples": [{"n": n, "returned": g} for n, g in UNSORTED[:5]]})
    env.note("argument_domain", "non-negative Python ints (what the parser and vyxalify produce for integer literals); "
                                "negative, rational and string arguments are outside the property")
    for r in rows[97:98]:
        env.sample({"correspondence_row": {k: _short(v) for k, v in r.items()}})
    env.sample({"oracle_large_input": items[len(items) // 2][0], "second_operand": items[len(items) // 2][1]})
    env.sample({"oracle_dyad": {"a": 84, "b": 36, "gcd": call("gcd", 84, 36), "lcm": call("lcm", 84, 36), "binomial": call("binomial", 84, 36)}})
    env.sample({"theorem": "forall n, is_prime n = true <-> Znumtheory.prime n (proved for all n; model = trial division to the square root)"})
    env.assume("arguments are non-negative Python ints; canonicalisation maps sympy Integer to int, Rational to (p, q), LazyList to the forced list, "
               "a non-rational sympy value (surd) to 'not an integer'")
    env.assume("the Coq model equals the implementation on all inputs, checked on the correspondence range only (not proved); beyond it the oracle "
               "compares the implementation with independent naive Python definitions up to 20000 and with the independent reference of vlib/nasty.py on the hard-number pool and random n up to 2^64")
    env.assume("next_prime's fuel (candidates n+1..2n+2) suffices by Bertrand's postulate, which is not proved in Coq: the theorem is stated for the "
               "case that the search answers, and the search answered for every n of the correspondence range")
    env.assume("from_hex models Python's int(s, 16) on plain hexadecimal digit strings only (no sign, prefix, underscore or blank)")


def search_without_tables(env):
    env.rule = "translator failed; oracle on the implementation only"
    try:
        V.import_repo()
        _impl()
        oracle(env)
        dense(env)
        history(env)
    except Exception as e:  # noqa: BLE001
        env.proof_broken("implementation does not import", repr(e))


def replay(rec):
    """Re-run the recorded failing input on the current tree."""
    import json
    f = rec.get("failure") or {}
    inp = f.get("input") or {}
    print(json.dumps(rec.get("failure"), ensure_ascii=False, indent=1))
    fn, x = inp.get("fn"), inp.get("input")
    if inp.get("history") is not None and fn in COVERED:
        V.import_repo()
        last = ["c", fn, x]
        st, res = in_child(lambda: exec_sequence(list(inp["history"]) + [last], only_last=True), 120)
        print(f"now, after the recorded history in a fresh process: {fn}{tuple(x)} -> "
              + ("agrees with the definition" if (st == "ok" and res is None) else repr(res)))
        st, res = in_child(lambda: covered_check(fn, x), 60)
        print(f"now, alone in a fresh process: {fn}{tuple(x)} -> " + ("agrees with the definition" if (st == "ok" and res is None) else repr(res)))
        return 0
    base = (fn or "").split("(")[0]
    if base in KEYS and x is not None:
        args = x if isinstance(x, list) and base in ("gcd", "lcm", "binomial") else [x]
        print(f"now: {base}{tuple(args)} -> {call(base, *args)!r}")
    return 0
