"""C14 — finite prefixes of infinite lists are computed lazily and terminate.

Deciding method: theorems in coq/Properties/C14.v about the pull machines of
coq/Model/Demand.v (one machine per generator of elements.py / helpers.py; `run_until`
returns the first n outputs AND the exact number of pulls).  The tie to /repo is
measured: an instrumented infinite source (a generator wrapped in
LazyList(..., isinf=True) that counts how often it is resumed) is pushed through the
REAL element functions, the first n items are taken (itertools.islice over iter(), and
LazyList.__getitem__(n-1)), and (transformation, n, pulls, outputs) is compared with the
model's exact prediction inside Coq (vm_compute).  The oracle states the property on
the implementation, independently of the model: the call terminates (per-item alarm and
a runaway cap on the source), pulls <= a*n+b with the constants of the theorems
(filter-like stages: position of the n-th admissible item, computed by a reference
written with list comprehensions), outputs equal the mathematical transformation of the
source prefix; compositions of up to 3 stages against the composed bound f1(f2(f3(n))).

Two input families beyond "nice items, short prefixes" (both applied uniformly to every catalogued stage):
adversarial item kinds (sources of exact, nearly equal items: rationals 1e-40 apart, integers around 2**53,
numbers alternating with their spellings, rows of nearly equal rationals -- see ADVERSARIAL) and long prefixes
(the first 400 items and the single item at index 500 -- see long_probe)."""
from __future__ import annotations

import itertools
import time
from fractions import Fraction

from vlib import common as V

CAP = 20000          # the source raises Runaway after this many pulls (max legitimate demand is ~1100; long prefixes ~3600)
LMAX = 2048          # longest source prefix the reference looks at before calling a case inadmissible
LMAX_LONG = 8192     # ... for the long-prefix probe
LONG_N, LONG_AT = 400, 500   # long-prefix probe: the first LONG_N items, and the single item at index LONG_AT


class Runaway(Exception):
    pass


# ----------------------------------------------------------------------------
# sources: table read cyclically, shifted by c every period (Model: table_source)
# ----------------------------------------------------------------------------

def src_value(table, c, i):
    return table[i % len(table)] + c * (i // len(table))


# A source is (table, shift, shape).  Every shape yields one item per pull:
#   "int"  the integer v_i                     (flat infinite list; the only shape the Coq model is evaluated on)
#   "str"  a one-character string              (an infinite list made only of strings)
#   "rows" the finite list [v, v+1, ...] of length v mod 4, empty rows included  (infinite list of finite chunks)
#   "inf"  the infinite lazy list v, v+1, ...  (infinite list of infinite lists)
#
# ADVERSARIAL ITEM KINDS (added after seed C14e-1: a "seen" set keyed by the float image of an item made uniquify
# wait forever for a second "new" item).  The sources above only produce "nice" items: small integers, letters.
# Anything a stage does with an item besides passing it on -- comparing, hashing, keying a memo, ordering,
# rounding, testing truth -- can be wrong only on items that such an approximation confuses, so every stage is also
# fed, uniformly, sources whose items are exact but nearly equal (all judged against the same exact reference):
#   "near"  the rational 1/3 + v/10**40       (equal iff the v are equal; ALL float images coincide)
#   "drift" the rational v + i/10**40         (pairwise distinct for every i although the v -- and the float images -- repeat)
#   "big"   the integer 2**53 + v             (neighbours on both sides of 2**53 share a float image)
#   "twin"  v at even i, the string str(v) at odd i   (spelling twins: a number and its text, equal under str())
#   "nrows" finite rows of length v mod 4 of "near" rationals (nearly-equal lists, empty rows included)
# Numbers are handed to the implementation as int / sympy.Rational and read back exactly (Fraction); no float is
# ever compared.
EPS = Fraction(1, 10 ** 40)
ADVERSARIAL = ("near", "drift", "big", "twin", "nrows")
# NESTED SOURCES (added after seed C14f-1: a fast path of deep flatten for items that are PLAIN lists walked an
# infinite lazy list held by such a plain list to its end).  The shapes above put an infinite inner list only
# directly under the source ("inf"), and finite rows hold scalars only: a stage that walks INTO items treats plain
# lists, finite lazy lists and infinite lazy lists by different code, so every alternation of the three containers
# must occur.  Uniformly for every stage that applies to structures holding infinite rows (STRUCTURAL):
#   "pinf"   the plain list [v, <v+1, v+2, ...>]                      (lazy source > plain > infinite lazy, next to a scalar)
#   "ppinf"  the plain list [[v], [[<v+1, ...>]]]                      (... two more plain levels down)
#   "lpinf"  the FINITE lazy list <v, [v+1, <v+2, ...>]>               (lazy > finite lazy > plain > infinite lazy)
#   "mixinf" the scalar v at even i, the infinite <v, v+1, ...> at odd i   (scalars and infinite lists side by side)
NESTED = ("pinf", "ppinf", "lpinf", "mixinf")
INNER = 5            # an infinite inner lazy list is shown by its first INNER items
PROBE = 64           # ... and recognised by having more than PROBE items


class InfRow:
    """Reference-side stand-in for an infinite inner list start, start+1, ..."""
    def __init__(self, start):
        self.start = start

    def items(self):
        return itertools.count(self.start)


class FinLazy(list):
    """Reference-side stand-in for a FINITE lazy list: a list for the reference, a LazyList for the implementation."""


def src_ref(src, i):
    table, c, shape = src
    v = src_value(table, c, i)
    if shape == "pinf":
        return [v, InfRow(v + 1)]
    if shape == "ppinf":
        return [[v], [[InfRow(v + 1)]]]
    if shape == "lpinf":
        return FinLazy([v, [v + 1, InfRow(v + 2)]])
    if shape == "mixinf":
        return v if i % 2 == 0 else InfRow(v)
    if shape == "int":
        return v
    if shape == "str":
        return chr(97 + v % 26)
    if shape == "rows":
        return [v + j for j in range(v % 4)]
    if shape == "near":
        return Fraction(1, 3) + v * EPS
    if shape == "drift":
        return v + i * EPS
    if shape == "big":
        return 2 ** 53 + v
    if shape == "twin":
        return v if i % 2 == 0 else str(v)
    if shape == "nrows":
        return [Fraction(1, 3) + (v + j) * EPS for j in range(v % 4)]
    return InfRow(v)


def to_impl(x):
    """A reference item as the value the implementation is given: Fraction -> sympy.Rational (exact)."""
    if isinstance(x, Fraction):
        import sympy
        return sympy.Rational(x.numerator, x.denominator)
    if isinstance(x, InfRow):                   # at any depth: a fresh infinite lazy list, flagged infinite
        return counting(x.start)
    if isinstance(x, FinLazy):
        from vyxal.LazyList import LazyList
        return LazyList(iter([to_impl(y) for y in x]))
    if isinstance(x, list):
        return [to_impl(y) for y in x]
    return x


def render(x):
    """Reference values in the form force() gives to measured values."""
    if isinstance(x, InfRow):
        return ["∞"] + list(itertools.islice(x.items(), INNER))
    if isinstance(x, list):
        return [render(y) for y in x]
    return x


class Source:
    def __init__(self, src):
        self.src, self.pulls = src, 0

    def gen(self):
        i = 0
        while True:
            self.pulls += 1
            if self.pulls > CAP:
                raise Runaway()
            v = src_ref(self.src, i)
            yield counting(v.start) if isinstance(v, InfRow) else to_impl(v)
            i += 1


def src_json(src):
    return {"table": list(src[0]), "shift": src[1], "shape": src[2]}


# ----------------------------------------------------------------------------
# the catalogue.  A stage is a tuple (name, *params).  kinds of a stream: "int" (plain
# integers), "rows" (Python lists of integers), "deep" (anything else)
# ----------------------------------------------------------------------------

def dsum(x):
    from vyxal.LazyList import LazyList
    if isinstance(x, (list, tuple, LazyList)):
        return sum(dsum(y) for y in x)
    return int(x) if int(x) == x else x        # exact: a rational item stays a rational


def rsum(x):
    return sum(rsum(y) for y in x) if isinstance(x, list) else x


def mod_key(s):
    """The integer a filter predicate reduces mod m: s itself if it is an integer, else floor(s * 10**40) -- so that the
    predicate also tells nearly equal rationals apart (s: int | Fraction | sympy.Rational; exact)."""
    if isinstance(s, int):
        return s
    p, q = (s.numerator, s.denominator) if isinstance(s, Fraction) else (int(s.p), int(s.q))
    return p if q == 1 else (p * 10 ** 40) // q


def rleaves(x):
    return [z for y in x for z in rleaves(y)] if isinstance(x, list) else [x]


def counting(o):
    from vyxal.LazyList import LazyList
    return LazyList((o + i for i in itertools.count()), isinf=True)


def ascending(o, st):
    """The infinite ascending list o, o+st, o+2st, ... as the built-in infinite lists are made: flagged infinite by the constructor."""
    from vyxal.LazyList import LazyList
    return LazyList((o + st * i for i in itertools.count()), isinf=True)


def in_prog(x, o, st):
    return x >= o and (x - o) % st == 0


# SECOND OPERAND INFINITE AND FLAGGED (added after seed C14f-2: the remove overload of filter materialised a lazy second
# operand "once" -- harmless for every finite operand, endless for an infinite one).  The dyads were measured with the
# source on either side of a FINITE list, and only zip / interleave / add against an infinite partner.  Now every dyadic
# stage / overload of the catalogue that is lazy in an infinite partner also gets the arrangement "instrumented source
# first, ascending infinite list flagged isinf=True second" (parameters: start and step of the progression), and the
# vectorised - * + the mirrored one; judged like every other stage (watchdog, bound, reference).  These stages have no
# machine in the Coq model: oracle only.
INF_OPERAND = {"filter_not_in_inf", "union_inf_r", "append_inf", "mul_list", "sub_list", "add_list_l", "mul_list_l",
               "sub_list_l", "keep_in_inf"}
# PENDING_FINDINGS: differences the new inputs show on the UNCHANGED tree, reported to the integrator, left out of the
# judged claim until decided (nothing else is exempted):
#   "membership-in-flagged-infinite": LazyList.__contains__ of a list flagged infinite searches onward from the LAST item
#   it generated, so it answers 0 for every value at or below that item (naturals F evens keeps 2, 4, ...; naturals
#   keep-only evens never yields anything).  Consequences: the OUTPUTS of filter_not_in_inf are not compared (termination
#   and the pull bound are: the implementation keeps a superset of the reference's items, so the bound stands), the stage
#   stays out of the random compositions, and keep_in_inf (the keep overload of ↔ with an infinite operand) is not run.
PENDING_FINDINGS = {"membership-in-flagged-infinite": {"outputs_not_compared": ("filter_not_in_inf",), "not_run": ("keep_in_inf",)}}
PENDING_OUTPUTS = set(PENDING_FINDINGS["membership-in-flagged-infinite"]["outputs_not_compared"])
PENDING_NOT_RUN = set(PENDING_FINDINGS["membership-in-flagged-infinite"]["not_run"])

# Membership in an ascending infinite list is a search from its start up to the value asked for: its length is the VALUE
# of the item, by the meaning of the operation, not a lack of laziness.  The claim (pulls of the SOURCE linear in n, the
# call terminates) is therefore stated for these stages on sources of small magnitude only: not on 2**53 + v.
SEARCHING = {"filter_not_in_inf", "keep_in_inf"}
HUGE_VALUES = {"big"}


def admits(src, stage):
    return applicable(stage, START_KIND[src[2]]) and not (stage[0] in SEARCHING and src[2] in HUGE_VALUES)


INT_ONLY = {"map_affine", "cumsum", "deltas", "add_scalar", "add_scalar_l", "add_list", "multiply", "subtract",
            "negate", "group", "truthy", "map_nth", "map_alt", "interleave_l", "interleave_r",
            "interleave_fin", "interleave_fin_r", "add_fin_l", "add_fin_r", "mul_fin_l", "mul_fin_r", "sub_fin_l", "sub_fin_r",
            "union_fin_l", "filter_not_in",
            "filter_not_in_inf", "keep_in_inf", "mul_list", "sub_list", "add_list_l", "mul_list_l", "sub_list_l"}
ROWS_ONLY = {"vec_sum"}
INT_OR_ROWS = {"flatten1"}
COMPARING = {"uniquify", "union", "union_inf_r"}              # compare items: integers, rows of integers, strings
HASHING = {"uniq_mask"}                        # put items in a set: integers, strings
SUMMING = {"map_sum", "filter_mod"}            # look inside finite nested integers
# stages that never look inside an item: applicable to strings, to structures of strings and to infinite rows
STRUCTURAL = {"zip_l", "zip_r", "zip_fin_l", "zip_fin_r", "prefixes", "windows", "chunks", "flatten", "flatten_by", "enumerate",
              "prepend", "append", "append_list", "append_inf", "merge_fin", "slice", "stride", "uninterleave", "head_remove",
              "insert_at", "remove_at"}
KEEPS_ITEMS = {"slice", "stride", "uninterleave", "head_remove", "remove_at", "uniquify", "union", "append", "append_list",
               "append_inf", "union_inf_r"}
RELATIVE = {"filter_mod", "uniquify", "union", "truthy", "group", "flatten", "flatten1", "flatten_by", "union_fin_l", "filter_not_in",
            "filter_not_in_inf", "keep_in_inf", "union_inf_r"}
START_KIND = {"int": "int", "str": "str", "rows": "rows", "inf": "inf",
              "near": "int", "drift": "int", "big": "int", "twin": "twin", "nrows": "rows",   # numbers of any size are "int"
              "pinf": "inf", "ppinf": "inf", "lpinf": "inf", "mixinf": "inf"}


def applicable(stage, kind):
    """kinds of a stream: int, rows (finite lists of integers), deep (other finite structures of integers),
    str (strings), sdeep (structures containing strings), inf (structures containing infinite rows)."""
    name = stage[0]
    if kind in ("inf", "sdeep"):
        return name in STRUCTURAL
    if kind in ("str", "twin"):                 # twin: numbers and strings mixed, as items like strings
        return name in STRUCTURAL or name in COMPARING or name in HASHING
    if name in INT_ONLY or name in HASHING:
        return kind == "int"
    if name in ROWS_ONLY:
        return kind == "rows"
    if name in INT_OR_ROWS or name in COMPARING:
        return kind in ("int", "rows")
    return True


def kind_after(stage, kind):
    name = stage[0]
    if kind == "inf":
        return "inf"
    if kind == "twin":
        return "twin" if name in KEEPS_ITEMS else ("int" if name == "uniq_mask" else "sdeep")
    if kind in ("str", "sdeep"):
        if name in KEEPS_ITEMS or (kind == "str" and name in ("chunks", "flatten", "flatten_by")):
            return kind                         # chunks of strings are joined back into strings
        return "int" if name == "uniq_mask" else "sdeep"
    if name in ("map_sum", "flatten", "flatten1", "vec_sum", "truthy", "uniq_mask"):
        return "int"
    if name == "flatten_by":
        return "int" if kind == "int" or (kind == "rows" and stage[1] >= 1) else kind
    if name in ("zip_l", "zip_r", "zip_fin_l", "zip_fin_r", "prefixes", "windows", "chunks", "group"):
        return "rows" if kind == "int" else "deep"
    if name == "enumerate":
        return "deep"
    if name in ("prepend", "append", "append_list", "append_inf", "merge_fin", "insert_at"):
        return kind if kind == "int" else "deep"
    return kind


def apply_stage(stage, L, ctx):
    """The REAL element function for this stage."""
    from vyxal import elements as E
    name, p = stage[0], stage[1:]
    if name == "map_affine":
        a, b = p
        return E.vy_map(L, lambda x, ctx=None: a * x + b, ctx)
    if name == "map_sum":
        return E.vy_map(L, lambda x, ctx=None: dsum(x), ctx)
    if name == "filter_mod":
        m, r = p
        return E.vy_filter(L, lambda x, ctx=None: mod_key(dsum(x)) % m == r, ctx)
    if name == "zip_l":
        return E.vy_zip(L, counting(p[0]), ctx)
    if name == "zip_r":
        return E.vy_zip(counting(p[0]), L, ctx)
    if name == "interleave_l":
        return E.interleave(L, counting(p[0]), ctx)
    if name == "interleave_r":
        return E.interleave(counting(p[0]), L, ctx)
    if name == "interleave_fin":
        return E.interleave(L, list(p[0]), ctx)
    if name == "prefixes":
        return E.divisors_or_prefixes(L, ctx)
    if name == "cumsum":
        return E.cumulative_sum(L, ctx)
    if name == "deltas":
        return E.deltas(L, ctx)
    if name == "windows":
        return E.overlapping_groups(L, p[0], ctx)
    if name == "chunks":
        return E.wrap(L, p[0], ctx)
    if name == "flatten":
        return E.deep_flatten(L, ctx)
    if name == "flatten1":
        return E.flatten_by(L, 1, ctx)
    if name == "flatten_by":
        return E.flatten_by(L, p[0], ctx)
    if name == "uniquify":
        return E.uniquify(L, ctx)
    if name == "union":
        return E.union(L, list(p[0]), ctx)
    if name == "uniq_mask":
        return E.uniquify_mask(L, ctx)
    if name == "enumerate":
        return E.vy_enumerate(L, ctx)
    if name == "prepend":
        return E.prepend(L, p[0], ctx)
    if name == "append":
        return E.merge(L, p[0], ctx)
    if name == "merge_fin":
        return E.merge(list(p[0]), L, ctx)
    if name == "slice":
        return E.slice_from(L, p[0], ctx)
    if name == "stride":
        a, s = p
        return E.index(L, [a, None, s], ctx)
    if name == "uninterleave":
        return E.uninterleave(L, ctx)[p[0]]
    if name == "head_remove":
        return E.head_remove(L, ctx)
    if name == "add_scalar":
        return E.add(L, p[0], ctx)
    if name == "add_scalar_l":
        return E.add(p[0], L, ctx)
    if name == "multiply":
        return E.multiply(L, p[0], ctx)
    if name == "subtract":
        return E.subtract(L, p[0], ctx)
    if name == "negate":
        return E.negate(L, ctx)
    if name == "add_list":
        return E.add(L, counting(p[0]), ctx)
    if name == "vec_sum":
        return E.vectorised_sum(L, ctx)
    if name == "group":
        return E.group_consecutive(L, ctx)
    if name == "insert_at":
        return E.insert_or_map_nth(L, p[0], p[1], ctx)
    if name == "remove_at":
        return E.remove_at_index(L, p[0], ctx)
    if name == "truthy":
        return E.truthy_indices(L, ctx)
    if name == "map_nth":
        return E.insert_or_map_nth(L, p[0], lambda x, ctx=None: -x, ctx)
    if name == "map_alt":
        return E.wrap(L, lambda x, ctx=None: -x, ctx)
    if name == "zip_fin_l":            # finite operand on the left, the source on the right
        return E.vy_zip(list(p[0]), L, ctx)
    if name == "zip_fin_r":
        return E.vy_zip(L, list(p[0]), ctx)
    if name == "add_fin_l":
        return E.add(list(p[0]), L, ctx)
    if name == "add_fin_r":
        return E.add(L, list(p[0]), ctx)
    if name == "mul_fin_l":
        return E.multiply(list(p[0]), L, ctx)
    if name == "mul_fin_r":
        return E.multiply(L, list(p[0]), ctx)
    if name == "sub_fin_l":
        return E.subtract(list(p[0]), L, ctx)
    if name == "sub_fin_r":
        return E.subtract(L, list(p[0]), ctx)
    if name == "interleave_fin_r":
        return E.interleave(list(p[0]), L, ctx)
    if name == "union_fin_l":
        return E.union(list(p[0]), L, ctx)
    if name == "filter_not_in":
        return E.vy_filter(L, list(p[0]), ctx)
    if name == "append_list":
        return E.merge(L, list(p[0]), ctx)
    if name == "filter_not_in_inf":    # the remove overload of F, the items to remove being an infinite list
        return E.vy_filter(L, ascending(*p), ctx)
    if name == "keep_in_inf":          # the keep overload of ↔
        return E.combinations_with_replacement(L, ascending(*p), ctx)
    if name == "union_inf_r":
        return E.union(L, ascending(*p), ctx)
    if name == "append_inf":
        return E.merge(L, ascending(*p), ctx)
    if name == "mul_list":
        return E.multiply(L, ascending(*p), ctx)
    if name == "sub_list":
        return E.subtract(L, ascending(*p), ctx)
    if name == "add_list_l":
        return E.add(ascending(*p), L, ctx)
    if name == "mul_list_l":
        return E.multiply(ascending(*p), L, ctx)
    if name == "sub_list_l":
        return E.subtract(ascending(*p), L, ctx)
    if name == "pair_with":            # M without a function: a list comprehension over the operand (probe only)
        return E.vy_map(p[0], L, ctx)
    if name == "cumsum_sans_last":     # ÞR: needs the end of the list (probe only)
        return E.cumul_sum_sans_last_prepend_zero(L, ctx)
    if name == "tail_remove":          # Ṫ: needs the end of the list (probe only)
        return E.tail_remove(L, ctx)
    raise KeyError(name)


def coq_stage(stage):
    name, p = stage[0], stage[1:]
    z = V.cZ
    zl = lambda l: V.clist([z(x) for x in l], "Z")
    return {
        "map_affine": lambda: f"SMapAffine {z(p[0])} {z(p[1])}",
        "map_sum": lambda: "SMapSum", "vec_sum": lambda: "SMapSum",
        "filter_mod": lambda: f"SFilterMod {z(p[0])} {z(p[1])}",
        "zip_l": lambda: f"SZipL {z(p[0])}", "zip_r": lambda: f"SZipR {z(p[0])}",
        "interleave_l": lambda: f"SInterleaveL {z(p[0])}", "interleave_r": lambda: f"SInterleaveR {z(p[0])}",
        "interleave_fin": lambda: f"SInterleaveFin {zl(p[0])}",
        "prefixes": lambda: "SPrefixes", "cumsum": lambda: "SCumsum", "deltas": lambda: "SDeltas",
        "windows": lambda: f"SWindows {p[0]}", "chunks": lambda: f"SChunks {p[0]}",
        "flatten": lambda: "SFlatten", "flatten1": lambda: "SFlatten",
        "uniquify": lambda: "SUniquify", "union": lambda: "SUniquify", "uniq_mask": lambda: "SUniqMask",
        "enumerate": lambda: "SEnumerate",
        "prepend": lambda: f"SPrepend {z(p[0])}", "append": lambda: "SAppend",
        "merge_fin": lambda: f"SMergeFin {zl(p[0])}",
        "slice": lambda: f"SSlice {p[0]}", "stride": lambda: f"SStride {p[0]} {p[1]}",
        "uninterleave": lambda: f"SStride {p[0]} 2", "head_remove": lambda: "SHeadRemove",
        "add_scalar": lambda: f"SAddScalar {z(p[0])}", "add_scalar_l": lambda: f"SAddScalar {z(p[0])}",
        "multiply": lambda: f"SMapAffine {z(p[0])} {z(0)}", "subtract": lambda: f"SAddScalar {z(-p[0])}",
        "negate": lambda: f"SMapAffine {z(-1)} {z(0)}",
        "add_list": lambda: f"SAddList {z(p[0])}",
        "group": lambda: "SGroup", "insert_at": lambda: f"SInsertAt {p[0]} {z(p[1])}",
        "remove_at": lambda: f"SRemoveAt {p[0]}", "truthy": lambda: "STruthy",
        "map_nth": lambda: f"SMapNth {p[0]}", "map_alt": lambda: "SMapAlt",
        "zip_fin_l": lambda: f"SZipFinL {zl(p[0])}", "zip_fin_r": lambda: f"SZipFinR {zl(p[0])}",
        "add_fin_l": lambda: f"SAddFin {zl(p[0])}", "add_fin_r": lambda: f"SAddFin {zl(p[0])}",
        "mul_fin_l": lambda: f"SMulFin {zl(p[0])}", "mul_fin_r": lambda: f"SMulFin {zl(p[0])}",
        "sub_fin_l": lambda: f"SSubFinL {zl(p[0])}", "sub_fin_r": lambda: f"SSubFinR {zl(p[0])}",
        "interleave_fin_r": lambda: f"SInterleaveFinR {zl(p[0])}", "union_fin_l": lambda: f"SUnionFinL {zl(p[0])}",
        "filter_not_in": lambda: f"SFilterNotIn {zl(p[0])}", "append_list": lambda: "SAppend",
        "flatten_by": lambda: f"SFlattenBy {p[0]}",
    }[name]()


# ---- reference: the mathematical transformation of a finite prefix, written with
# comprehensions (independent of the generators and of the model).  Every output listed
# is determined by the prefix alone; no output the infinite stream would not have.
FLAT_BUDGET = 8192   # an infinite row never ends: the reference lists this many flattened items (a valid prefix)


def flat_ref(seq, depth):
    """Items of seq with `depth` levels of list structure removed (None: all levels);
    strings are items, infinite rows are lists."""
    for item in seq:
        if isinstance(item, InfRow):
            sub = item.items()
        elif isinstance(item, list):
            sub = item
        else:
            yield item
            continue
        if depth is None:
            yield from flat_ref(sub, None)
        elif depth == 1:
            yield from sub
        else:
            yield from flat_ref(sub, depth - 1)


def exact_key(x):
    """Hashable stand-in with EXACT equality (int / Fraction / str compare and hash exactly; a number never equals
    a string); lets the first-occurrence references run in linear time on the long prefixes."""
    return tuple(exact_key(y) for y in x) if isinstance(x, list) else x


def first_flags(l):
    """flags[i] = no earlier item of l equals l[i] (exactly)."""
    seen, flags = set(), []
    for x in l:
        k = exact_key(x)
        flags.append(k not in seen)
        seen.add(k)
    return flags


def ref_stage(stage, l):
    name, p = stage[0], stage[1:]
    n = len(l)
    if name == "map_affine":
        return [p[0] * x + p[1] for x in l]
    if name in ("map_sum", "vec_sum"):
        return [rsum(x) for x in l]
    if name == "filter_mod":
        return [x for x in l if mod_key(rsum(x)) % p[0] == p[1]]
    if name == "zip_l":
        return [[x, p[0] + i] for i, x in enumerate(l)]
    if name == "zip_r":
        return [[p[0] + i, x] for i, x in enumerate(l)]
    if name == "interleave_l":
        return [l[i // 2] if i % 2 == 0 else p[0] + i // 2 for i in range(2 * n)]
    if name == "interleave_r":
        return [p[0] + i // 2 if i % 2 == 0 else l[i // 2] for i in range(2 * n + 1)]
    if name == "interleave_fin":
        fin = list(p[0])
        m = min(n, len(fin))
        return [y for i in range(m) for y in (l[i], fin[i])] + l[m:]
    if name == "prefixes":
        return [l[:i + 1] for i in range(n)]
    if name == "cumsum":
        return list(itertools.accumulate(l))
    if name == "deltas":
        return [l[i + 1] - l[i] for i in range(n - 1)]
    if name == "windows":
        return [l[i:i + p[0]] for i in range(n - p[0] + 1)]
    if name == "chunks":
        cs = [l[i * p[0]:(i + 1) * p[0]] for i in range(n // p[0])]
        return ["".join(ch) if all(isinstance(x, str) for x in ch) else ch for ch in cs]
    if name == "flatten":
        return list(itertools.islice(flat_ref(l, None), FLAT_BUDGET))
    if name == "flatten1":
        return [z for x in l for z in (x if isinstance(x, list) else [x])]
    if name == "flatten_by":
        return l if p[0] == 0 else list(itertools.islice(flat_ref(l, p[0]), FLAT_BUDGET))
    if name in ("uniquify", "union"):
        return [x for x, new in zip(l, first_flags(l)) if new]
    if name == "uniq_mask":
        return [int(new) for new in first_flags(l)]
    if name == "enumerate":
        return [[i, x] for i, x in enumerate(l)]
    if name == "prepend":
        return [p[0]] + l
    if name == "append":
        return l
    if name == "merge_fin":
        return list(p[0]) + l
    if name == "slice":
        return l[p[0]:]
    if name == "stride":
        return l[p[0]::p[1]]
    if name == "uninterleave":
        return l[p[0]::2]
    if name == "head_remove":
        return l[1:]
    if name in ("add_scalar", "add_scalar_l"):
        return [x + p[0] for x in l]
    if name == "multiply":
        return [x * p[0] for x in l]
    if name == "subtract":
        return [x - p[0] for x in l]
    if name == "negate":
        return [-x for x in l]
    if name == "add_list":
        return [x + p[0] + i for i, x in enumerate(l)]
    if name == "group":
        cuts = [0] + [i for i in range(1, n) if l[i] != l[i - 1]]
        return [l[a:b] for a, b in zip(cuts, cuts[1:])]       # the last, still open, group is not determined
    if name == "insert_at":
        return l[:p[0]] + [p[1]] + l[p[0]:] if n > p[0] else l
    if name == "remove_at":
        return l[:p[0]] + l[p[0] + 1:]
    if name == "truthy":
        return [i for i, x in enumerate(l) if x != 0]
    if name == "map_nth":
        return [-x if i % p[0] == 0 else x for i, x in enumerate(l)]
    if name == "map_alt":
        return [-x if i % 2 == 1 else x for i, x in enumerate(l)]
    if name in ("zip_fin_l", "zip_fin_r", "add_fin_l", "add_fin_r", "mul_fin_l", "mul_fin_r", "sub_fin_l", "sub_fin_r"):
        fin = list(p[0]) + [0] * max(0, n - len(p[0]))          # the finite operand, zero-filled
        op = {"zip_fin_l": lambda f, x: [f, x], "zip_fin_r": lambda f, x: [x, f], "add_fin_l": lambda f, x: f + x,
              "add_fin_r": lambda f, x: x + f, "mul_fin_l": lambda f, x: f * x, "mul_fin_r": lambda f, x: x * f,
              "sub_fin_l": lambda f, x: f - x, "sub_fin_r": lambda f, x: x - f}[name]
        return [op(f, x) for f, x in zip(fin, l)]
    if name == "interleave_fin_r":
        fin = list(p[0])
        m = min(n, len(fin))
        return [y for i in range(m) for y in (fin[i], l[i])] + (fin[n:n + 1] if n < len(fin) else l[m:])
    if name == "union_fin_l":
        both = list(p[0]) + l
        return [x for x, new in zip(both, first_flags(both)) if new]
    if name == "filter_not_in":
        return [x for x in l if x not in p[0]]
    if name in ("append_list", "append_inf"):
        return l
    if name == "filter_not_in_inf":
        return [x for x in l if not in_prog(x, *p)]
    if name == "keep_in_inf":
        return [x for x in l if in_prog(x, *p)]
    if name == "union_inf_r":          # the first operand never ends: its first occurrences
        return [x for x, new in zip(l, first_flags(l)) if new]
    if name in ("mul_list", "mul_list_l"):
        return [x * (p[0] + p[1] * i) for i, x in enumerate(l)]
    if name == "sub_list":
        return [x - (p[0] + p[1] * i) for i, x in enumerate(l)]
    if name == "sub_list_l":
        return [(p[0] + p[1] * i) - x for i, x in enumerate(l)]
    if name == "add_list_l":
        return [(p[0] + p[1] * i) + x for i, x in enumerate(l)]
    raise KeyError(name)


# constants (a, b) of the theorems C14_*_lin / C14_stage_linear: a*n+b pulls suffice for n outputs
def lin_constants(stage):
    name, p = stage[0], stage[1:]
    if name in ("cumsum", "deltas", "head_remove", "remove_at"):
        return 1, 1
    if name == "windows":
        return 1, p[0] - 1
    if name == "chunks":
        return p[0], 0
    if name == "slice":
        return 1, p[0]
    if name == "stride":
        return p[1], p[0]
    if name == "uninterleave":
        return 2, p[0]
    return 1, 0


def need(stage, n, inp):
    """Largest number of input items the stage may pull for n outputs (None: the n-th
    output does not exist within the inspected prefix).  Filter-like stages: position of
    the n-th admissible item plus one, found on the stage's actual input."""
    if n == 0:
        return 1 if stage[0] in ("head_remove", "group") else 0   # constructor's truth test
    if stage[0] in RELATIVE:
        if len(ref_stage(stage, inp)) < n:
            return None
        lo, hi = 0, len(inp)
        while lo < hi:                       # least m with n outputs determined by inp[:m]
            mid = (lo + hi) // 2
            if len(ref_stage(stage, inp[:mid])) >= n:
                hi = mid
            else:
                lo = mid + 1
        return lo
    a, b = lin_constants(stage)
    return a * n + b


def expectations(src, stages, N, ns=None, lmax=LMAX):
    """For every n <= N (or every n of ns): (bound on the pulls of the source, expected outputs), or None if
    the n-th output does not exist within the first lmax source items."""
    out = {}
    length = 128
    todo = list(range(N + 1)) if ns is None else list(ns)
    wanted = list(todo)
    while todo:
        streams = [[src_ref(src, i) for i in range(length)]]
        for s in stages:
            streams.append(ref_stage(s, streams[-1]))
        later = []
        for n in todo:
            k = n
            for j in range(len(stages) - 1, -1, -1):
                k = need(stages[j], k, streams[j])
                if k is None or k > len(streams[j]):
                    k = None
                    break
            if k is not None and len(streams[-1]) >= n:
                out[n] = (k, render(streams[-1][:n]))
            else:
                later.append(n)
        if length >= lmax:
            for n in later:
                out[n] = None
            break
        todo = later
        length *= 4
    return [out[n] for n in wanted]


# ----------------------------------------------------------------------------
# measurement (forked workers)
# ----------------------------------------------------------------------------

def force(x):
    from vyxal.LazyList import LazyList
    if isinstance(x, LazyList):
        head = list(itertools.islice(iter(x), PROBE + 1))
        if len(head) > PROBE:                  # longer than any finite inner list of the catalogue: an infinite row
            return ["∞"] + [force(y) for y in head[:INNER]]
        return [force(y) for y in head]
    if isinstance(x, (list, tuple)):
        return [force(y) for y in x]
    if isinstance(x, str):
        return x
    if isinstance(x, bool):
        return int(x)
    if isinstance(x, int):
        return x
    try:
        import sympy
        if isinstance(x, sympy.Integer):
            return int(x)
        if isinstance(x, sympy.Rational):          # exact; compares with the reference's Fraction (and with int)
            return Fraction(int(x.p), int(x.q))
    except Exception:  # noqa: BLE001
        pass
    return "?<" + type(x).__name__ + ":" + repr(x)[:40]


def _cap_worker_memory(limit=8 << 30):
    """A stage that materialises an infinite list grows until the watchdog fires: in a forked worker (never in the
    orchestrating process) the address space is capped so that such a call ends in MemoryError instead of swapping."""
    import multiprocessing
    import resource
    if multiprocessing.current_process().name != "MainProcess":
        soft, hard = resource.getrlimit(resource.RLIMIT_AS)
        if soft == resource.RLIM_INFINITY or soft > limit:
            resource.setrlimit(resource.RLIMIT_AS, (limit, hard))


def measure(item):
    """item = (source, stages, n, mode) -> (pulls, outputs)."""
    srcspec, stages, n, mode = item
    _cap_worker_memory()
    V.import_repo()
    import vyxal.elements  # noqa: F401  (import order: elements before LazyList)
    from vyxal.LazyList import LazyList
    from vyxal.context import Context
    ctx = Context()
    src = Source(srcspec)
    L = LazyList(src.gen(), isinf=True)
    for s in stages:
        L = apply_stage(s, L, ctx)
    if not isinstance(L, LazyList):
        return ("not-lazy", type(L).__name__)
    from vyxal import elements as E, helpers as H
    if mode == "islice":
        out = list(itertools.islice(iter(L), n))
    elif mode == "index":
        if n:
            L[n - 1]
        out = [L[i] for i in range(n)]
    elif mode == "at":                 # the single item at index n (long-prefix probe)
        out = [L[n]]
    elif mode == "slice":              # every other way of taking a prefix, and the boundary observations
        out = L[:n]
    elif mode == "slice1":
        out = L[1:n]
    elif mode == "slice_nn":
        out = L[n:n]
    elif mode == "elem_index":
        out = E.index(L, [0, n], ctx)
    elif mode == "zero_slice":
        out = E.zero_slice(L, n, ctx)
    elif mode == "one_slice":
        out = E.one_slice(L, n, ctx)
    elif mode == "has_ind0":
        out = [int(bool(L.has_ind(0)))]
    elif mode == "has_ind_neg":
        out = [int(bool(H.has_ind(L, -1)))]
    elif mode == "index0":
        out = [E.index(L, 0, ctx)]
    else:
        raise KeyError(mode)
    pulls = src.pulls
    if mode in ("islice", "index", "at", "slice", "slice1", "slice_nn", "elem_index", "zero_slice", "one_slice"):
        return (pulls, [force(y) for y in out])     # the taken prefix itself is finite: never abbreviated
    return (pulls, force(out))


TAKE_MODES = ("slice", "slice1", "slice_nn", "elem_index", "zero_slice", "one_slice")
BOUNDARY_MODES = ("has_ind0", "has_ind_neg", "index0")        # measured once per pipeline (n is ignored)
MODE_TEXT = {"slice": "L[:n]", "slice1": "L[1:n]", "slice_nn": "L[n:n]", "elem_index": "index(L, [0, n])",
             "zero_slice": "zero_slice(L, n)", "one_slice": "one_slice(L, n)", "has_ind0": "L.has_ind(0)",
             "has_ind_neg": "has_ind(L, -1)", "index0": "index(L, 0)"}


def take_expectation(mode, n, prim):
    """What this way of taking a prefix must pull and return, in terms of the primary
    measurements prim[n] = (pulls, outputs) of islice (which are tied to the model; for n = 0
    theorem C14_zero: nothing pulled beyond the constructor).  None: not determined."""
    def at(k):
        return prim.get(k)
    if mode in ("slice", "elem_index", "zero_slice"):
        return at(n)
    if mode in ("slice1", "one_slice"):
        if n <= 1:
            return at(0)                                   # empty range: as if nothing was asked
        return (at(n)[0], at(n)[1][1:]) if at(n) else None
    if mode == "slice_nn":
        return at(0)
    if mode == "has_ind0":
        return (at(1)[0], [1]) if at(1) else None
    if mode == "has_ind_neg":
        return (at(0)[0], [0]) if at(0) else None
    if mode == "index0":
        return (at(1)[0], at(1)[1][:1]) if at(1) else None
    raise KeyError(mode)


# ----------------------------------------------------------------------------
# case generation
# ----------------------------------------------------------------------------

# Every numeric / structural parameter is drawn from 0, 1, 2, 3 and from values beyond what the stream offers
# (a depth deeper than any nesting, an index beyond the n that are taken, a finite operand that is empty, of one
# item, shorter than n); size 0 of windows/chunks is outside the quantifier.
FINS = ((), (10,), (10, 20, 30))
PARAMS = {
    "map_affine": [(3, 1)], "map_sum": [()], "filter_mod": [(2, 0), (3, 1)],
    "zip_l": [(100,)], "zip_r": [(100,)], "interleave_l": [(100,)], "interleave_r": [(100,)],
    "interleave_fin": [(f,) for f in FINS], "interleave_fin_r": [(f,) for f in FINS],
    "prefixes": [()], "cumsum": [()], "deltas": [()],
    "windows": [(1,), (2,), (3,), (5,)], "chunks": [(1,), (2,), (3,), (7,)],
    "flatten": [()], "flatten1": [()], "flatten_by": [(0,), (1,), (2,), (3,)],
    "uniquify": [()], "union": [((),), ((1, 2, 3),)], "uniq_mask": [()], "enumerate": [()],
    "prepend": [(77,)], "append": [(77,)], "merge_fin": [((),), ((70, 71),)], "append_list": [((70, 71),)],
    "slice": [(0,), (1,), (2,), (3,), (9,)], "stride": [(a, st) for a in (0, 1, 2, 3) for st in (1, 2, 3)],
    "uninterleave": [(0,), (1,)], "head_remove": [()],
    "add_scalar": [(7,)], "add_scalar_l": [(7,)], "multiply": [(2,)], "subtract": [(5,)], "negate": [()], "add_list": [(100,)],
    "vec_sum": [()], "group": [()],
    "insert_at": [(q, 55) for q in (0, 1, 2, 3, 9)], "remove_at": [(q,) for q in (0, 1, 2, 3, 9)],
    "truthy": [()], "map_nth": [(1,), (2,), (3,)], "map_alt": [()],
    "zip_fin_l": [(f,) for f in FINS], "zip_fin_r": [(f,) for f in FINS],
    "add_fin_l": [(f,) for f in FINS[1:]], "add_fin_r": [(f,) for f in FINS[1:]],
    "mul_fin_l": [((2, 3),)], "mul_fin_r": [((2, 3),)], "sub_fin_l": [((10, 20, 30),)], "sub_fin_r": [((10, 20, 30),)],
    "union_fin_l": [((1, 2, 3),)], "filter_not_in": [((),), ((1, 2, 3),)],
    # second operand an ascending infinite list flagged infinite: (start, step)
    "filter_not_in_inf": [(2, 2), (1, 3)], "keep_in_inf": [(2, 2), (1, 3)], "union_inf_r": [(0, 1), (2, 2)],
    "append_inf": [(100, 1)], "mul_list": [(1, 2)], "sub_list": [(0, 3)],
    "add_list_l": [(100, 1)], "mul_list_l": [(1, 2)], "sub_list_l": [(0, 3)],
}


def catalogue():
    return [(name,) + ps for name, space in PARAMS.items() for ps in space if name not in PENDING_NOT_RUN]


def sname(stage):
    return stage[0] + "".join("," + (str(list(x)) if isinstance(x, tuple) else str(x)) for x in stage[1:])


def pname(stages):
    return " | ".join(sname(s) for s in stages)


def make_sources(rng):
    t1 = tuple(rng.randrange(0, 10) for _ in range(11))
    t2 = tuple(rng.randrange(-5, 6) for _ in range(7))
    return [
        (t1, 1, "int"),         # repeats inside a period, grows by 1 per period
        (t2, 3, "int"),         # negative values, zeros, grows by 3
        ((0,), 1, "int"),       # 0 1 2 3 ...: pairwise distinct
        (t1, 1, "str"),         # an infinite list made only of strings
        (t1, 1, "rows"),        # an infinite list of finite rows of length 0..3
        ((0,), 1, "inf"),       # an infinite list of infinite lists
        # adversarial item kinds (see ADVERSARIAL above): exact, pairwise distinct or truly repeating, nearly equal
        ((0,), 1, "near"),      # 1/3 + i/10**40: pairwise distinct, every float image the same
        (t1, 1, "near"),        # the same with true repeats in between
        (t1, 1, "drift"),       # v + i/10**40: pairwise distinct although v (and the float image) repeats
        ((0,), 1, "big"),       # 2**53 + i: adjacent integers that share float images in pairs
        (t2, 3, "big"),         # both sides of 2**53, with repeats
        (t1, 1, "twin"),        # v, str(v) alternating: a number and its spelling are different items
        (t1, 1, "nrows"),       # rows of nearly equal rationals
        # nested sources (see NESTED above): an infinite lazy list under plain / finite lazy containers, next to scalars
        (t1, 1, "pinf"), (t1, 1, "ppinf"), (t1, 1, "lpinf"), (t1, 1, "mixinf"),
    ]


def random_pipeline(rng, cat, length, kind):
    """A type-correct pipeline of `length` stages on a stream of the given kind; parameters are drawn from the
    whole parameter space of the stage; at most one `prefixes`, and sizes whose product stays modest."""
    names = sorted({s[0] for s in cat})
    for _ in range(200):
        k, stages, size = kind, [], 1
        for _ in range(length):
            options = [nm for nm in names if any(applicable(s, k) for s in cat if s[0] == nm)
                       and not (nm == "prefixes" and any(t[0] == "prefixes" for t in stages))]
            nm = rng.choice(options)
            s = rng.choice([s for s in cat if s[0] == nm and applicable(s, k)])
            if nm in ("chunks", "stride"):
                size *= s[-1]
            stages.append(s)
            k = kind_after(s, k)
        if size <= 27:
            return tuple(stages)
    raise RuntimeError("no pipeline")


def _cval_paren(x):
    if isinstance(x, list):
        return "(VL " + (V.clist([_cval_paren(y) for y in x]) if x else "[]") + ")"
    return f"(VZ {V.cZ(x)})"


PREAMBLE = ("From Coq Require Import List ZArith.\nFrom Vy Require Import Model.Demand.\nImport ListNotations.\n"
            "Definition vy_case := (list Z * Z * stage * list stage * nat * nat * nat * list val)%type.\n")
CHECKER = ("fun c : vy_case => match c with (t, c0, s, rest, n, fuel, pulls, outs) => "
           "agrees t c0 s rest n fuel pulls outs end")


def coq_case(table, c, stages, n, pulls, outs):
    t = V.clist([V.cZ(x) for x in table], "Z")
    rest = V.clist(["(" + coq_stage(s) + ")" for s in stages[1:]], "stage")
    o = "[" + "; ".join(_cval_paren(x) for x in outs) + "]" if outs else "([] : list val)"
    return f"({t}, {V.cZ(c)}, ({coq_stage(stages[0])}), {rest}, {n}%nat, {pulls + 3}%nat, {pulls}%nat, {o})"


# ----------------------------------------------------------------------------
# the check
# ----------------------------------------------------------------------------

def fit(points):
    """pulls as a function of n >= 1: 'a*n+b' if exactly linear, else the list."""
    pts = [(n, p) for n, p in points if n >= 1]
    if len(pts) < 2:
        return str(pts)
    (n1, p1), (n2, p2) = pts[0], pts[1]
    a = (p2 - p1) // (n2 - n1)
    b = p1 - a * n1
    if all(p == a * n + b for n, p in pts):
        return f"{a}*n{b:+d}" if b else f"{a}*n"
    return "not affine in n: " + str([p for _, p in pts[:10]])


def probes_outside(env):
    """Calls that cannot be lazy by their parameters or by construction; recorded, not judged."""
    nat = ((0,), 1, "int")
    items = [(nat, (("windows", 0),), 1, "islice"), (nat, (("chunks", 0),), 1, "islice"),
             (nat, (("cumsum_sans_last",),), 1, "islice"), (nat, (("tail_remove",),), 1, "islice"),
             (nat, (("pair_with", 5),), 1, "islice")]
    res = V.pmap(measure, items, timeout=10.0)
    out = {}
    for it, (st, val) in zip(items, res):
        out[pname(it[1])] = "terminates" if st == "ok" else f"does not terminate ({st}: {val})"
    env.note("outside_the_quantifier", out)


def has_marker(x):
    return any(has_marker(y) for y in x) if isinstance(x, list) else (isinstance(x, str) and x.startswith("?<"))


SHAPE_TEXT = {"str": " of strings", "rows": " of finite rows", "inf": " of infinite lists",
              "near": " of rationals 1e-40 apart (1/3 + v/10**40)", "drift": " of pairwise distinct rationals v + i/10**40",
              "big": " of integers around 2**53", "twin": " of numbers alternating with their spellings",
              "nrows": " of finite rows of rationals 1e-40 apart",
              "pinf": " of plain lists [v, <infinite list>]", "ppinf": " of plain lists [[v], [[<infinite list>]]]",
              "lpinf": " of finite lazy lists <v, [v+1, <infinite list>]>",
              "mixinf": " of scalars alternating with infinite lists"}


def judge(env, entries, results, cases, prim, formula, hung):
    """Oracle on one batch of measurements; fills prim (what iteration pulls and yields), cases (integer sources,
    for the model) and hung (stages that did not terminate)."""
    for idx, ((src, pl, n), (bound, expected)) in enumerate(entries):
        inp = {"source": src_json(src), "pipeline": [list(map(_jsonable, s)) for s in pl], "n": n}
        name = pname(pl)
        on = "" if src[2] == "int" else SHAPE_TEXT[src[2]]
        tag = name if src[2] == "int" else f"{name}@{src[2]}"
        got = {}
        for mode, (st, val) in zip(("islice", "index"), results[2 * idx:2 * idx + 2]):
            if st == "timeout" or (st == "exc" and str(val).startswith("Runaway")):
                how = "does not terminate (watchdog)" if st == "timeout" else f"pulled more than {CAP} items of the source (bound {bound})"
                env.fail(dict(inp, mode=mode), f"taking {n} items of {name} of an infinite list{on} {how}", cls=f"nonterminating:{tag}")
                if len(pl) == 1:
                    hung.add((name, src[2]))
            elif st == "exc":
                env.fail(dict(inp, mode=mode), f"taking {n} items of {name} of an infinite list{on} raises {val}", cls=f"raises:{tag}")
            elif val[0] == "not-lazy":
                env.fail(dict(inp, mode=mode), f"{name} of an infinite list{on} returned a {val[1]}, not a lazy list", cls=f"not-lazy:{tag}")
            else:
                got[mode] = val
                pulls, outs = val
                if pulls > bound:
                    env.fail(dict(inp, mode=mode), f"{name}: {n} items pulled {pulls} items of the source{on}, bound {bound}",
                             cls=f"pulls-exceed:{tag}", extra={"pulls": pulls, "bound": bound})
                if outs != expected and not any(s[0] in PENDING_OUTPUTS for s in pl):
                    env.fail(dict(inp, mode=mode), f"{name}: first {n} items are {str(outs)[:200]}, mathematically {str(expected)[:200]}",
                             cls=f"outputs:{tag}")
        if len(got) == 2:
            if got["islice"] != got["index"]:
                env.fail(inp, f"{name}: iteration pulls {got['islice'][0]}, indexing pulls {got['index'][0]}", cls=f"modes-differ:{tag}")
            pulls, outs = got["islice"]
            prim.setdefault((src, pl), {})[n] = (pulls, outs)
            if src[2] == "int" and not has_marker(outs) and not any(s[0] in INF_OPERAND for s in pl):
                cases.append((src, pl, n, pulls, outs))
            if len(pl) == 1:
                formula.setdefault(tag, {}).setdefault(str(list(src[0])) + "+" + str(src[1]), []).append((n, pulls))


def judge_takes(env, items, results, prim, hung_modes):
    n_checked = 0
    fails = {}
    for (src, pl, n, mode), (st, val) in zip(items, results):
        want = take_expectation(mode, n, prim.get((src, pl), {}))
        if want is None:
            continue
        n_checked += 1
        name = pname(pl)
        tag = name if src[2] == "int" else f"{name}@{src[2]}"
        what = MODE_TEXT[mode].replace("n", str(n)) if mode in TAKE_MODES else MODE_TEXT[mode]
        inp = {"source": src_json(src), "pipeline": [list(map(_jsonable, s)) for s in pl], "n": n, "take": what}
        bad = None
        if st == "timeout" or (st == "exc" and str(val).startswith("Runaway")):
            how = "does not terminate (watchdog)" if st == "timeout" else f"pulled more than {CAP} items of the source"
            bad = f"{what} on L = {name} of an infinite list {how}; taking the same prefix by iteration pulls {want[0]}"
            cls = f"nonterminating-take:{mode}:{tag}"
            fails[mode] = fails.get(mode, 0) + 1
        elif st == "exc":
            bad, cls = f"{what} on L = {name} raises {val}", f"raises-take:{mode}:{tag}"
        elif val[0] == "not-lazy":
            continue
        elif val[0] != want[0]:
            bad, cls = f"{what} on L = {name} pulled {val[0]} items of the source, iteration pulls {want[0]}", f"pulls-take:{mode}:{tag}"
        elif val[1] != want[1]:
            bad, cls = f"{what} on L = {name} gives {str(val[1])[:160]}, expected {str(want[1])[:160]}", f"outputs-take:{mode}:{tag}"
        if bad:
            env.fail(inp, bad, cls=cls)
    for mode, k in fails.items():
        if k >= 8:                       # a way of taking that hangs across the catalogue is not waited for again
            hung_modes.add(mode)
    return n_checked


def run_all(env, with_model=True):
    rng = env.rng
    N = env.budget(12, 40)
    cat = catalogue()
    sources = make_sources(rng)
    # singles: every stage with every parameter of its space, on every source whose items it applies to, all n <= N
    jobs = []            # (source, stages, N)
    for src in sources:
        for s in cat:
            if admits(src, s):
                jobs.append((src, (s,), N))
    nsingle = len(jobs)
    # compositions: random type-correct pipelines of 2 and 3 stages with random parameters, on a random source, all n <= N
    ncomp = env.budget(180, 1000)
    comp_cat = [s for s in cat if s[0] not in PENDING_OUTPUTS]
    seen = set()
    for i in range(ncomp):
        src = sources[rng.randrange(len(sources))]
        pl = random_pipeline(rng, [s for s in comp_cat if not (s[0] in SEARCHING and src[2] in HUGE_VALUES)],
                             2 if i % 3 == 0 else 3, START_KIND[src[2]])
        if (src, pl) not in seen:
            seen.add((src, pl))
            jobs.append((src, pl, N))
    # expectations (reference + bounds), inadmissible cases dropped
    t0 = time.time()
    exps = V.pmap(_expect, jobs, timeout=300.0)
    V.log(f"[C14] reference: {len(jobs)} pipelines, {time.time()-t0:.1f}s")
    admissible, skipped = [], 0
    for (src, pl, _), (st, es) in zip(jobs, exps):
        if st != "ok":
            env.proof_broken("reference evaluation failed", f"{pname(pl)} on {src_json(src)}: {st} {es}")
            continue
        for n, e in enumerate(es):
            if e is None:
                skipped += 1
            else:
                admissible.append(((src, pl, n), e))
    # measured in three batches so that a stage that hangs is not waited for again and again
    batches = [[e for e in admissible if len(e[0][1]) == 1 and e[0][2] <= 3],
               [e for e in admissible if len(e[0][1]) == 1 and e[0][2] > 3],
               [e for e in admissible if len(e[0][1]) > 1]]
    cases, prim, formula, hung, measured, not_rerun = [], {}, {}, set(), [], 0

    def hangs(src, pl):
        return any((sname(s), src[2]) in hung for s in pl)

    for batch in batches:
        entries = [e for e in batch if not hangs(e[0][0], e[0][1])]
        entries.sort(key=lambda e: (e[0][2], e[0][0]))   # one stage's cases far apart: a hanging stage is waited for in parallel
        not_rerun += len(batch) - len(entries)
        items = [(src, pl, n, mode) for ((src, pl, n), _) in entries for mode in ("islice", "index")]
        res = V.pmap(measure, items, timeout=env.budget(6.0, 12.0))
        judge(env, entries, res, cases, prim, formula, hung)
        V.log(f"[C14] measured {len(items)} ({time.time()-t0:.1f}s)")
        measured += items
    # every other way of taking a prefix (bounded slices, the slicing elements) for n on both sides of
    # the boundaries, and has_ind / index with boundary arguments: same pulls and items as iteration
    combos = sorted(prim, key=lambda k: (len(k[1]), pname(k[1]), k[0]))
    combos = [k for k in combos if not hangs(k[0], k[1])]
    first = [k for k in combos if len(k[1]) == 1 and k[0] == sources[0]]
    rest = [k for k in combos if k not in set(first)]
    take_ns = (0, 1, 2, 5)
    hung_modes, takes_checked, takes = set(), 0, []
    for group in (first, rest):
        items = [(src, pl, n, mode) for n in take_ns for mode in TAKE_MODES if mode not in hung_modes for (src, pl) in group]
        items += [(src, pl, 0, mode) for mode in BOUNDARY_MODES if mode not in hung_modes for (src, pl) in group]
        # a take whose expectation is not determined (the n-th item is inadmissible) is not judged: not measured either
        items = [it for it in items if take_expectation(it[3], it[2], prim.get((it[0], it[1]), {})) is not None]
        res = V.pmap(measure, items, timeout=env.budget(6.0, 12.0))
        takes_checked += judge_takes(env, items, res, prim, hung_modes)
        V.log(f"[C14] other ways of taking: {len(items)} ({time.time()-t0:.1f}s)")
        takes += items
    env.note("prefix_taking", {"ways": [MODE_TEXT[m] for m in TAKE_MODES + BOUNDARY_MODES], "n": list(take_ns),
                               "checked_against_iteration": takes_checked,
                               "ways_that_hung_and_were_not_repeated": sorted(hung_modes)})
    measured += takes
    # long prefixes: every single stage on every source, and the first compositions
    measured += long_probe(env, jobs[:nsingle] + jobs[nsingle:nsingle + env.budget(60, 300)], hangs, t0)
    env.count(len(measured), (f"{src}:{pname(pl)}:{n}:{m}" for (src, pl, n, m) in measured if n >= 1 or m not in ("islice", "index")))
    env.note("n_max", N)
    comps = [j for j in jobs[nsingle:]]
    env.note("pipelines", {"single_stage_with_parameters": len(cat), "single_on_a_source": nsingle, "compositions": len(comps),
                           "of_length_2": sum(1 for j in comps if len(j[1]) == 2), "of_length_3": sum(1 for j in comps if len(j[1]) == 3),
                           "by_source_shape": {sh: sum(1 for j in jobs if j[0][2] == sh) for sh in ("int", "str", "rows", "inf") + ADVERSARIAL + NESTED}})
    env.note("adversarial_item_kinds", {sh: SHAPE_TEXT[sh].strip() for sh in ADVERSARIAL})
    env.note("nested_sources", {sh: SHAPE_TEXT[sh].strip() for sh in NESTED})
    env.note("second_operand_infinite_flagged", {"stages": sorted(INF_OPERAND - PENDING_NOT_RUN), "operand": "o, o+st, o+2st, ... built as "
             "LazyList(generator, isinf=True); (o, st) under parameter_spaces", "model": "oracle only"})
    env.note("pending_findings", {k: {a: list(b) for a, b in v.items()} for k, v in PENDING_FINDINGS.items()})
    env.note("parameter_spaces", {k: [list(map(_jsonable, ps)) for ps in v] for k, v in PARAMS.items() if v != [()]})
    env.note("inadmissible_skipped", skipped)
    if hung:
        env.note("stages_that_did_not_terminate", sorted(f"{a}@{b}" for a, b in hung))
        env.note("cases_not_run_because_a_stage_hangs", not_rerun)
    env.note("sources", [src_json(x) for x in sources])
    env.note("measured_formula", {k: sorted({fit(v) for v in d.values()}) for k, d in sorted(formula.items())})
    comp_formula = {}
    for (src, pl, n, pulls, outs) in cases:
        if len(pl) > 1:
            comp_formula.setdefault(pname(pl), []).append((n, pulls))
    env.note("measured_formula_compositions_sample", {k: fit(v) for k, v in list(sorted(comp_formula.items()))[:25]})
    picks = [(k, v[min(N, 7)]) for k, v in sorted(prim.items(), key=lambda kv: (pname(kv[0][1]), kv[0][0])) if min(N, 7) in v]
    for (src, pl), (pulls, outs) in picks[::max(1, len(picks) // 10)][:10]:
        env.sample({"source": src_json(src), "pipeline": pname(pl), "n": min(N, 7), "pulls": pulls, "outputs": str(outs)[:160]})
    # model side (integer sources)
    if with_model and cases:
        ok, bad, logs = env.coq_mismatches(
            "demand", PREAMBLE,
            lambda lo, hi: "[" + ";\n ".join(coq_case(cs[0][0], cs[0][1], *cs[1:]) for cs in cases[lo:hi]) + "]",
            CHECKER, len(cases), shard=env.budget(250, 400), timeout=1500)
        if not ok:
            env.proof_broken("demand correspondence cases failed to evaluate", logs)
        for i in bad[:40]:
            src, pl, n, pulls, outs = cases[i]
            env.disagree("demand:" + pname(pl), {"source": src_json(src), "pipeline": pname(pl), "n": n},
                         model_answer(env, cases[i]) if i in bad[:6] else "(model disagrees)", {"pulls": pulls, "outputs": str(outs)[:300]})
        env.note("model_cases", len(cases))
        V.log(f"[C14] model: {len(cases)} cases ({time.time()-t0:.1f}s)")
    probes_outside(env)


def _jsonable(x):
    return list(x) if isinstance(x, tuple) else x


def _expect_long(job):
    src, pl = job
    e_n, e_at = expectations(src, pl, None, ns=(LONG_N, LONG_AT + 1), lmax=LMAX_LONG)
    if e_at is not None:
        e_at = (e_at[0], e_at[1][LONG_AT:])            # only the item at index LONG_AT travels back
    return e_n, e_at


def long_probe(env, jobs, hangs, t0):
    """LONG PREFIXES (added after seed C14e-2: windows rebuilt as a slice of a slice of a slice ... is right, and pulls
    exactly n+k-1 items, for every n up to ~330, then dies in the interpreter's recursion limit).  All other
    measurements stop at n = 12 / 40, so any cost or depth that grows with the NUMBER OF ITEMS ALREADY PRODUCED
    (nested generators, recursion per item, a quadratic rescan) stays invisible.  Uniformly for every catalogued stage
    with every parameter, on every source (adversarial ones included), and for a sample of the compositions: the first
    LONG_N items by iteration and the single item at index LONG_AT by indexing a fresh pipeline, under the watchdog;
    the pulls must stay within the same linear bound, the items must be the reference's, and ANY exception
    (RecursionError included) means the finite prefix was not produced."""
    ljobs = [(src, pl) for (src, pl, _) in jobs if not hangs(src, pl)]
    exps = V.pmap(_expect_long, ljobs, timeout=300.0)
    items, wants = [], []
    inadmissible = 0
    for (src, pl), (st, es) in zip(ljobs, exps):
        if st != "ok":
            env.proof_broken("reference evaluation failed (long prefix)", f"{pname(pl)} on {src_json(src)}: {st} {es}")
            continue
        for n, mode, e in ((LONG_N, "islice", es[0]), (LONG_AT, "at", es[1])):
            if e is None:
                inadmissible += 1
            else:
                items.append((src, pl, n, mode))
                wants.append(e)
    rank = {}
    for (src, _) in ljobs:
        rank.setdefault(src, len(rank))                   # sources in the order of make_sources: the plainest first
    order = sorted(range(len(items)), key=lambda i: (len(items[i][1]), rank[items[i][0]], pname(items[i][1]), items[i][3]))
    items, wants = [items[i] for i in order], [wants[i] for i in order]
    res = V.pmap(measure, items, timeout=env.budget(20.0, 40.0))
    for (src, pl, n, mode), (bound, expected), (st, val) in zip(items, wants, res):
        name = pname(pl)
        on = "" if src[2] == "int" else SHAPE_TEXT[src[2]]
        tag = name if src[2] == "int" else f"{name}@{src[2]}"
        what = f"the first {n} items" if mode == "islice" else f"the item at index {n}"
        inp = {"source": src_json(src), "pipeline": [list(map(_jsonable, s)) for s in pl], "n": n,
               "mode": "islice" if mode == "islice" else "L[n]"}
        if st == "timeout" or (st == "exc" and str(val).startswith("Runaway")):
            how = "does not terminate (watchdog)" if st == "timeout" else f"pulled more than {CAP} items of the source (bound {bound})"
            env.fail(inp, f"taking {what} of {name} of an infinite list{on} {how}", cls=f"nonterminating-long:{tag}")
        elif st == "exc":
            env.fail(inp, f"taking {what} of {name} of an infinite list{on} is not completed: raises {val}", cls=f"raises-long:{tag}")
        elif val[0] == "not-lazy":
            continue                                      # reported by the primary measurements
        else:
            pulls, outs = val
            if pulls > bound:
                env.fail(inp, f"{name}: {what} pulled {pulls} items of the source{on}, bound {bound}",
                         cls=f"pulls-exceed-long:{tag}", extra={"pulls": pulls, "bound": bound})
            if outs != expected and not any(s[0] in PENDING_OUTPUTS for s in pl):
                env.fail(inp, f"{name}: {what}: got {str(outs)[-200:]}, mathematically {str(expected)[-200:]}", cls=f"outputs-long:{tag}")
    V.log(f"[C14] long prefixes: {len(items)} ({time.time()-t0:.1f}s)")
    env.note("long_prefix_probe", {"first_n_by_iteration": LONG_N, "single_item_at_index": LONG_AT, "pipelines": len(ljobs),
                                   "single_stage": sum(1 for j in ljobs if len(j[1]) == 1), "measured": len(items),
                                   "inadmissible_skipped": inadmissible, "reference_prefix_up_to": LMAX_LONG})
    return items


def _expect(job):
    src, pl, N = job
    return expectations(src, pl, N)


def model_answer(env, case):
    (t, c, _shape), pl, n, pulls, outs = case
    tl = V.clist([V.cZ(x) for x in t], "Z")
    rest = V.clist(["(" + coq_stage(s) + ")" for s in pl[1:]], "stage")
    text = (PREAMBLE + f"Eval vm_compute in (run_until (pipeline ({coq_stage(pl[0])}) {rest}) "
            f"(table_source {tl} {V.cZ(c)}) {n} {pulls + 50}).\n")
    try:
        ok, out = V.coq_eval(env.prop, "answer", text, 120)
        return " ".join(out.split())[-400:]
    except Exception as e:  # noqa: BLE001
        return f"(model answer unavailable: {e})"


RULE = ("instrumented infinite source (generator counting its resumptions, wrapped in LazyList(..., isinf=True)) pushed through the real "
        "element functions.  Sources of every nesting: three flat integer sources, an infinite list made only of strings, an infinite list of "
        "finite rows (length 0..3, empty rows included), an infinite list of infinite lists.  Every catalogued transformation with EVERY "
        "parameter of its parameter space (recorded under parameter_spaces: sizes, offsets, positions and depths 0,1,2,3 and values beyond what "
        "the stream offers -- flatten depth deeper than any nesting, positions beyond the n taken, finite operands that are empty / of one item / "
        "shorter than n; 101 parametrised stages: map, filter by predicate / by membership, zip and the dyadic vectorised + - * in every operand "
        "arrangement, interleave and union with an infinite/finite list on either side, prefixes, cumulative sums, deltas, windows, chunks, "
        "deep flatten, flatten by depth, uniquify, uniquify mask, enumerate, prepend, append, merge with a finite list on either side, slice from "
        "an offset, every n-th, uninterleave, head remove, vectorised sum, group consecutive, insert/remove at, truthy indices, map every n-th / "
        "every second) on every source whose items it applies to, and random type-correct compositions of 2 and 3 stages with random parameters "
        "on a random source, for ALL n from 0 to 12 (quick) / 40 (thorough), taken by iteration and by indexing; for n in 0,1,2,5 also by "
        "L[:n], L[1:n], L[n:n], index(L,[0,n]), zero_slice, one_slice, and has_ind(0), has_ind(-1), index(L,0), which must pull and return "
        "exactly what iteration does (n = 0 and empty ranges: nothing beyond the constructor, theorem C14_zero).  Each primary measurement "
        "on an integer source (pulls, first n outputs) is compared with run_until of the pull-machine model inside Coq (exact equality); every "
        "measurement is judged by the oracle: terminates, pulls <= bound of the theorems (composed stage by stage), outputs equal the reference "
        "transformation.  ADVERSARIAL ITEM KINDS: besides the six sources above, seven sources of exact but nearly equal items go through every "
        "stage that applies to their kind, all n, both ways, and into the compositions: rationals 1/3 + v/10**40 (pairwise distinct, and with true "
        "repeats), v + i/10**40 (pairwise distinct although v repeats), integers 2**53 + v (pairwise distinct, and on both sides of 2**53 with "
        "repeats), numbers alternating with their decimal spellings, finite rows of rationals 1e-40 apart; handed over as int / sympy.Rational, "
        "read back as Fraction, the reference is exact.  LONG PREFIXES: every single stage with every parameter on every one of the 13 sources, and "
        "the first 60 (quick) / 300 (thorough) compositions: the first 400 items by iteration and the single item at index 500 by L[500] on a fresh "
        "pipeline, under the watchdog; pulls within the same linear bound, items equal the reference, any exception (RecursionError included) is a "
        "failure to produce the prefix.  NESTED SOURCES: four more sources whose items hold an infinite lazy list under other containers -- the plain "
        "list [v, <inf>], the plain list [[v], [[<inf>]]], the finite lazy list <v, [v+1, <inf>]>, scalars alternating with infinite lists -- go "
        "through every stage that applies to structures holding infinite rows (zip, prefixes, windows, chunks, deep flatten, flatten by every depth, "
        "enumerate, prepend/append/merge, slices, strides, insert/remove at), all n, both ways, the other ways of taking, the long prefixes and the "
        "compositions.  SECOND OPERAND INFINITE AND FLAGGED: every dyadic stage / overload that is lazy in an infinite partner is also run as "
        "(source, ascending infinite list built with isinf=True), start and step from its parameter space: remove overload of filter, union, merge, "
        "vectorised * and - (and + * - mirrored); oracle only (no machine in the model).  Pending (see pending_findings): outputs of the remove "
        "overload against an infinite list are not compared and the keep overload of ↔ is not run, because membership in a flagged-infinite list "
        "answers 0 for every value at or below the last item it generated; membership stages are not run on the 2**53 sources (the search is as "
        "long as the value).  Non-trivial = n >= 1 or a slicing/boundary way of taking; distinct by (source, pipeline, n, way).")


def run(env):
    env.rule = RULE
    run_all(env, with_model=True)
    assumptions(env)


def search_without_tables(env):
    env.rule = "translator failed (C14 uses no generated table); oracle on the implementation only. " + RULE
    run_all(env, with_model=env.coq_ok)
    assumptions(env)


def assumptions(env):
    env.assume("the pull machine (step / run_until) is a MODEL of CPython generator scheduling: a generator body is resumed only by next(), "
               "runs to its next yield, and LazyList.__next__/has_ind/__getitem__/__iter__ resume the wrapped generator exactly once per cached item; "
               "checked by the measured correspondence for n <= 40, not proved")
    env.assume("termination of the real generators is OBSERVED (per-item alarm, runaway cap of %d pulls on the source), not proved: the claim is partial "
               "in that respect; the theorems give termination and the bound for every n on the model only" % CAP)
    env.assume("filter, uniquify, union, truthy indices, group consecutive, flatten: the bound is relative to the position of the n-th admissible "
               "item of the actual input; cases whose n-th item lies beyond the first %d source items are not run" % LMAX)
    env.assume("long prefixes (n = %d, index %d) and the adversarial item kinds (rationals, integers around 2**53, number/spelling twins) are judged by "
               "the oracle only; the model is evaluated for n <= 40 on small integers" % (LONG_N, LONG_AT))
    env.assume("sources of strings, of finite rows and of infinite lists are judged by the oracle only (reference, bounds, watchdog); the Coq model is "
               "evaluated on the integer sources, its value universe has neither strings nor infinite inner lists")
    env.assume("dyadic stages whose second operand is an infinite list flagged infinite (filter-remove, union, merge, * - +) are judged by the oracle "
               "only; for the remove overload of filter the outputs are not compared while the finding on LazyList.__contains__ is pending "
               "(termination and the pull bound are judged)")
    env.assume("windows/chunks of size 0 and transformations that need the end of the list (tail remove, ÞR) are outside the quantifier "
               "(recorded under outside_the_quantifier)")
