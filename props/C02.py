"""C02 — every well-formed program transpiles to Python that compiles.

Deciding method: theorems in coq/Properties/C02.v about the block-structure model of the
emitted code (Model/PyShape.v): every regenerated template is a valid context-free
statement sequence (proof obligation over Gen/TemplateShapes.v, read from each template
with Python's ast), and for every program tree the emitted code satisfies Python's context
conditions when early exits stand where `ctx_ok` allows.  The models are tied to the
implementation three ways on every run: exact text of transpile() (Model/Transpile.v),
block skeleton of ast.parse(transpile()) = shape_program, py_wf = compile() verdict.
The oracle states the property on the implementation: compile(transpile(p)) raises nothing."""
from __future__ import annotations

import warnings

warnings.simplefilter("ignore")

import itertools

from vlib import common as V
from vlib import layoutcorr, parsecorr, progs, shapecorr, transcorr

CONTEXTS = ["§", "1 2§", "[§|§]", "(§)", "{1|§}", "λ§;", "ƛ§;", "⟨§|§⟩", "@f:1|§;", "v§", "₌§§", "≬§§§", "[(λ⟨§⟩;)]"]


def impl_compiles(item):
    """(src, dict_compress) -> verdict string"""
    src, dc = item
    from vyxal.lexer import tokenise
    from vyxal.parse import parse
    from vyxal.transpile import transpile_ast
    try:
        tree = parse(tokenise(src))
    except (IndexError, ValueError, AssertionError) as e:
        return "ill-formed:" + type(e).__name__
    try:
        code = transpile_ast(tree, dict_compress=dc)
    except Exception as e:  # noqa: BLE001
        return "transpile-raises:" + type(e).__name__
    try:
        compile(code, "<vy>", "exec")
    except SyntaxError as e:
        msg = str(e.msg)
        if "truncated" in msg or "malformed" in msg or "unicodeescape" in msg or "unknown Unicode character" in msg:
            # a backslash pair written in a Vyxal string that is an incomplete Python escape
            return "syntax-error:invalid-python-escape-in-string:" + msg[:60]
        return "syntax-error:" + classify(tree) + ":" + msg[:60]
    return "ok"


def classify(tree):
    """Which known class (if any) explains a context error: mirrors PyShape.ctx_ok and
    names the first offending early exit."""
    from vyxal import structure as S

    found = []

    def walk(x, in_loop, in_def, why):
        if isinstance(x, (list, tuple)):
            for y in x:
                walk(y, in_loop, in_def, why)
            return
        if isinstance(x, S.BreakStatement) or isinstance(x, S.RecurseStatement):
            p = x.parent_structure
            if p in (S.ForLoop, S.WhileLoop) and not in_loop:
                found.append(why)
            if isinstance(x, S.BreakStatement) and p is S.Lambda and not in_def:
                found.append("lambda-break-outside-def")
            return
        if isinstance(x, S.IfStatement):
            for b in x.branches:
                walk(b, in_loop, in_def, why)
        elif isinstance(x, S.ForLoop):
            walk(x.body, True, in_def, why)
        elif isinstance(x, S.WhileLoop):
            walk(x.condition, False, in_def, "exit-in-while-condition")
            walk(x.body, True, in_def, why)
        elif isinstance(x, S.FunctionDef):
            walk(x.body, False, True, "top")
        elif isinstance(x, S.Lambda):
            walk(x.body, False, True, "top")
        elif isinstance(x, S.LambdaOp):
            walk(x.lam.body, False, True, "top")
        elif isinstance(x, S.ListLiteral):
            for b in x.items:
                walk(b, False, True, "exit-in-list-item-inside-loop")
        elif isinstance(x, (S.MonadicModifier, S.DyadicModifier, S.TriadicModifier)):
            for b in x.branches:
                walk(b, False, True, "top")

    walk(tree, False, False, "top")
    return found[0] if found else "unexplained"


def run(env):
    env.rule = ("well-formed programs (= parse raises nothing): all token strings of length <= L over a 14-symbol structural alphabet "
                "(L=4 quick, 5 thorough), every element key and modifier in 13 syntactic contexts, grammar-generated programs (depth <= 4, all "
                "structures, modifiers, literal kinds, X/x at every position), every code-page character in every identifier position (oracle); for each: (1) exact text of transpile() vs Model/Transpile.v, "
                "(2) block skeleton of ast.parse(text) vs shape_program and py_wf vs compile() verdict, (3) oracle: compile(transpile(p)) in both "
                "dictionary modes. Non-trivial = the emitted code contains at least one block; distinct by source.")
    t = env.tables
    V.import_repo()
    rng = env.rng
    g = progs.ProgGen(rng)
    gen = [progs.text(g.program(rng.randint(1, 4))) for _ in range(env.budget(2500, 25000))]
    keys = [e["key"] for e in t["elements"]] + t["parser"]["monadic_modifiers"] + t["parser"]["dyadic_modifiers"] + t["parser"]["triadic_modifiers"]
    in_ctx = []
    for k in keys:
        for c in (CONTEXTS if env.thorough else CONTEXTS[:5] + CONTEXTS[9:12]):
            in_ctx.append(c.replace("§", k + " "))
    seeds = ["(⟨X⟩)", "{X|1}", "{1|⟨1|x⟩}", "λX;", "(X)", "[X]", "{x}", "λ⟨X⟩;", "(v+X)", "¨…", "‛a\\", "~+", "₌+-", "≬1+-",
             "ƛX;", "µx;", "@f:1|X;", "3(n2=[X])", "3(n2=[X|x])", "(λX;)", "(⁽X)", "{(X)|1}", "[1|2|3|4|5]", "(i|(j|X))",
             "[1|2|3|4]", "[1|2|3|4|5|6]", "[|||]", "([1|2|3|4])", "@f:01|+;", "@f:007|W;", "@f:a:02|+;", "@f:²|1;", "@f:½|1;", "@f:*|1;",
             "`\\\"`", "`\\\"", "‛\\\"", "`a\\\"b`", "`\\x`", "`\\u`", "`\\U`", "`\\N`", "`a\\xg`", "`\\x41`", "`\\n`", "`\\\\`", "‛\\x", "`\\``"]
    exhaustive = list(parsecorr.exhaustive(env.budget(4, 5)))
    # 1. exact text (the expensive comparison: sample the exhaustive set)
    text_srcs = seeds + gen[: env.budget(1200, 8000)] + in_ctx[: env.budget(1500, 100000)] + rng.sample(exhaustive, min(len(exhaustive), env.budget(1500, 20000)))
    transcorr.check(env, text_srcs)
    # 2. block skeleton + verdict on everything
    shapes, _ = shapecorr.check(env, seeds + gen + in_ctx + exhaustive)
    # 2b. Coq's own reading of the implementation's TEXT (Model/Layout.v) vs compile(), plus mutated texts
    layoutcorr.check(env, seeds + gen + in_ctx + exhaustive)
    # 3. oracle in both dictionary modes
    # characters that Python (or textwrap / str.splitlines) treats as a line boundary or as blank space, inside every
    # kind of string literal at indentation 0, 1 and 2 (outside the code page: the oracle alone sees them)
    odd = ["\r", "\x0b", "\x0c", "\x1c", "\x1d", "\x1e", "\x85", "\u2028", "\u2029", "\t", "\xa0", "\r\n"]
    odd_srcs = [pre + lit.replace("§", c) + post for c in odd
                for lit in ("`a§b`", "`§`", "‛§z", "‛a§", "`a\\§b`")
                for pre, post in (("", ""), ("3(", ")"), ("λ", ";"), ("3(λ⟨", "|1⟩;)"), ("v", ""), ("@f:1|", ";"))]
    # every code-page character in every position where program text becomes (part of) a Python identifier: function
    # name at the definition and at the call, named parameter, loop variable, variable get / set -- alone and after a letter
    cp = t["encoding"]["codepage"]
    name_srcs = []
    for ch in cp:
        for nm in (ch, "a" + ch, ch + "b", "a" + ch + "b"):
            name_srcs += [f"@{nm}:1|+;", f"3 @{nm};", f"@f:{nm}|+;", f"@f:1:{nm}|+;", f"3({nm}|n)", f"1 →{nm} ", f"←{nm} ", f"@{nm}:x|←x;2 @{nm};"]
    if not env.thorough:
        name_srcs = [x for k, x in enumerate(name_srcs) if (k + env.seed) % 2 == 0]
    env.note("identifier_position_sources", len(name_srcs))
    allsrc = list(dict.fromkeys(seeds + gen + in_ctx + exhaustive + odd_srcs + name_srcs))
    items = [(s, True) for s in allsrc] + [(s, False) for s in allsrc]
    res = V.pmap(impl_compiles, items, timeout=20)
    dist = {}
    n_wf = 0
    for (s, dc), (st, v) in zip(items, res):
        if st != "ok":
            env.fail({"program": s, "dict_compress": dc}, f"transpile/compile did not finish: {st} {v}")
            continue
        head = v.split(":")[0]
        dist[head] = dist.get(head, 0) + 1
        if head == "ill-formed":
            continue
        n_wf += 1
        if head == "ok":
            continue
        if head == "syntax-error":
            cls = v.split(":")[1]
            env.fail({"program": s, "dict_compress": dc}, v, cls=("C02:" + cls) if cls != "unexplained" else None)
        else:
            env.fail({"program": s, "dict_compress": dc}, v)
    env.count(len(items), (f"wf:{s}" for s in allsrc if s in shapes and "NBlock" in shapes[s][2]))
    env.note("oracle_verdict_distribution", dist)
    env.note("well_formed_programs_compiled", n_wf)
    env.note("sources", {"generated": len(gen), "keys_in_context": len(in_ctx), "exhaustive": len(exhaustive), "seeds": len(seeds)})
    for s in (gen[0], gen[1], in_ctx[3], "3(n2=[X|x])"):
        env.sample({"program": s})
    env.sample({"obligation": "C02_context_conditions: forallb (ctx_ok false false) l = true -> py_wf (shape_program l) = true"})
    env.assume("a block tree that is py_wf and whose leaves are the fixed vocabulary lines / compiled templates renders to text that compiles (measured both ways against compile() on every case, not proved)")
    env.assume("the text, parser and lexer models equal the implementation (checked by correspondence)")
    env.assume("Model/Layout.v reads Python's block structure as CPython does on the emitted subset: `accepts text` = compile() verdict, measured on the implementation's texts in both dictionary modes and on structurally mutated texts (vlib/layoutcorr.py); validity of escape sequences inside string literals is outside the layout model")
    env.assume("well-formed = parse raises nothing; chars outside the code page are outside the text model")
