"""C03 — literal contents and comments are data, never syntax.

Deciding method: theorems in coq/Properties/C03.v (every syntax decision of parse.py is
guarded by the token kind — flags regenerated from the source's AST; a literal token is
always a plain statement; branch grouping and the whole tree are independent of literal
payloads; per literal kind the lexer delivers the payload as one token's value) about
the hand-written lexer/parser models, tied to the implementation by correspondence; the
oracle states the property on the implementation (shape invariance under payload
substitution)."""
from __future__ import annotations

import itertools

from vlib import common as V
from vlib import lexcorr, parsecorr, progs

SYNTAX = list("|;])}⟩Xxv⁽&~ßƒɖ₌‡₍≬[({λƛ'µ⟨@")

CONTEXTS = [
    "§", "1§+", "§§", "[§|1]", "[1|§]", "[1|§|2|3]", "(§)", "(i|§)", "3(§n)", "{§|1}", "{1|§}", "{§}",
    "λ§;", "λ2|§;", "ƛ§;", "'§;", "µ§;", "⟨§|1⟩", "⟨1|§⟩", "⟨1|§|2⟩", "@f:1|§;", "@f|§;5@f;",
    "v§", "&§", "~§", "ß§", "ƒ§", "ɖ§", "⁽§", "₌§+", "₌+§", "‡§+", "₍§§", "≬1§+", "≬§§§",
    "[(λ⟨§⟩;)]", "[1|(2|{3|λ4|⟨5|§⟩;})]", "3(n[§|`x`])", "[§]X", "(§x)",
]

# structures to nest a context in (the literal ends up 2-5 structures deep, in every branch position)
WRAPPERS = ["[§|a]", "[a|§]", "[a|b|§]", "(§)", "(i|§)", "{§|1}", "{1|§}", "λ§;", "λ2|§;", "ƛ§;", "'§;", "µ§;",
            "⟨§|1⟩", "⟨1|§⟩", "@f|§;", "@f:1|§;", "[§]", "a§b"]


def deep_contexts(rng, n):
    out = []
    while len(out) < n:
        c = rng.choice(CONTEXTS)
        for _ in range(rng.randint(1, 4)):
            c = rng.choice(WRAPPERS).replace("§", c)
        # trailing code after the outermost closer shows a literal that closed something early
        out.append(c + rng.choice(["", "d", "1+", "X"]))
    return list(dict.fromkeys(out))


LITERAL_KINDS = ("string", "twochar", "character", "compressed_number", "compressed_string", "codepage_number", "comment")


def literal(kind, payload):
    if kind == "string":
        return "`" + payload + "`"
    if kind == "twochar":
        return "‛" + payload
    if kind == "character":
        return "\\" + payload
    if kind == "compressed_number":
        return "»" + payload + "»"
    if kind == "compressed_string":
        return "«" + payload + "«"
    if kind == "codepage_number":
        return "⁺" + payload
    return "#" + payload + "\n"


def payload_lengths(kind):
    if kind == "twochar":
        return (2,)
    if kind in ("character", "codepage_number"):
        return (1,)
    return (0, 1, 2)


def baseline(kind):
    return {"twochar": "ab", "character": "a", "codepage_number": "a"}.get(kind, "ab")


def impl_shape(src):
    """repr of the parse with the values of literal tokens blanked; or the error class."""
    from vyxal import structure as S
    from vyxal.lexer import Token, TokenType, tokenise
    from vyxal.parse import parse
    LIT = (TokenType.STRING, TokenType.CHARACTER, TokenType.COMPRESSED_NUMBER, TokenType.COMPRESSED_STRING, TokenType.CODEPAGE_NUMBER)

    def sh(x):
        if isinstance(x, Token):
            return ("T", x.name.value, "" if x.name in LIT else x.value)
        if isinstance(x, S.Structure):
            extra = ()
            if isinstance(x, (S.BreakStatement, S.RecurseStatement)):
                p = x.parent_structure
                return (type(x).__name__, p.__name__ if p is not None else None)
            if hasattr(x, "modifier"):
                extra = (x.modifier,)
            return (type(x).__name__,) + extra + tuple(sh(b) for b in x.branches)
        if isinstance(x, (list, tuple)):
            return tuple(sh(b) for b in x)
        return ("V", x)

    try:
        return repr(sh(parse(tokenise(src))))
    except (IndexError, ValueError, AssertionError) as e:
        return "err:" + type(e).__name__


def unicode_hazards(limit):
    """Characters OUTSIDE the code page that a Unicode transformation turns into (a sequence containing) a syntax-significant
    character -- NFC / NFD / NFKC / NFKD, case mapping, casefold -- and letter + combining-mark pairs that compose to one
    character.  A payload is data whatever such a transformation would make of it.  Computed from unicodedata, not listed."""
    import unicodedata
    syn = set(SYNTAX) | set("`»«‛\\#⁺ ")
    out = []
    for cp in range(0x80, 0x30000):
        ch = chr(cp)
        if ch in syn:
            continue
        forms = {unicodedata.normalize(f, ch) for f in ("NFC", "NFD", "NFKC", "NFKD")} | {ch.upper(), ch.lower(), ch.casefold()}
        if any(f != ch and any(c in syn for c in f) for f in forms):
            out.append(ch)
    step = max(1, len(out) // limit)
    out = out[::step][:limit]
    out += ["a\u0307", "e\u0301", "o\u0308", "n\u0303", "\u0307", "A\u030a"]
    return out


def gen_payload_cases(env):
    """(context, kind, payload) triples: exhaustive up to the tier's bound, then sampled."""
    exhaustive_len = env.budget(1, 2)
    cases = []
    hz = unicode_hazards(400)
    env.note("unicode_hazard_payloads", {"count": len(hz), "examples": [f"U+{ord(h[0]):04X}" + ("+" + f"U+{ord(h[1]):04X}" if len(h) > 1 else "") for h in hz[:12]]})
    for ctx in (CONTEXTS if env.thorough else CONTEXTS[env.seed % 2::2]):
        for h in hz:
            for kind in ("string", "twochar", "character", "comment"):
                if kind == "character":
                    pl = h[:1]
                elif kind == "twochar":
                    pl = (h + "b")[:2]
                else:
                    pl = "x" + h + "y"
                cases.append((ctx, kind, pl))
    deep = deep_contexts(env.rng, env.budget(120, 600))
    env.note("deep_contexts", len(deep))
    for ctx in deep:
        for kind in LITERAL_KINDS:
            alphabet = SYNTAX if kind != "comment" else SYNTAX + ["`", "»"]
            ns = payload_lengths(kind)
            for ch in alphabet:
                cases.append((ctx, kind, ch * max(1, min(ns)) if kind == "twochar" else ch))
            if 0 in ns:
                cases.append((ctx, kind, ""))
    for ctx in CONTEXTS:
        for kind in LITERAL_KINDS:
            for n in payload_lengths(kind):
                alphabet = SYNTAX if kind != "comment" else SYNTAX + ["`", "»"]
                if n <= exhaustive_len or kind in ("character", "codepage_number"):
                    for tup in itertools.product(alphabet, repeat=n):
                        cases.append((ctx, kind, "".join(tup)))
                else:
                    for _ in range(env.budget(40, 0)):
                        cases.append((ctx, kind, "".join(env.rng.choice(alphabet) for _ in range(n))))
    return cases


def run(env):
    env.rule = ("payload substitution: 40 fixed contexts, plus 120 (quick) / 600 (thorough) generated contexts that nest a fixed one 1-4 structures "
                "deeper in every branch position (single-character payloads there), x 7 literal kinds (string, two-character string, escaped character, compressed "
                "number, compressed string, code-page number, comment) x payloads over the 30 syntax-significant characters, exhaustive for "
                "payload length <= 1 (quick; length 2 sampled) / <= 2 (thorough); oracle on the implementation: shape of parse(tokenise(p)) with "
                "literal values blanked equals the shape with a neutral payload; the same sources and grammar-generated programs with "
                "syntax-significant payloads go through the lexer and parser model-vs-implementation correspondence. "
                "Non-trivial = payload contains a syntax-significant character; distinct by (context, kind, payload).")
    t = env.tables
    V.import_repo()
    lexcorr.check(env, lexcorr.gen_strings(env, t, 2, env.budget(300, 3000)))
    cases = gen_payload_cases(env)
    srcs = [c.replace("§", literal(k, p)) for c, k, p in cases]
    base = {(c, k): c.replace("§", literal(k, baseline(k))) for c in dict.fromkeys(c for c, _, _ in cases) for k in LITERAL_KINDS}
    uniq = list(dict.fromkeys(srcs + list(base.values())))
    shapes = dict(zip(uniq, V.pmap(impl_shape, uniq, timeout=10)))
    kinds = {}
    for (c, k, p), s in zip(cases, srcs):
        kinds[k] = kinds.get(k, 0) + 1
        st0, sh0 = shapes[base[(c, k)]]
        st1, sh1 = shapes[s]
        if st0 != "ok" or st1 != "ok" or sh0 != sh1:
            env.fail({"context": c, "kind": k, "payload": p, "program": s},
                     f"shape differs from the shape with payload {baseline(k)!r}: {str(sh1)[:160]} vs {str(sh0)[:160]}")
    env.count(len(cases), (f"{c}|{k}|{p}" for c, k, p in cases if p))
    env.note("payload_cases_by_literal_kind", kinds)
    env.note("contexts", len(CONTEXTS))
    # model vs implementation on the same sources (+ generated programs with such payloads)
    g = progs.ProgGen(env.rng, payload_chars=SYNTAX + list("ab1 "))
    gen = [progs.text(g.program(env.rng.randint(1, 4))) for _ in range(env.budget(2000, 20000))]
    corr = uniq if len(uniq) <= 60000 else env.rng.sample(uniq, 60000)
    parsecorr.check(env, corr + gen)
    for c, k, p in cases[:: max(1, len(cases) // 5)][:5]:
        env.sample({"context": c, "kind": k, "payload": p})
    env.sample({"obligation": "C03_tokens: leq ts1 ts2 -> names_lit_free .. ts1 = true -> shape_res (parse_tokens ts1) = shape_res (parse_tokens ts2)"})
    env.assume("the lexer and parser models equal lexer.tokenise / parse.parse (checked by the correspondence, not proved)")
    env.assume("literals placed in name / parameter / arity branches are outside the property (names_lit_free)")
    env.assume("back-quoted payloads containing a backslash or the delimiter are escape sequences, covered by C06 rather than here")
