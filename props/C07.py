"""C07 — rational arithmetic is exact and stays inside the number types.

Deciding method: theorems in coq/Properties/C07.v about the Q-based model
coq/Model/Arith.v (six number/number overloads, by-zero conventions, Python floor/mod
signs, expression trees of any depth).  Tie to /repo: every number/number call the
implementation makes here is re-evaluated by the model inside Coq (`K`/`T` cases,
vm_compute) and compared on the canonical observation ("int", n) / ("rat", p, q) /
exception / NONRATIONAL.  The oracle states the property on the implementation alone
(fractions.Fraction as the reference) and produces the replays."""
from __future__ import annotations

import collections
import math
from fractions import Fraction

from vlib import common as V

OPS = ["add", "subtract", "multiply", "divide", "modulo", "integer_divide"]
COQ_OP = {"add": "OAdd", "subtract": "OSub", "multiply": "OMul", "divide": "ODiv",
          "modulo": "OMod", "integer_divide": "OFloordiv"}
TREE_OPS = {"add": "EAdd", "subtract": "ESub", "multiply": "EMul", "divide": "EDiv"}

PREAMBLE = ("From Coq Require Import ZArith QArith List Bool.\n"
            "From Vy Require Import Model.Arith.\nImport ListNotations.\n")
CHECKER = "fun c : bool => c"


# ----------------------------------------------------------------------------
# implementation side (runs in forked workers)
# ----------------------------------------------------------------------------

def mk(v):
    """(p, q, rep) -> the Python object handed to the element function."""
    import sympy
    p, q, rep = v
    if rep == "py":
        assert q == 1
        return p
    return sympy.Rational(p, q)        # an Integer when q == 1


def canon(r):
    """§4.3: int / sympy Integer -> ("int", n); sympy Rational -> ("rat", p, q);
    anything else is reported by type name, never coerced."""
    import sympy
    if type(r) is int:
        return ("int", r)
    if isinstance(r, sympy.Integer):
        return ("int", int(r))
    if isinstance(r, sympy.Rational):
        return ("rat", int(r.p), int(r.q))
    return ("NONRATIONAL", type(r).__name__)


def call(fn, a, b, ctx):
    try:
        return fn(a, b, ctx)
    except RecursionError:
        raise
    except V.Timeout:
        raise
    except Exception as e:  # noqa: BLE001
        return e


def canon_or_exc(r):
    if isinstance(r, Exception):
        return ("EXC", type(r).__name__)
    return canon(r)


def eval_pairs(batch):
    """batch: list of (lhs, rhs) operand triples.  For every pair: the six overloads,
    and the chained identities (a/b)*b, (a*b)/b, (a//b)*b + a%b."""
    from vyxal import elements as E
    from vyxal.context import Context
    ctx = Context()
    fns = {o: getattr(E, o) for o in OPS}
    out = []
    for va, vb in batch:
        a, b = mk(va), mk(vb)
        single = []
        raw = {}
        for o in OPS:
            r = call(fns[o], a, b, ctx)
            raw[o] = r
            single.append(canon_or_exc(r))
        ident = None
        if vb[0] != 0:
            ident = []
            q, m, fd, md = raw["divide"], raw["multiply"], raw["integer_divide"], raw["modulo"]
            ident.append(canon_or_exc(q if isinstance(q, Exception) else call(E.multiply, q, b, ctx)))
            ident.append(canon_or_exc(m if isinstance(m, Exception) else call(E.divide, m, b, ctx)))
            if isinstance(fd, Exception) or isinstance(md, Exception):
                ident.append(("EXC", "operand"))
            else:
                t = call(E.multiply, fd, b, ctx)
                ident.append(canon_or_exc(t if isinstance(t, Exception) else call(E.add, t, md, ctx)))
        out.append((single, ident))
    return out


def eval_tree_impl(t, E, ctx):
    if t[0] == "lit":
        return mk(t[1])
    l = eval_tree_impl(t[1], E, ctx)
    r = eval_tree_impl(t[2], E, ctx)
    return getattr(E, t[0])(l, r, ctx)


def eval_trees(batch):
    from vyxal import elements as E
    from vyxal.context import Context
    ctx = Context()
    out = []
    for t in batch:
        try:
            out.append(canon(eval_tree_impl(t, E, ctx)))
        except RecursionError:
            raise
        except V.Timeout:
            raise
        except Exception as e:  # noqa: BLE001
            out.append(("EXC", type(e).__name__))
    return out


# ----------------------------------------------------------------------------
# reference (fractions.Fraction) and Coq literals
# ----------------------------------------------------------------------------

def frac(v):
    return Fraction(v[0], v[1])


def expected(op, a, b):
    """The property's value of `op a b`; None = outside the property (modulo by zero)."""
    if op == "add":
        return a + b
    if op == "subtract":
        return a - b
    if op == "multiply":
        return a * b
    if op == "divide":
        return Fraction(0) if b == 0 else a / b
    if op == "integer_divide":
        return Fraction(0) if b == 0 else Fraction(math.floor(a / b))
    if op == "modulo":
        return None if b == 0 else a - b * math.floor(a / b)
    raise ValueError(op)


def eval_tree_frac(t):
    """(value, zero divisors met, widest intermediate value in bits, widest operand of a
    division in bits) with the property's x/0 = 0."""
    if t[0] == "lit":
        v = frac(t[1])
        return v, 0, max(abs(v.numerator).bit_length(), v.denominator.bit_length()), 0
    l, zl, wl, dl = eval_tree_frac(t[1])
    r, zr, wr, dr = eval_tree_frac(t[2])
    z, dw = zl + zr, max(dl, dr)
    if t[0] == "divide":
        dw = max(dw, abs(l.numerator).bit_length(), abs(r.numerator).bit_length())
        v = Fraction(0) if r == 0 else l / r
        z += 1 if r == 0 else 0
    else:
        v = expected(t[0], l, r)
    return v, z, max(wl, wr, abs(v.numerator).bit_length(), v.denominator.bit_length()), dw


def res_value(c):
    if c[0] == "int":
        return Fraction(c[1])
    if c[0] == "rat":
        return Fraction(c[1], c[2])
    return None


def coq_cval(c):
    if c[0] == "int":
        return f"(CInt ({c[1]}))"
    if c[0] == "rat":
        return f"(CRat ({c[1]}) {c[2]})"
    if c[0] == "EXC" and c[1] == "ZeroDivisionError":
        return "CZeroDiv"
    return "COther"


def coq_case(op, va, vb, c):
    return f"K {COQ_OP[op]} ({va[0]}) {va[1]} ({vb[0]}) {vb[1]} {coq_cval(c)}"


def coq_tree(t):
    if t[0] == "lit":
        return f"(L ({t[1][0]}) {t[1][1]})"
    return f"({TREE_OPS[t[0]]} {coq_tree(t[1])} {coq_tree(t[2])})"


def show(v):
    p, q, rep = v
    if rep == "py":
        return str(p)
    return f"sympy.Integer({p})" if q == 1 else f"sympy.Rational({p}, {q})"


def key(op, va, vb):
    return f"{op}:{va[0]}/{va[1]}{va[2][0]}:{vb[0]}/{vb[1]}{vb[2][0]}"


# ----------------------------------------------------------------------------
# generators
# ----------------------------------------------------------------------------

def box(pmax, qmax):
    """every reduced p/q with |p| <= pmax, 1 <= q <= qmax, in every representation:
    integers as Python int and as sympy Integer, the rest as sympy Rational."""
    vals = []
    for q in range(1, qmax + 1):
        for p in range(-pmax, pmax + 1):
            if math.gcd(p, q) != 1:
                continue
            if q == 1:
                vals.append((p, 1, "py"))
            vals.append((p, q, "sym"))
    return vals


def operand(rng, f):
    f = Fraction(f)
    if f.denominator == 1:
        return (f.numerator, 1, "py" if rng.random() < 0.5 else "sym")
    return (f.numerator, f.denominator, "sym")


def big_pairs(rng, n):
    """|p| <= 10^6, q <= 10^4; a fifth of the pairs have an exact integer quotient, a
    tenth an integer operand, a few a zero operand."""
    out = []
    for _ in range(n):
        b = Fraction(rng.randint(-10**6, 10**6), rng.randint(1, 10**4))
        mode = rng.random()
        if mode < 0.2 and b != 0:
            k = rng.randint(-1000, 1000)
            a = b * k
            if abs(a.numerator) > 10**6:
                a = Fraction(rng.randint(-10**6, 10**6), rng.randint(1, 10**4))
        elif mode < 0.3:
            a = Fraction(rng.randint(-10**6, 10**6))
        elif mode < 0.33:
            a = Fraction(0)
        else:
            a = Fraction(rng.randint(-10**6, 10**6), rng.randint(1, 10**4))
        if rng.random() < 0.1:
            b = Fraction(rng.randint(-10**6, 10**6))
        if rng.random() < 0.02:
            b = Fraction(0)
        if rng.random() < 0.5:
            a, b = b, a
        out.append((operand(rng, a), operand(rng, b)))
    return out


def bits(n):
    return abs(int(n)).bit_length()


def bucket(b):
    for hi, name in ((16, "<=16"), (32, "17-32"), (53, "33-53"), (64, "54-64"), (128, "65-128")):
        if b <= hi:
            return name
    return ">128"


def structured_ints():
    """Whole numbers around the places where machine arithmetic stops being exact."""
    out = set()
    for k in (24, 31, 32, 52, 53, 54, 62, 63, 64, 65, 100, 127, 128, 130):
        out.update((2**k - 1, 2**k, 2**k + 1))
    for k in (9, 12, 15, 16, 17, 18, 19, 20, 24, 30, 40):
        out.update((10**k - 1, 10**k, 10**k + 1))
    out.update((math.factorial(20), math.factorial(25), math.factorial(30), 10**6 * 10**6 * 10**6 + 1,
                3**34, 3**40, 7**23, 9007199254740993, 123456789012345678901234567890))
    small = list(range(1, 13))
    for x in small:                      # products of the small operands
        for y in small:
            out.add((x * y) ** 9 + 1)
    out = sorted(v for v in out if v <= 10**40)
    return out + [-v for v in out]


def rand_big_int(rng):
    """|n| <= 10^40 with the bit length (not the value) uniform, so 53- and 64-bit sizes are hit."""
    n = rng.getrandbits(rng.randint(1, 132))
    n = min(n, 10**40)
    return -n if rng.random() < 0.5 else n


def both_reps(rng, f):
    return operand(rng, f)


def huge_pairs(rng, n):
    """Integers and rationals with |p|, q up to 10^40: structured values against small
    divisors and against each other, exact multiples with a huge quotient, near-integer
    quotients (k*n + 1)/n, random big integers and random big rationals."""
    S = structured_ints()
    small = [d for d in range(-12, 13) if d != 0]
    out = []

    def add(a, b):
        a, b = Fraction(a), Fraction(b)
        if max(abs(a.numerator), a.denominator, abs(b.numerator), b.denominator) > 10**40:
            return
        out.append((operand(rng, a), operand(rng, b)))

    # every structured value by a few small divisors, in both orders (deterministic part)
    for i, v in enumerate(S):
        for d in (3, 7, -2, small[i % len(small)]):
            add(v, d)
        add(small[i % len(small)], v)
    while len(out) < n:
        m = rng.random()
        if m < 0.15:
            add(rng.choice(S), rng.choice(S))
        elif m < 0.30:                   # exact multiple, quotient far above 2^53
            b = rng.choice(S) if rng.random() < 0.5 else rand_big_int(rng)
            k = rand_big_int(rng)
            if b != 0:
                add(b * k, b)
        elif m < 0.42:                   # quotient within 1/n of an integer
            nn = abs(rand_big_int(rng)) + 2
            k = rng.choice([1, 1, 2, 3, -1, rng.randint(-10**6, 10**6), rand_big_int(rng)])
            add(k * nn + rng.choice([1, -1]), nn)
        elif m < 0.60:
            add(rand_big_int(rng), rand_big_int(rng) or 1)
        elif m < 0.70:
            add(rand_big_int(rng), rng.choice(small + [0]))
        elif m < 0.85:                   # big rational against big rational / integer
            a = Fraction(rand_big_int(rng), abs(rand_big_int(rng)) + 1)
            b = Fraction(rand_big_int(rng), abs(rand_big_int(rng)) + 1) if rng.random() < 0.6 else Fraction(rand_big_int(rng))
            if rng.random() < 0.5:
                a, b = b, a
            add(a, b)
        else:                            # big rational against a small operand
            a = Fraction(rng.choice(S), rng.choice(S))
            b = Fraction(rng.randint(-12, 12), rng.randint(1, 6))
            if rng.random() < 0.5:
                a, b = b, a
            add(a, b)
    return out[:n] if len(out) > n else out


STRUCT = structured_ints()


def leaf(rng):
    m = rng.random()
    if m < 0.5:
        f = Fraction(rng.randint(-12, 12), rng.randint(1, 6))
    elif m < 0.7:
        f = Fraction(rng.randint(-1000, 1000), rng.randint(1, 100))
    elif m < 0.82:
        f = Fraction(rng.randint(-10**6, 10**6), rng.randint(1, 10**4))
    elif m < 0.92:
        f = Fraction(rng.choice(STRUCT))
    else:
        f = Fraction(rand_big_int(rng))
    return ("lit", operand(rng, f))


def int_leaf(rng):
    m = rng.random()
    if m < 0.35:
        v = rng.choice([10**3, 10**6, 10**9, 2**16, 2**31, 2**32, 1000003, 999983])
    elif m < 0.7:
        v = rng.randint(2, 10**9)
    elif m < 0.85:
        v = rng.randint(-10**6, 10**6) or 7
    else:
        v = rng.choice(STRUCT)
    return ("lit", operand(rng, Fraction(v)))


def balanced(op, leaves):
    if len(leaves) == 1:
        return leaves[0]
    h = len(leaves) // 2
    return (op, balanced(op, leaves[:h]), balanced(op, leaves[h:]))


def product_chain(rng):
    """a product of whole numbers (optionally +- a small number), then a division:
    the dividend exceeds 2^53 / 2^64 routinely.  Depth <= 5."""
    n = rng.randint(2, 8)                                   # balanced product: depth <= 3
    t = balanced("multiply", [int_leaf(rng) for _ in range(n)])
    if rng.random() < 0.6:                                  # depth <= 4
        t = (rng.choice(["add", "subtract"]), t, ("lit", operand(rng, Fraction(rng.choice([1, 1, 2, 3, 5, 7])))))
    m = rng.random()
    if m < 0.5:
        d = ("lit", operand(rng, Fraction(rng.choice([2, 3, 7, 9, 11, 13, -3, 64, 1000, 10**6]))))
    elif m < 0.8:
        d = balanced("multiply", [int_leaf(rng) for _ in range(rng.randint(1, 4))])
    else:
        d = leaf(rng)
    return ("divide", t, d)                                 # depth <= 5


def tree(rng, depth):
    if depth == 0 or rng.random() < 0.12:
        return leaf(rng)
    op = rng.choice(["add", "subtract", "multiply", "divide", "divide"])
    return (op, tree(rng, depth - 1), tree(rng, depth - 1))


def tree_depth(t):
    return 0 if t[0] == "lit" else 1 + max(tree_depth(t[1]), tree_depth(t[2]))


def chunks(xs, n):
    return [xs[i:i + n] for i in range(0, len(xs), n)]


# ----------------------------------------------------------------------------
# the check
# ----------------------------------------------------------------------------

def oracle_pair(env, va, vb, single, ident, stats):
    a, b = frac(va), frac(vb)
    for op, c in zip(OPS, single):
        inp = {"op": op, "lhs": show(va), "rhs": show(vb)}
        stats["result_kind"][f"{op}:{c[0] if c[0] != 'EXC' else c[1]}"] += 1
        want = expected(op, a, b)
        if want is None:                      # modulo by zero: outside the property
            stats["modulo_by_zero"][c[1] if c[0] in ("EXC", "NONRATIONAL") else c[0]] += 1
            if not (c == ("EXC", "ZeroDivisionError") or c[0] in ("int", "rat")):
                env.fail(inp, f"modulo by zero gives {c}: neither ZeroDivisionError nor a number", cls="modulo-by-zero-nonnumber")
            continue
        if c[0] == "EXC":
            env.fail(inp, f"raises {c[1]} (expected {want})", cls=f"raises:{op}")
            continue
        if c[0] not in ("int", "rat"):
            env.fail(inp, f"result leaves the number types: it is a {c[1]} (expected {want})", cls=f"nonrational:{op}")
            continue
        if c[0] == "rat" and (c[2] <= 1 or math.gcd(c[1], c[2]) != 1):
            env.fail(inp, f"rational result not in lowest terms / integer typed as Rational: {c}", cls=f"unreduced:{op}")
        if res_value(c) != want:
            env.fail(inp, f"{op} gives {res_value(c)}, the mathematical result is {want}", cls=f"wrong-value:{op}")
        elif op in ("divide", "integer_divide") and b == 0 and c != ("int", 0):
            env.fail(inp, f"{op} by zero gives {c}, not 0", cls=f"by-zero:{op}")
    if ident is not None:
        names = ["multiply(divide(a, b), b) == a", "divide(multiply(a, b), b) == a",
                 "add(multiply(integer_divide(a, b), b), modulo(a, b)) == a"]
        for nm, c in zip(names, ident):
            if res_value(c) != a:
                env.fail({"identity": nm, "a": show(va), "b": show(vb)}, f"identity gives {c}",
                         cls=f"identity:{nm.split('(')[0]}")
        md = res_value(single[OPS.index("modulo")])
        if md is not None and not ((0 <= md < b) if b > 0 else (b < md <= 0)):
            env.fail({"op": "modulo", "lhs": show(va), "rhs": show(vb)}, f"remainder {md} outside [0, b) / (b, 0]", cls="mod-range")


def run_pairs(env, name, pairs, stats):
    res = V.pmap(eval_pairs, chunks(pairs, 400), timeout=env.budget(120, 300))
    cases = []
    keys = []
    n_eval = 0
    for chunk, (st, val) in zip(chunks(pairs, 400), res):
        if st != "ok":
            env.proof_broken(f"implementation did not finish a batch of {name} pairs ({st})", f"{val}; first pair {chunk[0]}")
            continue
        for (va, vb), (single, ident) in zip(chunk, val):
            oracle_pair(env, va, vb, single, ident, stats)
            n_eval += 6 + (3 if ident is not None else 0)
            stats["pair_bits"][name][bucket(max(bits(va[0]), bits(va[1]), bits(vb[0]), bits(vb[1])))] += 1
            if va[1] == 1 and vb[1] == 1 and vb[0] != 0 and (bits(va[0]) > 53 or bits(va[0]) - bits(vb[0]) >= 53):
                stats["wide_divisions"][name] += 1
            for kind in (va, vb):
                stats["operand_kind"]["python int" if kind[2] == "py" else ("sympy Integer" if kind[1] == 1 else "sympy Rational")] += 1
            for op, c in zip(OPS, single):
                cases.append((op, va, vb, c))
                v = res_value(c)
                if va[0] != 0 and vb[0] != 0 and v is not None and v != frac(va) and v != frac(vb):
                    keys.append(key(op, va, vb))
    ok, bad, logs = env.coq_mismatches(
        name, PREAMBLE, lambda lo, hi: "[" + ";\n".join(coq_case(*c) for c in cases[lo:hi]) + "]",
        CHECKER, len(cases), shard=1500)
    if not ok:
        env.proof_broken(f"{name}: correspondence cases failed to evaluate in Coq", logs)
    for i in bad:
        op, va, vb, c = cases[i]
        if op == "modulo" and vb[0] == 0 and c[0] in ("int", "rat"):
            # outside the property: the model records today's ZeroDivisionError; another
            # exact number here is a behaviour change, not a violation (reported as a note)
            stats["modulo_by_zero_drift"] += 1
            continue
        env.disagree(f"arith:{op}", {"op": op, "lhs": show(va), "rhs": show(vb)}, "(model disagrees)", list(c))
    env.count(n_eval, keys)
    stats["cases"][name] = len(cases)
    return cases


def run_trees(env, n, stats):
    rng = env.rng
    trees = [product_chain(rng) if rng.random() < 0.4 else tree(rng, rng.randint(1, 5)) for _ in range(n)]
    res = V.pmap(eval_trees, chunks(trees, 200), timeout=env.budget(120, 300))
    cases = []
    keys = []
    for chunk, (st, val) in zip(chunks(trees, 200), res):
        if st != "ok":
            env.proof_broken(f"implementation did not finish a batch of expression trees ({st})", str(val))
            continue
        for t, c in zip(chunk, val):
            want, zeros, width, divwidth = eval_tree_frac(t)
            d = tree_depth(t)
            assert d <= 5
            stats["tree_depth"][d] += 1
            stats["tree_bits"][bucket(width)] += 1
            if divwidth > 53:
                stats["tree_wide_divisions"] += 1
            stats["tree_result_kind"][c[0] if c[0] != "EXC" else c[1]] += 1
            if zeros:
                stats["trees_with_zero_divisor"] += 1
            if c[0] not in ("int", "rat"):
                env.fail({"tree": coq_tree(t)}, f"tree result leaves the number types: {c} (expected {want})", cls="tree-nonrational")
            elif res_value(c) != want:
                env.fail({"tree": coq_tree(t)}, f"tree evaluates to {res_value(c)}, fractions.Fraction gives {want}", cls="tree-wrong-value")
            cases.append((t, c))
            if d >= 2 and want != 0:
                keys.append("tree:" + coq_tree(t))
    ok, bad, logs = env.coq_mismatches(
        "trees", PREAMBLE, lambda lo, hi: "[" + ";\n".join(f"TC {coq_tree(t)} {coq_cval(c)}" for t, c in cases[lo:hi]) + "]",
        CHECKER, len(cases), shard=300)
    if not ok:
        env.proof_broken("trees: correspondence cases failed to evaluate in Coq", logs)
    for i in bad:
        t, c = cases[i]
        env.disagree("arith:tree", {"tree": coq_tree(t)}, "(model disagrees)", list(c))
    env.count(len(cases), keys)
    stats["cases"]["trees"] = len(cases)
    return cases


def run(env):
    V.import_repo()
    import vyxal.elements  # noqa: F401  (imported before the workers fork)
    import vyxal.context  # noqa: F401
    pmax, qmax = env.budget((12, 6), (16, 8))
    n_big = env.budget(2500, 25000)
    n_huge = env.budget(4000, 30000)
    n_trees = env.budget(4000, 30000)
    env.rule = (
        f"the six number/number overloads add, subtract, multiply, divide, modulo, integer_divide called as vyxal.elements.<op>(lhs, rhs, Context()) "
        f"on EVERY ordered pair of reduced rationals with |p| <= {pmax}, q <= {qmax} in every operand representation (integers as Python int and as sympy Integer, "
        f"non-integers as sympy Rational), on {n_big} sampled pairs with |p| <= 10^6, q <= 10^4 (a fifth with an exact integer quotient, zero and integer operands mixed in), "
        f"on {n_huge} pairs of integers and rationals with |p|, q up to 10^40 (2^k+-1 for k around 53 and 64, 10^k+-1, factorials, products of the small operands, each by small divisors and by each other; "
        f"exact multiples with a quotient far above 2^53; (k*n+-1)/n; random big integers with uniform bit length; big rationals), "
        f"and {n_trees} random expression trees of depth <= 5 over + - * / whose intermediate results are fed back as returned, 40% of them a balanced product of 2..8 whole numbers (+- a small number) "
        f"divided by a small or composite divisor so that dividends exceed 2^53 and 2^64, leaves including integers up to 10^40. "
        "Each result is canonicalised to (int n) / (rat p q) / exception / NONRATIONAL(type) and (1) compared inside Coq (vm_compute) with the model of coq/Model/Arith.v, "
        "(2) checked directly: type is int or sympy Integer/Rational, value equals fractions.Fraction arithmetic (x/0 = x//0 = 0), lowest terms, "
        "(a/b)*b == a, (a*b)/b == a, (a//b)*b + a%b == a, remainder range. "
        "Non-trivial = both operands non-zero and the result is a number different from both operands (trees: depth >= 2 and non-zero value); distinct by operator, operands and representation.")
    stats = {"result_kind": collections.Counter(), "operand_kind": collections.Counter(), "modulo_by_zero": collections.Counter(),
             "tree_depth": collections.Counter(), "tree_result_kind": collections.Counter(), "trees_with_zero_divisor": 0,
             "cases": {}, "modulo_by_zero_drift": 0, "pair_bits": collections.defaultdict(collections.Counter),
             "wide_divisions": collections.Counter(), "tree_bits": collections.Counter(), "tree_wide_divisions": 0}
    vals = box(pmax, qmax)
    small = [(a, b) for a in vals for b in vals]
    cases = run_pairs(env, "box", small, stats)
    big = big_pairs(env.rng, n_big)
    cases_big = run_pairs(env, "big", big, stats)
    huge = huge_pairs(env.rng, n_huge)
    cases_huge = run_pairs(env, "huge", huge, stats)
    tcases = run_trees(env, n_trees, stats)

    env.note("exhaustive_box", {"pmax": pmax, "qmax": qmax, "operand_values_with_representation": len(vals), "ordered_pairs": len(small)})
    env.note("sampled_big_pairs", len(big))
    env.note("huge_operand_pairs", len(huge))
    env.note("operand_bit_length_distribution_per_stream (widest of |p|, q over both operands)", {k: dict(v) for k, v in stats["pair_bits"].items()})
    env.note("pairs_of_whole_operands_with_dividend_or_quotient_above_2^53", dict(stats["wide_divisions"]))
    env.note("tree_widest_intermediate_value_bits", dict(stats["tree_bits"]))
    env.note("trees_with_a_division_operand_above_2^53", stats["tree_wide_divisions"])
    env.note("correspondence_cases", stats["cases"])
    env.note("operand_kind_distribution", dict(stats["operand_kind"]))
    env.note("result_kind_distribution", dict(sorted(stats["result_kind"].items())))
    env.note("modulo_by_zero_behaviour", dict(stats["modulo_by_zero"]))
    env.note("tree_depth_distribution", {str(k): v for k, v in sorted(stats["tree_depth"].items())})
    env.note("tree_result_kind_distribution", dict(stats["tree_result_kind"]))
    env.note("trees_with_a_zero_divisor", stats["trees_with_zero_divisor"])
    if stats["modulo_by_zero_drift"]:
        env.note("modulo_by_zero_no_longer_raises", f"{stats['modulo_by_zero_drift']} modulo-by-zero calls returned a number where Model/Arith.v (vmod_impl) records ZeroDivisionError; "
                 "outside the property, not counted as a disagreement: update vmod_impl")
    env.note("modulo_by_zero", "outside the property (it names only / and floor division by zero): the implementation raises ZeroDivisionError for every "
             "operand representation; the model says CZeroDiv and the correspondence checks it; the theorems about vmod carry b <> 0")
    if cases:
        op, va, vb, c = cases[len(cases) // 3]
        env.sample({"call": f"{op}({show(va)}, {show(vb)})", "result": list(c)})
        op, va, vb, c = cases[(2 * len(cases)) // 3 + 3]
        env.sample({"call": f"{op}({show(va)}, {show(vb)})", "result": list(c)})
    if cases_big:
        for j in (3, 4, 5):
            op, va, vb, c = cases_big[(len(cases_big) // 2 // 6) * 6 + j]
            env.sample({"call": f"{op}({show(va)}, {show(vb)})", "result": list(c)})
    if cases_huge:
        for j in (3, 5):
            op, va, vb, c = cases_huge[(len(cases_huge) // 3 // 6) * 6 + j]
            env.sample({"call": f"{op}({show(va)}, {show(vb)})", "result": [str(x) for x in c]})
    if tcases:
        t, c = max(tcases[:50], key=lambda tc: tree_depth(tc[0]))
        env.sample({"tree": coq_tree(t), "result": [str(x) for x in c]})
    env.sample({"obligation": "C07_tree : forall e, divisors_nonzero e -> eval_model e == eval_Q e (induction, any depth)"})
    env.assume("sympy's Rational/Integer and Python's int implement the field Q / the ring Z exactly (tested by the correspondence and the Fraction oracle, not proved)")
    env.assume("no float enters: operands are Python ints and sympy Rationals only (number literals and vyxalify produce nothing else for rationals); a float operand is outside this property")
    env.assume("the hand-written model coq/Model/Arith.v equals the number/number overloads (checked by the correspondence on the listed inputs, not proved)")
    env.assume("modulo by zero (ZeroDivisionError) is outside the property")


def search_without_tables(env):
    run(env)


def replay(rec):
    """Re-run the recorded failing call / identity / tree on the current tree."""
    import json
    V.import_repo()
    import sympy
    from vyxal import elements as E
    from vyxal.context import Context
    ctx = Context()
    f = rec.get("failure") or {}
    inp = f.get("input") or {}
    print(json.dumps(f, ensure_ascii=False, indent=1))
    ev = lambda t: eval(t, {"sympy": sympy})  # noqa: E731  (operands are written by show())
    if "op" in inp:
        a, b = ev(inp["lhs"]), ev(inp["rhs"])
        got = canon_or_exc(call(getattr(E, inp["op"]), a, b, ctx))
        want = expected(inp["op"], Fraction(int(a.p), int(a.q)) if hasattr(a, "p") else Fraction(a),
                        Fraction(int(b.p), int(b.q)) if hasattr(b, "p") else Fraction(b))
        print(f"now: {inp['op']}({inp['lhs']}, {inp['rhs']}) = {got}; mathematical result {want}")
        return 0 if (want is None or res_value(got) == want) else 1
    print("replay of identities / trees: re-run ./check C07 --seed", rec.get("seed"))
    return 0
