"""C07 — rational arithmetic is exact and stays inside the number types.

Deciding method: theorems in coq/Properties/C07.v about the Q-based model
coq/Model/Arith.v (six number/number overloads, by-zero conventions, Python floor/mod
signs, expression trees of any depth).  Tie to /repo: every number/number call the
implementation makes here is re-evaluated by the model inside Coq (`K`/`T` cases,
vm_compute) and compared on the canonical observation ("int", n) / ("rat", p, q) /
exception / NONRATIONAL.  The oracle states the property on the implementation alone
(fractions.Fraction as the reference) and produces the replays."""
from __future__ import annotations

import collections
import math
from fractions import Fraction

from vlib import common as V

OPS = ["add", "subtract", "multiply", "divide", "modulo", "integer_divide"]
COQ_OP = {"add": "OAdd", "subtract": "OSub", "multiply": "OMul", "divide": "ODiv",
          "modulo": "OMod", "integer_divide": "OFloordiv"}
TREE_OPS = {"add": "EAdd", "subtract": "ESub", "multiply": "EMul", "divide": "EDiv"}
QUIRK_CLS = "floordiv:sympy-Integer-by-nonint-Rational-exact-negative-quotient"
TRUNC_CLS = "floordiv:nonint-Rational-by-sympy-Integer-opposite-signs"

PREAMBLE = ("From Coq Require Import ZArith QArith List Bool.\n"
            "From Vy Require Import Model.Arith.\nImport ListNotations.\n")
CHECKER = "fun c : bool => c"


# ----------------------------------------------------------------------------
# implementation side (runs in forked workers)
# ----------------------------------------------------------------------------

def mk(v):
    """(p, q, rep) -> the Python object handed to the element function."""
    import sympy
    p, q, rep = v
    if rep == "py":
        assert q == 1
        return p
    return sympy.Rational(p, q)        # an Integer when q == 1


def canon(r):
    """§4.3: int / sympy Integer -> ("int", n); sympy Rational -> ("rat", p, q);
    anything else is reported by type name, never coerced."""
    import sympy
    if type(r) is int:
        return ("int", r)
    if isinstance(r, sympy.Integer):
        return ("int", int(r))
    if isinstance(r, sympy.Rational):
        return ("rat", int(r.p), int(r.q))
    return ("NONRATIONAL", type(r).__name__)


def call(fn, a, b, ctx):
    try:
        return fn(a, b, ctx)
    except RecursionError:
        raise
    except V.Timeout:
        raise
    except Exception as e:  # noqa: BLE001
        return e


def canon_or_exc(r):
    if isinstance(r, Exception):
        return ("EXC", type(r).__name__)
    return canon(r)


def eval_pairs(batch):
    """batch: list of (lhs, rhs) operand triples.  For every pair: the six overloads,
    and the chained identities (a/b)*b, (a*b)/b, (a//b)*b + a%b."""
    from vyxal import elements as E
    from vyxal.context import Context
    ctx = Context()
    fns = {o: getattr(E, o) for o in OPS}
    out = []
    for va, vb in batch:
        a, b = mk(va), mk(vb)
        single = []
        raw = {}
        for o in OPS:
            r = call(fns[o], a, b, ctx)
            raw[o] = r
            single.append(canon_or_exc(r))
        ident = None
        if vb[0] != 0:
            ident = []
            q, m, fd, md = raw["divide"], raw["multiply"], raw["integer_divide"], raw["modulo"]
            ident.append(canon_or_exc(q if isinstance(q, Exception) else call(E.multiply, q, b, ctx)))
            ident.append(canon_or_exc(m if isinstance(m, Exception) else call(E.divide, m, b, ctx)))
            if isinstance(fd, Exception) or isinstance(md, Exception):
                ident.append(("EXC", "operand"))
            else:
                t = call(E.multiply, fd, b, ctx)
                ident.append(canon_or_exc(t if isinstance(t, Exception) else call(E.add, t, md, ctx)))
        out.append((single, ident))
    return out


def eval_tree_impl(t, E, ctx):
    if t[0] == "lit":
        return mk(t[1])
    l = eval_tree_impl(t[1], E, ctx)
    r = eval_tree_impl(t[2], E, ctx)
    return getattr(E, t[0])(l, r, ctx)


def eval_trees(batch):
    from vyxal import elements as E
    from vyxal.context import Context
    ctx = Context()
    out = []
    for t in batch:
        try:
            out.append(canon(eval_tree_impl(t, E, ctx)))
        except RecursionError:
            raise
        except V.Timeout:
            raise
        except Exception as e:  # noqa: BLE001
            out.append(("EXC", type(e).__name__))
    return out


# ----------------------------------------------------------------------------
# reference (fractions.Fraction) and Coq literals
# ----------------------------------------------------------------------------

def frac(v):
    return Fraction(v[0], v[1])


def expected(op, a, b):
    """The property's value of `op a b`; None = outside the property (modulo by zero)."""
    if op == "add":
        return a + b
    if op == "subtract":
        return a - b
    if op == "multiply":
        return a * b
    if op == "divide":
        return Fraction(0) if b == 0 else a / b
    if op == "integer_divide":
        return Fraction(0) if b == 0 else Fraction(math.floor(a / b))
    if op == "modulo":
        return None if b == 0 else a - b * math.floor(a / b)
    raise ValueError(op)


def eval_tree_frac(t):
    """(value, number of zero divisors met) with the property's x/0 = 0."""
    if t[0] == "lit":
        return frac(t[1]), 0
    l, zl = eval_tree_frac(t[1])
    r, zr = eval_tree_frac(t[2])
    z = zl + zr
    if t[0] == "divide" and r == 0:
        return Fraction(0), z + 1
    return expected(t[0], l, r), z


def res_value(c):
    if c[0] == "int":
        return Fraction(c[1])
    if c[0] == "rat":
        return Fraction(c[1], c[2])
    return None


def coq_cval(c):
    if c[0] == "int":
        return f"(CInt ({c[1]}))"
    if c[0] == "rat":
        return f"(CRat ({c[1]}) {c[2]})"
    if c[0] == "EXC" and c[1] == "ZeroDivisionError":
        return "CZeroDiv"
    return "COther"


# Which model integer_divide is compared with.  The exact floor (vfloordiv) everywhere,
# except inside an operand class that known_findings.json records as a known defect:
# there the model of sympy's `//` (vfloordiv_impl) is used.  The operand tags select it:
# `lsym` only matters for class (1), `rsym` only for class (2), and
# C07_floordiv_impl_pyint proves vfloordiv_impl false false = vfloordiv.
RECORDED = set()


def coq_case(op, va, vb, c):
    lsym = va[2] == "sym" and QUIRK_CLS in RECORDED
    rsym = vb[2] == "sym" and TRUNC_CLS in RECORDED
    return (f"K {COQ_OP[op]} {'true' if lsym else 'false'} {'true' if rsym else 'false'} "
            f"({va[0]}) {va[1]} ({vb[0]}) {vb[1]} {coq_cval(c)}")


def coq_tree(t):
    if t[0] == "lit":
        return f"(L ({t[1][0]}) {t[1][1]})"
    return f"({TREE_OPS[t[0]]} {coq_tree(t[1])} {coq_tree(t[2])})"


def show(v):
    p, q, rep = v
    if rep == "py":
        return str(p)
    return f"sympy.Integer({p})" if q == 1 else f"sympy.Rational({p}, {q})"


def key(op, va, vb):
    return f"{op}:{va[0]}/{va[1]}{va[2][0]}:{vb[0]}/{vb[1]}{vb[2][0]}"


# ----------------------------------------------------------------------------
# generators
# ----------------------------------------------------------------------------

def box(pmax, qmax):
    """every reduced p/q with |p| <= pmax, 1 <= q <= qmax, in every representation:
    integers as Python int and as sympy Integer, the rest as sympy Rational."""
    vals = []
    for q in range(1, qmax + 1):
        for p in range(-pmax, pmax + 1):
            if math.gcd(p, q) != 1:
                continue
            if q == 1:
                vals.append((p, 1, "py"))
            vals.append((p, q, "sym"))
    return vals


def operand(rng, f):
    f = Fraction(f)
    if f.denominator == 1:
        return (f.numerator, 1, "py" if rng.random() < 0.5 else "sym")
    return (f.numerator, f.denominator, "sym")


def big_pairs(rng, n):
    """|p| <= 10^6, q <= 10^4; a fifth of the pairs have an exact integer quotient, a
    tenth an integer operand, a few a zero operand."""
    out = []
    for _ in range(n):
        b = Fraction(rng.randint(-10**6, 10**6), rng.randint(1, 10**4))
        mode = rng.random()
        if mode < 0.2 and b != 0:
            k = rng.randint(-1000, 1000)
            a = b * k
            if abs(a.numerator) > 10**6:
                a = Fraction(rng.randint(-10**6, 10**6), rng.randint(1, 10**4))
        elif mode < 0.3:
            a = Fraction(rng.randint(-10**6, 10**6))
        elif mode < 0.33:
            a = Fraction(0)
        else:
            a = Fraction(rng.randint(-10**6, 10**6), rng.randint(1, 10**4))
        if rng.random() < 0.1:
            b = Fraction(rng.randint(-10**6, 10**6))
        if rng.random() < 0.02:
            b = Fraction(0)
        if rng.random() < 0.5:
            a, b = b, a
        out.append((operand(rng, a), operand(rng, b)))
    return out


def leaf(rng):
    m = rng.random()
    if m < 0.6:
        f = Fraction(rng.randint(-12, 12), rng.randint(1, 6))
    elif m < 0.85:
        f = Fraction(rng.randint(-1000, 1000), rng.randint(1, 100))
    else:
        f = Fraction(rng.randint(-10**6, 10**6), rng.randint(1, 10**4))
    return ("lit", operand(rng, f))


def tree(rng, depth):
    if depth == 0 or rng.random() < 0.12:
        return leaf(rng)
    op = rng.choice(["add", "subtract", "multiply", "divide", "divide"])
    return (op, tree(rng, depth - 1), tree(rng, depth - 1))


def tree_depth(t):
    return 0 if t[0] == "lit" else 1 + max(tree_depth(t[1]), tree_depth(t[2]))


def chunks(xs, n):
    return [xs[i:i + n] for i in range(0, len(xs), n)]


# ----------------------------------------------------------------------------
# the check
# ----------------------------------------------------------------------------

def known_class(op, va, vb, c):
    """The two recorded operand classes of integer_divide (sympy 1.14's `//`), matched
    narrowly: operand classes AND the exact wrong value the mechanism produces.
    (1) sympy Integer // non-integer Rational, exact negative quotient: one too small
        (Number.__divmod__ compares a Rational with a Float);
    (2) non-integer Rational (not the singleton 1/2) // sympy Integer, opposite signs:
        Integer.__rfloordiv__ truncates lhs toward zero first."""
    if op != "integer_divide" or vb[0] == 0:
        return None
    a, b, got = frac(va), frac(vb), res_value(c)
    if va[2] == "sym" and va[1] == 1 and vb[1] != 1:
        quo = a / b
        if quo.denominator == 1 and quo < 0 and got == quo - 1:
            return QUIRK_CLS
    if va[1] != 1 and (va[0], va[1]) != (1, 2) and vb[2] == "sym" and vb[1] == 1 and a * b < 0:
        if got == Fraction(math.floor(Fraction(math.trunc(a)) / b)):
            return TRUNC_CLS
    return None


def oracle_pair(env, va, vb, single, ident, stats):
    a, b = frac(va), frac(vb)
    quirk_here = None
    for op, c in zip(OPS, single):
        inp = {"op": op, "lhs": show(va), "rhs": show(vb)}
        stats["result_kind"][f"{op}:{c[0] if c[0] != 'EXC' else c[1]}"] += 1
        want = expected(op, a, b)
        if want is None:                      # modulo by zero: outside the property
            stats["modulo_by_zero"][c[1] if c[0] in ("EXC", "NONRATIONAL") else c[0]] += 1
            if not (c == ("EXC", "ZeroDivisionError") or c[0] in ("int", "rat")):
                env.fail(inp, f"modulo by zero gives {c}: neither ZeroDivisionError nor a number", cls="modulo-by-zero-nonnumber")
            continue
        if c[0] == "EXC":
            env.fail(inp, f"raises {c[1]} (expected {want})", cls=f"raises:{op}")
            continue
        if c[0] not in ("int", "rat"):
            env.fail(inp, f"result leaves the number types: it is a {c[1]} (expected {want})", cls=f"nonrational:{op}")
            continue
        if c[0] == "rat" and (c[2] <= 1 or math.gcd(c[1], c[2]) != 1):
            env.fail(inp, f"rational result not in lowest terms / integer typed as Rational: {c}", cls=f"unreduced:{op}")
        if res_value(c) != want:
            kc = known_class(op, va, vb, c)
            if kc is not None:
                quirk_here = kc
                stats["quirk"][kc] += 1
                env.fail(inp, f"integer_divide gives {res_value(c)}, floor of the exact quotient is {want}", cls=kc)
            else:
                env.fail(inp, f"{op} gives {res_value(c)}, the mathematical result is {want}", cls=f"wrong-value:{op}")
        elif op in ("divide", "integer_divide") and b == 0 and c != ("int", 0):
            env.fail(inp, f"{op} by zero gives {c}, not 0", cls=f"by-zero:{op}")
    if ident is not None:
        names = ["multiply(divide(a, b), b) == a", "divide(multiply(a, b), b) == a",
                 "add(multiply(integer_divide(a, b), b), modulo(a, b)) == a"]
        for nm, c in zip(names, ident):
            if res_value(c) != a:
                env.fail({"identity": nm, "a": show(va), "b": show(vb)}, f"identity gives {c}",
                         cls=quirk_here if (quirk_here and "integer_divide" in nm) else f"identity:{nm.split('(')[0]}")
        md = res_value(single[OPS.index("modulo")])
        if md is not None and not ((0 <= md < b) if b > 0 else (b < md <= 0)):
            env.fail({"op": "modulo", "lhs": show(va), "rhs": show(vb)}, f"remainder {md} outside [0, b) / (b, 0]", cls="mod-range")


def run_pairs(env, name, pairs, stats):
    res = V.pmap(eval_pairs, chunks(pairs, 400), timeout=env.budget(120, 300))
    cases = []
    keys = []
    n_eval = 0
    for chunk, (st, val) in zip(chunks(pairs, 400), res):
        if st != "ok":
            env.proof_broken(f"implementation did not finish a batch of {name} pairs ({st})", f"{val}; first pair {chunk[0]}")
            continue
        for (va, vb), (single, ident) in zip(chunk, val):
            oracle_pair(env, va, vb, single, ident, stats)
            n_eval += 6 + (3 if ident is not None else 0)
            for kind in (va, vb):
                stats["operand_kind"]["python int" if kind[2] == "py" else ("sympy Integer" if kind[1] == 1 else "sympy Rational")] += 1
            for op, c in zip(OPS, single):
                cases.append((op, va, vb, c))
                v = res_value(c)
                if va[0] != 0 and vb[0] != 0 and v is not None and v != frac(va) and v != frac(vb):
                    keys.append(key(op, va, vb))
    ok, bad, logs = env.coq_mismatches(
        name, PREAMBLE, lambda lo, hi: "[" + ";\n".join(coq_case(*c) for c in cases[lo:hi]) + "]",
        CHECKER, len(cases), shard=1500)
    if not ok:
        env.proof_broken(f"{name}: correspondence cases failed to evaluate in Coq", logs)
    for i in bad:
        op, va, vb, c = cases[i]
        if op == "modulo" and vb[0] == 0 and c[0] in ("int", "rat"):
            # outside the property: the model records today's ZeroDivisionError; another
            # exact number here is a behaviour change, not a violation (reported as a note)
            stats["modulo_by_zero_drift"] += 1
            continue
        env.disagree(f"arith:{op}", {"op": op, "lhs": show(va), "rhs": show(vb)}, "(model disagrees)", list(c))
    env.count(n_eval, keys)
    stats["cases"][name] = len(cases)
    return cases


def run_trees(env, n, stats):
    rng = env.rng
    trees = [tree(rng, rng.randint(1, 5)) for _ in range(n)]
    res = V.pmap(eval_trees, chunks(trees, 200), timeout=env.budget(120, 300))
    cases = []
    keys = []
    for chunk, (st, val) in zip(chunks(trees, 200), res):
        if st != "ok":
            env.proof_broken(f"implementation did not finish a batch of expression trees ({st})", str(val))
            continue
        for t, c in zip(chunk, val):
            want, zeros = eval_tree_frac(t)
            d = tree_depth(t)
            stats["tree_depth"][d] += 1
            stats["tree_result_kind"][c[0] if c[0] != "EXC" else c[1]] += 1
            if zeros:
                stats["trees_with_zero_divisor"] += 1
            if c[0] not in ("int", "rat"):
                env.fail({"tree": coq_tree(t)}, f"tree result leaves the number types: {c} (expected {want})", cls="tree-nonrational")
            elif res_value(c) != want:
                env.fail({"tree": coq_tree(t)}, f"tree evaluates to {res_value(c)}, fractions.Fraction gives {want}", cls="tree-wrong-value")
            cases.append((t, c))
            if d >= 2 and want != 0:
                keys.append("tree:" + coq_tree(t))
    ok, bad, logs = env.coq_mismatches(
        "trees", PREAMBLE, lambda lo, hi: "[" + ";\n".join(f"TC {coq_tree(t)} {coq_cval(c)}" for t, c in cases[lo:hi]) + "]",
        CHECKER, len(cases), shard=300)
    if not ok:
        env.proof_broken("trees: correspondence cases failed to evaluate in Coq", logs)
    for i in bad:
        t, c = cases[i]
        env.disagree("arith:tree", {"tree": coq_tree(t)}, "(model disagrees)", list(c))
    env.count(len(cases), keys)
    stats["cases"]["trees"] = len(cases)
    return cases


def run(env):
    V.import_repo()
    import vyxal.elements  # noqa: F401  (imported before the workers fork)
    import vyxal.context  # noqa: F401
    RECORDED.clear()
    for k in env.known:
        if k.get("status") == "known":
            RECORDED.update(x for x in [k.get("class")] + list(k.get("classes", [])) if x in (QUIRK_CLS, TRUNC_CLS))
    env.note("floordiv_model", "integer_divide is compared with the exact floor (vfloordiv)"
             + ("".join(f"; inside the recorded class {c} with the model of sympy's // (vfloordiv_impl)" for c in sorted(RECORDED))
                if RECORDED else " everywhere (no defect class of integer_divide is recorded in known_findings.json)"))
    pmax, qmax = env.budget((12, 6), (16, 8))
    n_big = env.budget(2500, 25000)
    n_trees = env.budget(3000, 30000)
    env.rule = (
        f"the six number/number overloads add, subtract, multiply, divide, modulo, integer_divide called as vyxal.elements.<op>(lhs, rhs, Context()) "
        f"on EVERY ordered pair of reduced rationals with |p| <= {pmax}, q <= {qmax} in every operand representation (integers as Python int and as sympy Integer, "
        f"non-integers as sympy Rational), on {n_big} sampled pairs with |p| <= 10^6, q <= 10^4 (a fifth with an exact integer quotient, zero and integer operands mixed in), "
        f"and {n_trees} random expression trees of depth <= 5 over + - * / whose intermediate results are fed back as returned. "
        "Each result is canonicalised to (int n) / (rat p q) / exception / NONRATIONAL(type) and (1) compared inside Coq (vm_compute) with the model of coq/Model/Arith.v, "
        "(2) checked directly: type is int or sympy Integer/Rational, value equals fractions.Fraction arithmetic (x/0 = x//0 = 0), lowest terms, "
        "(a/b)*b == a, (a*b)/b == a, (a//b)*b + a%b == a, remainder range. "
        "Non-trivial = both operands non-zero and the result is a number different from both operands (trees: depth >= 2 and non-zero value); distinct by operator, operands and representation.")
    stats = {"result_kind": collections.Counter(), "operand_kind": collections.Counter(), "modulo_by_zero": collections.Counter(),
             "tree_depth": collections.Counter(), "tree_result_kind": collections.Counter(), "trees_with_zero_divisor": 0,
             "quirk": collections.Counter(), "cases": {}, "modulo_by_zero_drift": 0}
    vals = box(pmax, qmax)
    small = [(a, b) for a in vals for b in vals]
    cases = run_pairs(env, "box", small, stats)
    big = big_pairs(env.rng, n_big)
    cases_big = run_pairs(env, "big", big, stats)
    tcases = run_trees(env, n_trees, stats)

    env.note("exhaustive_box", {"pmax": pmax, "qmax": qmax, "operand_values_with_representation": len(vals), "ordered_pairs": len(small)})
    env.note("sampled_big_pairs", len(big))
    env.note("correspondence_cases", stats["cases"])
    env.note("operand_kind_distribution", dict(stats["operand_kind"]))
    env.note("result_kind_distribution", dict(sorted(stats["result_kind"].items())))
    env.note("modulo_by_zero_behaviour", dict(stats["modulo_by_zero"]))
    env.note("tree_depth_distribution", {str(k): v for k, v in sorted(stats["tree_depth"].items())})
    env.note("tree_result_kind_distribution", dict(stats["tree_result_kind"]))
    env.note("trees_with_a_zero_divisor", stats["trees_with_zero_divisor"])
    env.note("failing_inputs_in_recorded_floordiv_classes", dict(stats["quirk"]))
    if stats["modulo_by_zero_drift"]:
        env.note("modulo_by_zero_no_longer_raises", f"{stats['modulo_by_zero_drift']} modulo-by-zero calls returned a number where Model/Arith.v (vmod_impl) records ZeroDivisionError; "
                 "outside the property, not counted as a disagreement: update vmod_impl")
    env.note("modulo_by_zero", "outside the property (it names only / and floor division by zero): the implementation raises ZeroDivisionError for every "
             "operand representation; the model says CZeroDiv and the correspondence checks it; the theorems about vmod carry b <> 0")
    if cases:
        op, va, vb, c = cases[len(cases) // 3]
        env.sample({"call": f"{op}({show(va)}, {show(vb)})", "result": list(c)})
        op, va, vb, c = cases[(2 * len(cases)) // 3 + 3]
        env.sample({"call": f"{op}({show(va)}, {show(vb)})", "result": list(c)})
    if cases_big:
        for j in (3, 4, 5):
            op, va, vb, c = cases_big[(len(cases_big) // 2 // 6) * 6 + j]
            env.sample({"call": f"{op}({show(va)}, {show(vb)})", "result": list(c)})
    if tcases:
        t, c = max(tcases[:50], key=lambda tc: tree_depth(tc[0]))
        env.sample({"tree": coq_tree(t), "result": [str(x) for x in c]})
    env.sample({"obligation": "C07_tree : forall e, divisors_nonzero e -> eval_model e == eval_Q e (induction, any depth)"})
    env.assume("sympy's Rational/Integer and Python's int implement the field Q / the ring Z exactly (tested by the correspondence and the Fraction oracle, not proved)")
    env.assume("no float enters: operands are Python ints and sympy Rationals only (number literals and vyxalify produce nothing else for rationals); a float operand is outside this property")
    env.assume("the hand-written model coq/Model/Arith.v equals the number/number overloads (checked by the correspondence on the listed inputs, not proved)")
    env.assume("modulo by zero (ZeroDivisionError) is outside the property")


def search_without_tables(env):
    run(env)


def replay(rec):
    """Re-run the recorded failing call / identity / tree on the current tree."""
    import json
    V.import_repo()
    import sympy
    from vyxal import elements as E
    from vyxal.context import Context
    ctx = Context()
    f = rec.get("failure") or {}
    inp = f.get("input") or {}
    print(json.dumps(f, ensure_ascii=False, indent=1))
    ev = lambda t: eval(t, {"sympy": sympy})  # noqa: E731  (operands are written by show())
    if "op" in inp:
        a, b = ev(inp["lhs"]), ev(inp["rhs"])
        got = canon_or_exc(call(getattr(E, inp["op"]), a, b, ctx))
        want = expected(inp["op"], Fraction(int(a.p), int(a.q)) if hasattr(a, "p") else Fraction(a),
                        Fraction(int(b.p), int(b.q)) if hasattr(b, "p") else Fraction(b))
        print(f"now: {inp['op']}({inp['lhs']}, {inp['rhs']}) = {got}; mathematical result {want}")
        return 0 if (want is None or res_value(got) == want) else 1
    print("replay of identities / trees: re-run ./check C07 --seed", rec.get("seed"))
    return 0
