"""C16 — list builtins obey their defining laws.

Deciding method: theorems in coq/Properties/C16.v about the executable model
coq/Model/ListOps.v (one definition per builtin, written after the Python source and
reproducing its output order).  The tie to /repo is the correspondence below: every
modelled builtin is run in-process on the same inputs and the model is evaluated on
them inside Coq (vm_compute); results must be equal (or equal as sorted multisets
where no order is defined: cartesian product).  The oracle states ~40 laws directly on
the implementation with itertools/builtins, independently of the model, on integer
lists, nested lists, ragged matrices, pairs of lists and strings; all of them also on
arguments that were looked at before the call and with the call repeated on the same
objects (observed family, see OBS_KINDS / CALL_MODES); the equality-defined and the
fold-defined builtins also on lists whose items are of different kinds (see impl_mixed)."""
from __future__ import annotations

import collections
import functools
import itertools
import math

from fractions import Fraction

from vlib import common as V
from vlib import nasty as N

ALPHA = (-2, -1, 0, 1, 2, 3)
PERM_CAP = 6      # permutations only for inputs up to this length (n! results)
POWER_CAP = 8     # powerset only up to this length (2^n results)


class Exc:
    """An exception raised by the implementation, as a value."""
    def __init__(self, name):
        self.name = name

    def __repr__(self):
        return "EXC:" + self.name

    def __eq__(self, o):
        return isinstance(o, Exc) and o.name == self.name

    def __hash__(self):
        return hash(self.name)


# ----------------------------------------------------------------------------
# implementation side (runs in forked workers)
# ----------------------------------------------------------------------------

def canon(x):
    """LazyList/generator -> list, sympy Integer/bool -> int, Rational -> Fraction
    (exact); strings stay strings."""
    import sympy
    import types
    from vyxal.LazyList import LazyList
    if isinstance(x, (LazyList, types.GeneratorType, map, filter, range, tuple)):
        x = list(x)
    if isinstance(x, list):
        return [canon(y) for y in x]
    if isinstance(x, bool):
        return int(x)
    if isinstance(x, int) or isinstance(x, str):
        return x
    if isinstance(x, sympy.Integer):
        return int(x)
    if isinstance(x, sympy.Rational):
        return Fraction(int(x.p), int(x.q))     # exact; never compared as a float
    if isinstance(x, float):
        return ("float", repr(x))
    return ("?", type(x).__name__, repr(x)[:60])


def norm(x, depth):
    """Read a result as nested sequences of the given depth: a string found where a
    sequence is expected is the sequence of its characters (the implementation joins
    characters back into strings); items below that depth are atoms."""
    if depth <= 0:
        return x
    if isinstance(x, str):
        x = list(x)
    if isinstance(x, list):
        return [norm(y, depth - 1) for y in x]
    return x


def depth_of(want):
    if isinstance(want, list):
        return 1 + max((depth_of(y) for y in want), default=0)
    return 0


def _call(f, *args, mode="once"):
    """mode (see CALL_MODES): "once"; "second" = the answer of a second call on the very
    same argument objects after a first call whose answer was read completely;
    "second_pending" = the same with the first answer still unread; "first_late" = the
    first answer, read only after a second call's answer was read completely."""
    from vyxal.context import Context
    try:
        if mode == "once":
            return canon(f(*args, Context()))
        first = f(*args, Context())
        if mode == "second":
            canon(first)
        again = canon(f(*args, Context()))
        return canon(first) if mode == "first_late" else again
    except Exception as e:  # noqa: BLE001
        return Exc(type(e).__name__)


# ---- arguments that were LOOKED AT before the call, calls that are repeated ------------
# Input family added after seeded defect C16e-1 (a builtin that pulled from the LazyList's
# raw source instead of iterating it: right on a fresh LazyList, wrong once part of it is
# cached).  Every LazyList the other families hand to a builtin is fresh: nothing has been
# generated yet, so "the list the argument denotes" and "what its source still holds"
# coincide.  A program, however, hands over values it has already inspected (h, L, i, a
# loop that stopped early, a print) and uses a value twice.  The laws are about the list a
# value DENOTES, so they must hold unchanged for an argument in any observed state and for
# every repeated call.  The family is not tied to a builtin: every observation below is
# applied before every builtin of every group (one list, queries, wrap, pairs, nested,
# matrices, pipelines), to every outermost LazyList of the argument ("walk"/"force" also to
# the LazyLists inside), and every call mode repeats every builtin; the expected answers are
# the ones of the fresh argument.  An observation only reads (no __setitem__, no element
# that is specified to change its argument).
OBS_PLAIN = ("head", "truth", "length", "iterate_all", "listify", "element_head", "element_length", "force")
OBS_K = ("index", "has_index", "iterate", "next", "slice", "walk")       # take a position / count k
# "builtin": the observation is ANOTHER builtin of this check, called on the same object and
# its answer read completely (a sequence of two elements on one value: a builtin that
# rearranges or consumes its argument spoils the next one); k = index into PRIOR_BUILTINS
# (the linear-size ones: the answer of the first call must stay small on pipeline values)
PRIOR_BUILTINS = ("sort", "reverse", "uniquify", "flatten", "sum", "max", "min", "cumsum", "uninterleave", "prefixes", "suffixes",
                  "group", "counts", "grade_up", "head", "tail", "head_remove", "tail_remove", "length", "wrap", "contains", "transpose")
OBS_KINDS = OBS_PLAIN + OBS_K + ("builtin",)


def _prior(name):
    from vyxal import elements as E, helpers as H
    return {"sort": E.vy_sort, "reverse": E.reverse, "uniquify": E.uniquify, "flatten": E.deep_flatten, "sum": E.vy_sum,
            "max": E.monadic_maximum, "min": E.monadic_minimum, "cumsum": E.cumulative_sum, "uninterleave": E.uninterleave,
            "prefixes": H.prefixes, "suffixes": H.suffixes, "group": E.group_consecutive, "counts": E.counts, "grade_up": E.grade_up,
            "head": E.head, "tail": E.tail, "head_remove": E.head_remove, "tail_remove": E.tail_remove, "length": E.length,
            "wrap": lambda v, ctx: E.wrap(v, 2, ctx), "contains": lambda v, ctx: E.contains(v, 1, ctx),
            "transpose": lambda v, ctx: H.transpose(v, None, ctx)}[name]
CALL_MODES = ("once", "second", "second_pending", "first_late")
# (observation kind or call mode) -> reason: left out of the committed oracle because the
# UNCHANGED tree differs there (reported to the integrator as candidate defects)
PENDING_FINDINGS = {
    "find:spelling-twins": "find (ḟ) compares with the language's equality ⁼: a number is found at the position of the string that spells it "
                           "(find([0, 0], '0') = 0, not -1) while count / contains on the same list say it is absent",
}


def _outer_lazies(v):
    from vyxal.LazyList import LazyList
    if isinstance(v, LazyList):
        return [v]
    if isinstance(v, list):
        return [w for y in v for w in _outer_lazies(y)]
    return []


def _walk(x, k):
    """Iterate every list level to position k only (the rest of each LazyList stays ungenerated)."""
    from vyxal.LazyList import LazyList
    if isinstance(x, (list, LazyList)):
        it = iter(x)
        for _ in range(k):
            try:
                y = next(it)
            except StopIteration:
                break
            _walk(y, k)


def observe(v, ob):
    """Look at the value the way a program can before passing it on; returns the same object."""
    if ob is None:
        return v
    kind, k = ob
    from vyxal import elements as E
    from vyxal.context import Context
    if kind == "walk":
        _walk(v, k)
    elif kind == "force":
        canon(v)
    elif kind == "builtin":
        try:
            canon(_prior(PRIOR_BUILTINS[k])(v, Context()))
        except Exception:  # noqa: BLE001  (not the call under test; e.g. sum of a ragged nest)
            pass
    for z_ in _outer_lazies(v) if kind not in ("walk", "force", "builtin") else ():
        if kind == "head":
            z_[0]
        elif kind == "truth":
            bool(z_)
        elif kind == "length":
            len(z_)
        elif kind == "iterate_all":
            for _ in z_:
                pass
        elif kind == "listify":
            z_.listify()
        elif kind == "element_head":
            E.head(z_, Context())
        elif kind == "element_length":
            E.length(z_, Context())
        elif kind == "index":
            z_[k]
        elif kind == "has_index":
            z_.has_ind(k)
        elif kind == "iterate":
            it = iter(z_)
            for _ in range(k):
                if next(it, it) is it:
                    break
        elif kind == "next":
            for _ in range(k):
                try:
                    next(z_)
                except StopIteration:
                    break
        elif kind == "slice":
            z_[:k]
        else:
            raise ValueError(kind)
    return v


def obs_of(obs, i=0):
    return obs["observe"][i] if obs else None


def mode_of(obs):
    return obs["call"] if obs else "once"


def build(spec, pat=None):
    """Input spec (vlib.nasty convention) -> a FRESH implementation value; pat = how the
    list levels are represented (None: plain lists), see nasty.realise."""
    if isinstance(spec, str):
        return spec
    return N.realise(spec, pat or "p")


def shown(spec, pat):
    """json-able description of an input for replays."""
    return spec if pat in (None, "p") or isinstance(spec, str) else {"value": spec, "representation": N.describe(spec, pat)}


UNARY = ["sort", "reverse", "reverse2", "uniquify", "flatten", "sum", "product", "max", "min", "cumsum", "deltas",
         "deltas_cumsum", "uninterleave", "reinterleave", "prefixes", "suffixes", "sublists", "powerset",
         "permutations", "group", "counts", "grade_up", "grade_down", "head", "tail", "head_remove",
         "tail_remove", "length"]


def impl_unary(item, obs=None):
    """All one-argument builtins on one list (or string) + queries + wrap; obs: the state the
    argument is brought into before every call and the call mode (observed family)."""
    l, xs, ks, pat = item
    from vyxal import elements as E, helpers as H
    c = functools.partial(_call, mode=mode_of(obs))
    n = len(l)

    def mk():
        return observe(build(l, pat), obs_of(obs))
    r = {}
    r["sort"] = c(E.vy_sort, mk())
    r["reverse"] = c(E.reverse, mk())
    r["reverse2"] = c(lambda v, ctx: E.reverse(E.reverse(v, ctx), ctx), mk())
    r["uniquify"] = c(E.uniquify, mk())
    r["flatten"] = c(E.deep_flatten, mk())
    r["sum"] = c(E.vy_sum, mk())
    r["product"] = c(E.product, mk()) if not isinstance(l, str) else None
    r["max"] = c(E.monadic_maximum, mk())
    r["min"] = c(E.monadic_minimum, mk())
    r["cumsum"] = c(E.cumulative_sum, mk())
    r["deltas"] = c(E.deltas, mk()) if not isinstance(l, str) else None
    r["deltas_cumsum"] = c(lambda v, ctx: E.deltas(E.cumulative_sum(v, ctx), ctx), mk()) if not isinstance(l, str) else None
    r["uninterleave"] = c(E.uninterleave, mk())
    r["reinterleave"] = c(lambda v, ctx: E.interleave(*E.uninterleave(v, ctx), ctx), mk())
    r["prefixes"] = c(H.prefixes, mk())
    r["suffixes"] = c(H.suffixes, mk())
    r["sublists"] = c(E.sublists, mk())
    r["powerset"] = c(E.powerset, mk()) if n <= POWER_CAP else None
    # n! answers: full length only for short items (permutations act on positions; long
    # numerals would only inflate the literals handed to Coq)
    wide = not isinstance(l, str) and any(len(str(x)) > 6 for x in l)
    r["permutations"] = c(E.permutations, mk()) if n <= (4 if wide else PERM_CAP) else None
    r["group"] = c(E.group_consecutive, mk())
    r["counts"] = c(E.counts, mk())
    r["grade_up"] = c(E.grade_up, mk()) if not isinstance(l, str) else None
    r["grade_down"] = c(E.grade_down, mk()) if not isinstance(l, str) else None
    r["head"] = c(E.head, mk())
    r["tail"] = c(E.tail, mk())
    r["head_remove"] = c(E.head_remove, mk())
    r["tail_remove"] = c(E.tail_remove, mk())
    r["length"] = c(E.length, mk())
    r["queries"] = [(x, c(E.count_item, mk(), build(x)), c(E.contains, mk(), build(x)), c(E.find, mk(), build(x))) for x in xs]
    r["wrap"] = [(k, c(E.wrap, mk(), k)) for k in ks]
    return r


def impl_binary(item, obs=None):
    a, b, pa, pb = item
    from vyxal import elements as E
    c = functools.partial(_call, mode=mode_of(obs))

    def A():
        return observe(build(a, pa), obs_of(obs, 0))

    def B():
        return observe(build(b, pb), obs_of(obs, 1))

    def AB():
        """both arguments; obs["same_object"]: ONE object passed in both places (a == b then): two
        readers of one LazyList advance each other's cache"""
        x = A()
        return (x, x) if obs and obs.get("same_object") else (x, B())
    r = {}
    r["zip"] = c(E.vy_zip, *AB())
    r["interleave"] = c(E.interleave, *AB())
    r["unzip"] = c(lambda x, y, ctx: E.uninterleave(E.interleave(x, y, ctx), ctx), *AB())
    r["cart"] = c(E.cartesian_product, *AB())
    return r


def impl_tree(item, obs=None):
    t, pat = item
    from vyxal import elements as E
    c = functools.partial(_call, mode=mode_of(obs))

    def mk():
        return observe(build(t, pat), obs_of(obs))
    return {"flatten": c(E.deep_flatten, mk()), "max": c(E.monadic_maximum, mk()), "min": c(E.monadic_minimum, mk())}


def impl_matrix(item, obs=None):
    m, pat = item
    from vyxal import helpers as H
    c = functools.partial(_call, mode=mode_of(obs))

    def mk():
        return observe(build(m, pat), obs_of(obs))

    def tr(v, ctx):
        return H.transpose(v, None, ctx)
    return {"transpose": c(tr, mk()), "transpose2": c(lambda v, ctx: tr(tr(v, ctx), ctx), mk())}


# ---- pipelines: nested values PRODUCED by builtins, fed to the builtins under test ----
# a chain is (start spec, representation, [(producer, parameter), ...]); the consumers'
# laws are stated relative to the (forced) intermediate value, which is recomputed
# freshly for every consumer so that no consumer sees a value another one has walked

PRODUCERS = ("transpose", "zip", "zipl", "wrap", "prefixes", "suffixes", "sublists", "uninterleave", "reverse",
             "group", "head_remove", "cart", "interleave", "powerset", "cumsum", "pair", "wrapme")
CONSUMERS = ("flatten", "max", "min", "length", "reverse", "head", "tail", "head_remove", "tail_remove")
CHAIN_LEAF_CAP = 300


def _listy(v):
    from vyxal.LazyList import LazyList
    return isinstance(v, (list, LazyList))


def _produce(v, op, par, ctx):
    """One producer step; None when the step does not apply to this value."""
    from vyxal import elements as E, helpers as H
    n = len(v)
    if op == "transpose":
        return H.transpose(v, None, ctx) if n and all(_listy(x) for x in v) else None
    if op == "zip":
        return E.vy_zip(v, build(par), ctx)
    if op == "zipl":
        return E.vy_zip(build(par), v, ctx)
    if op == "wrap":
        return E.wrap(v, 1 + par[0] % 3, ctx)
    if op == "prefixes":
        return H.prefixes(v, ctx) if n <= 6 else None
    if op == "suffixes":
        return H.suffixes(v, ctx) if n <= 6 else None
    if op == "sublists":
        return E.sublists(v, ctx) if n <= 4 else None
    if op == "uninterleave":
        return E.uninterleave(v, ctx)
    if op == "reverse":
        return E.reverse(v, ctx)
    if op == "group":
        return E.group_consecutive(v, ctx) if n and not any(_listy(x) for x in v) else None
    if op == "head_remove":
        return E.head_remove(v, ctx)
    if op == "cart":
        return E.cartesian_product(v, build(par), ctx) if n <= 4 else None
    if op == "interleave":
        return E.interleave(v, build(par), ctx)
    if op == "powerset":
        return H.vyxalify(E.powerset(v, ctx)) if n <= 3 else None
    if op == "cumsum":
        return E.cumulative_sum(v, ctx) if n and not any(_listy(x) for x in v) else None
    if op == "pair":
        return [v, build(par)]
    if op == "wrapme":
        return [v]
    return None


def _run_chain(start, pat, ops):
    from vyxal.context import Context
    ctx = Context()
    v = build(start, pat)
    applied = []
    for op, par in ops:
        w = _produce(v, op, par, ctx)
        if w is None:
            continue
        v = w
        applied.append(op)
    return v, applied


def impl_chain(item, obs=None):
    start, pat, ops = item
    from vyxal import elements as E
    inter, applied = _run_chain(start, pat, ops)
    c = canon(inter)
    if len(leaves(c)) > CHAIN_LEAF_CAP:
        return {"skipped": True}
    fns = {"flatten": E.deep_flatten, "max": E.monadic_maximum, "min": E.monadic_minimum, "length": E.length,
           "reverse": E.reverse, "head": E.head, "tail": E.tail, "head_remove": E.head_remove, "tail_remove": E.tail_remove}
    r = {"intermediate": c, "applied": applied}
    for name in CONSUMERS:
        r[name] = _call(fns[name], observe(_run_chain(start, pat, ops)[0], obs_of(obs)), mode=mode_of(obs))
    return r


def impl_unary_obs(item):
    return impl_unary(*item)


def impl_binary_obs(item):
    return impl_binary(*item)


def impl_tree_obs(item):
    return impl_tree(*item)


def impl_matrix_obs(item):
    return impl_matrix(*item)


def impl_chain_obs(item):
    return impl_chain(*item)


# ---- lists of items of DIFFERENT KINDS: numbers, strings and lists side by side ---------
# Input family added after seeded defects C16f-1 (counts rewritten with the language's own
# equality, which merges a number with the string that spells it) and C16f-2 (product with a
# "a zero factor decides" shortcut, wrong as soon as another factor is a list or a string).
# Every other family hands a builtin items of ONE kind (numbers, or characters, or lists of
# numbers), so "equal" and "spelled alike" coincide and every fold stays inside the numbers.
# The laws quantify over every list, so two things are added, for ALL builtins of the check
# whose definition depends on them and not for one element:
#  (a) equality of items (uniquify, counts, count, contains, find, group): lists in which a
#      value meets the DIFFERENT values that look like it: a number and the string that
#      spells it (1 / "1", 1/2 / "1/2", 0 / "0" / ""), a list and the string that spells it
#      ([1] / "[1]"), at the top level and inside sublists, with repeats of both, and queries
#      for every member, the twin of every member and the bases.  Oracle: items are equal iff
#      they are of the same kind and equal (numbers exactly), never across kinds.
#  (b) the fold (sum, product, cumulative sums, deltas): lists mixing numbers (0 and 1, the
#      absorbing / neutral elements, in every position) with nested lists and strings, where
#      the element's own dyad vectorises / concatenates / repeats and the answer is a list or
#      a string.  Oracle: the explicit left fold (scan, adjacent pairs) written out here with
#      the repository's own dyadic element function (add, multiply, subtract) on a fresh copy.
# Both run on every such list, in plain / LazyList representations.
FOLD_WEIGHT_CAP = 10 ** 5      # product of the |numbers| of a list: bounds string repetition


def fold_weight(l):
    w = 1
    for x in N.leaves_of(l):
        if isinstance(x, int):
            w *= max(1, abs(x))
    return w


def _fold_ref(dyad, l, pat, how):
    """The defining fold, written out: how = fold (((a0 . a1) . a2) ...), scan (all its
    prefixes' folds), pairs (dyad(a[i+1], a[i]))."""
    from vyxal.context import Context
    try:
        ctx = Context()
        items = list(build(l, pat))
        if how == "pairs":
            return canon([dyad(b, a, ctx) for a, b in zip(items, items[1:])])
        acc, out = items[0], []
        for x in items[1:]:
            out.append(canon(acc) if how == "scan" else None)
            acc = dyad(acc, x, ctx)
        return canon(acc) if how == "fold" else out + [canon(acc)]
    except Exception as e:  # noqa: BLE001
        return Exc(type(e).__name__)


def impl_mixed(item, obs=None):
    l, xs, pat = item
    from vyxal import elements as E
    c = functools.partial(_call, mode=mode_of(obs))

    def mk():
        return observe(build(l, pat), obs_of(obs))
    r = {"uniquify": c(E.uniquify, mk()), "counts": c(E.counts, mk()), "group": c(E.group_consecutive, mk()),
         "reverse": c(E.reverse, mk()), "length": c(E.length, mk()), "uninterleave": c(E.uninterleave, mk()),
         "queries": [(x, c(E.count_item, mk(), build(x)), c(E.contains, mk(), build(x)), c(E.find, mk(), build(x))) for x in xs]}
    if l and fold_weight(l) <= FOLD_WEIGHT_CAP:
        r["sum"] = (c(E.vy_sum, mk()), _fold_ref(E.add, l, pat, "fold"))
        r["product"] = (c(E.product, mk()), _fold_ref(E.multiply, l, pat, "fold"))
        r["cumsum"] = (c(E.cumulative_sum, mk()), _fold_ref(E.add, l, pat, "scan"))
        r["deltas"] = (c(E.deltas, mk()), _fold_ref(E.subtract, l, pat, "pairs"))
        lv = list(N.leaves_of(l))
        # max / min: the fold of the leaves by the dyadic maximum / minimum; only over leaves of ONE kind: the language's
        # order across kinds is not transitive ("7/2" > "10" as strings, 10 > 7/2 as numbers, each equal to its spelling)
        if lv and len({kind_of(x) for x in lv}) == 1:
            r["max"] = (c(E.monadic_maximum, mk()), _fold_ref(E.dyadic_maximum, lv, "p", "fold"))
            r["min"] = (c(E.monadic_minimum, mk()), _fold_ref(E.dyadic_minimum, lv, "p", "fold"))
    return r


def impl_mixed_obs(item):
    return impl_mixed(*item)


# ----------------------------------------------------------------------------
# inputs
# ----------------------------------------------------------------------------

def random_list(rng, maxlen=12):
    n = rng.randint(0, maxlen)
    style = rng.random()
    if style < 0.5:
        lo, hi = -2, 3          # many duplicates
    elif style < 0.8:
        lo, hi = -9, 9
    else:
        lo, hi = -1000, 1000    # almost surely distinct
    return [rng.randint(lo, hi) for _ in range(n)]


def extreme_list(rng, maxlen=8):
    """Numbers a double cannot tell apart, rationals 1e-20 apart, huge denominators
    (vlib.nasty), with true duplicates among them; a third of the lists integers only
    (those also go through the model inside Coq)."""
    style = rng.random()
    if style < 0.35:
        return N.tie_list(rng, maxlen, ints_only=True)
    if style < 0.75:
        return N.tie_list(rng, maxlen)
    return N.nasty_number_list(rng, 1, maxlen)


def pick_leaf(rng, p_extreme=0.3):
    if rng.random() < p_extreme:
        return rng.choice(rng.choice(N.FLOAT_TIES)) if rng.random() < 0.7 else rng.choice(N.NASTY_NUMBERS)
    return rng.randint(-9, 9)


def only_ints(spec):
    return all(isinstance(x, int) and not isinstance(x, bool) for x in N.leaves_of(spec))


def for_model(spec):
    """Inputs the model (over Z) is evaluated on inside Coq: integers, and none so long
    (2**1030 has 311 digits) that the n! / 2^n answers become megabytes of literals."""
    return all(isinstance(x, int) and not isinstance(x, bool) and abs(x) < 10 ** 31 for x in N.leaves_of(spec))


def queries_for(l):
    """Items asked for in count / contains / find: members, an absent value, and for
    every extreme member the distinct numbers closest to it (float twins, +-1 / +-1e-20)."""
    xs = list(N.frac(l))
    out = list(dict.fromkeys(xs))[:4] + [7]
    for spec in l:
        if N.is_extreme(spec) or N.float_twins(spec):
            out += [N.frac(y) for y in N.float_twins(spec)[:2] + N.near(spec)[:1]]
    return [N.unfrac(x) for x in dict.fromkeys(out)][:9]


def ks_for(n):
    return sorted({0, 1, 2, 3, max(n - 1, 0), n, n + 1} & set(range(0, n + 2)))


STR_ALPHA = "abcabAB 01zé"


def random_string(rng, maxlen=12):
    n = rng.randint(0, maxlen)
    k = rng.choice((2, 3, len(STR_ALPHA)))
    return "".join(rng.choice(STR_ALPHA[:k] if k < 4 else STR_ALPHA) for _ in range(n))


def unary_items(env):
    L = env.budget(3, 5)
    lists = [(list(t), None) for n in range(L + 1) for t in itertools.product(ALPHA, repeat=n)]
    nexh = len(lists)
    rng = env.rng
    for _ in range(env.budget(200, 1200)):
        lists.append((random_list(rng), None if rng.random() < 0.7 else "l"))     # also handed over as a LazyList
    for _ in range(env.budget(300, 2500)):
        lists.append((extreme_list(rng), None if rng.random() < 0.8 else "l"))
    lists += [(list(g), None) for g in N.FLOAT_TIES] + [(list(reversed(g)), None) for g in N.FLOAT_TIES]
    lists += [(l, None) for l in N.FIXED_EXTREME_LISTS if N.nesting_depth(l) == 1]
    return [(l, queries_for(l), ks_for(len(l)), pat) for l, pat in lists], nexh


def string_items(env):
    strs = ["".join(t) for n in range(env.budget(3, 4) + 1) for t in itertools.product("ab1", repeat=n)]
    nexh = len(strs)
    strs += [random_string(env.rng) for _ in range(env.budget(200, 1500))]
    items = []
    for s in strs:
        xs = list(dict.fromkeys(s))[:3] + ["Q"]
        n = len(s)
        ks = sorted({1, 2, 3, n, n + 1} & set(range(1, n + 2)))
        items.append((s, xs, ks, None))
    return items, nexh


def binary_items(env):
    alpha = env.budget((-1, 0, 2), (-1, 0, 1, 2))
    small = [list(t) for n in range(4) for t in itertools.product(alpha, repeat=n)]
    pairs = [(a, b, None, None) for a in small for b in small]
    nexh = len(pairs)
    rng = env.rng

    def rep():
        return None if rng.random() < 0.7 else "l"
    for _ in range(env.budget(150, 1000)):
        pairs.append((random_list(rng), random_list(rng), rep(), rep()))
    for _ in range(env.budget(50, 300)):     # equal lengths: the inverse law's hypothesis
        a = random_list(rng)
        pairs.append((a, [rng.randint(-5, 5) for _ in a], rep(), rep()))
    for _ in range(env.budget(100, 800)):    # numeric extremes
        pairs.append((extreme_list(rng, 5), extreme_list(rng, 5), rep(), rep()))
    return pairs, nexh


def string_pairs(env):
    small = ["".join(t) for n in range(3) for t in itertools.product("ab", repeat=n)]
    pairs = [(a, b, None, None) for a in small for b in small]
    for _ in range(env.budget(150, 1000)):
        pairs.append((random_string(env.rng), random_string(env.rng), None, None))
    return pairs


def forests(n):
    """All nested lists with exactly n nodes (a node is a leaf or a list of nodes);
    leaves are None here and are numbered afterwards."""
    @functools.lru_cache(None)
    def forest(k):
        if k == 0:
            return ((),)
        out = []
        for first in range(1, k + 1):
            for t in tree(first):
                for rest in forest(k - first):
                    out.append((t,) + rest)
        return tuple(out)

    @functools.lru_cache(None)
    def tree(k):
        out = [("L",)] if k == 1 else []
        out += [("N", f) for f in forest(k - 1)]
        return tuple(out)
    return forest(n)


def label(forest, values):
    it = itertools.cycle(values)

    def go(t):
        if t[0] == "L":
            return next(it)
        return [go(c) for c in t[1]]
    return [go(t) for t in forest]


def random_tree(rng, depth=0):
    n = rng.randint(0, 4 if depth else 6)
    out = []
    for _ in range(n):
        if depth < 4 and rng.random() < 0.35:
            out.append(random_tree(rng, depth + 1))
        else:
            out.append(rng.randint(-9, 9))
    return out


def tree_items(env):
    """(nested list, representation): every enumerated shape and every random tree in
    EVERY distinguishable mix of plain lists and LazyLists by depth (plain rows holding
    lazy rows holding plain rows ...), plus per-node random mixes."""
    nodes = env.budget(5, 7)
    rng = env.rng
    trees = []
    vals = [(3, -1, 2, 0, -2, 1, 3), (0, 0, 1, -1, 2, 2, -2)]
    for n in range(nodes + 1):
        for i, f in enumerate(forests(n)):
            trees.append(label(f, vals[i % 2]))
    nexh = len(trees)
    for _ in range(env.budget(150, 1500)):
        trees.append(random_tree(rng))
    for _ in range(env.budget(150, 1500)):
        trees.append(N.nested_list(rng, 4, 4, lambda: pick_leaf(rng)))
    trees += [l for l in N.FIXED_EXTREME_LISTS]
    out = []
    for k, t in enumerate(trees):
        pats = N.mixed_variants(t, rng, extra_random=1)
        if k < nexh and len(pats) > 4 and env.tier == "quick":
            pats = pats[:2] + rng.sample(pats[2:], 2)       # quick: 4 of the mixes per enumerated shape
        out += [(t, pat) for pat in pats]
    return out, nexh


def matrix_items(env):
    out = []
    shapes = [s for n in range(4) for s in itertools.product(range(4), repeat=n)]
    pats = ("p", "l", "pl", "lp")
    for i, s in enumerate(shapes):        # every ragged shape with <= 3 rows of length <= 3
        c = itertools.count(1)
        out.append(([[next(c) * (-1) ** j for j in range(k)] for k in s], pats[i % 4]))
    nexh = len(out)
    rng = env.rng
    for _ in range(env.budget(150, 1500)):
        if rng.random() < 0.5:            # rectangular
            r, c = rng.randint(1, 6), rng.randint(1, 6)
            m = [[pick_leaf(rng, 0.1) for _ in range(c)] for _ in range(r)]
        else:
            m = [[pick_leaf(rng, 0.1) for _ in range(rng.randint(0, 6))] for _ in range(rng.randint(0, 6))]
        out.append((m, rng.choice(pats + (rng.randrange(1, 2 ** 30),))))
    return out, nexh


def chain_items(env):
    """Pipelines of producers (transpose, zip, wrap, prefixes, ...) over a small start
    value in a random representation; the result is what the consumers are tested on."""
    rng = env.rng
    out = []
    for _ in range(env.budget(1500, 12000)):
        kind = rng.random()
        if kind < 0.4:
            start = [pick_leaf(rng, 0.15) for _ in range(rng.randint(0, 5))]
        elif kind < 0.75:
            r, c = rng.randint(1, 3), rng.randint(1, 3)
            start = [[pick_leaf(rng, 0.15) for _ in range(c)] for _ in range(r)]
        else:
            start = N.nested_list(rng, 3, 3, lambda: pick_leaf(rng, 0.15))
        pat = rng.choice(N.mixed_variants(start, rng, extra_random=2))
        ops = []
        for _ in range(rng.randint(1, 3)):
            op = rng.choice(PRODUCERS)
            par = [rng.randint(-3, 3) for _ in range(rng.randint(0, 3))] if op != "wrap" else [rng.randint(0, 2)]
            ops.append((op, par))
        out.append((start, pat, ops))
    return out


# ---- lists of items of different kinds (see impl_mixed) ---------------------------------
LIST_TWIN_BASES = ([], [1], [1, 2], [0, "0"], [[1], "1"])
FOLD_ALPHA = (0, 1, 2, [1, 2], [[1], 2, 3], "ab", "1", [])      # neutral / absorbing numbers, lists, strings


def kind_of(x):
    return "list" if isinstance(x, list) else "str" if isinstance(x, str) else "num"


def same_item(a, b):
    """Equality of items: same kind and equal (specs: int, {"q": [p, q]} in lowest terms, str, list)."""
    if kind_of(a) != kind_of(b):
        return False
    if isinstance(a, list):
        return len(a) == len(b) and all(same_item(x, y) for x, y in zip(a, b))
    return N.frac(a) == N.frac(b)


def confusable(a, b):
    """A number and the string that spells it (the language's own equality, element ⁼, calls them equal)."""
    ka, kb = kind_of(a), kind_of(b)
    return {ka, kb} == {"num", "str"} and N.spell(a) == N.spell(b)


def distinct_items(l):
    out = []
    for x in l:
        if not any(same_item(x, y) for y in out):
            out.append(x)
    return out


def mixed_queries(l, bases=()):
    """Items asked for in count / contains / find: members, the twin of every member (the
    string that spells it; the base value a member string spells), an absent number and string."""
    members = distinct_items(l)
    pool = list(bases) + [x for x in members if not isinstance(x, str)]
    twins = [N.spell(x) for x in members if not isinstance(x, str)] + [b for x in members if isinstance(x, str) for b in pool if N.spell(b) == x]
    return distinct_items(members[:4] + twins[:4] + [7, "7"])


def fold_list(rng, maxlen=5):
    """Numbers (half of them 0 / 1), strings and nested lists of both in one list."""
    def leaf():
        r = rng.random()
        if r < 0.3:
            return rng.choice((0, 1))
        if r < 0.6:
            return rng.choice((-2, -1, 2, 3, 5, N.rat(1, 2), N.rat(-3, 4)))
        return rng.choice(("", "a", "ab", "0", "1", "12", "-1", "1/2", "[1]"))

    def sub(d):
        return [sub(d + 1) if d < 3 and rng.random() < 0.25 else leaf() for _ in range(rng.randint(0, 3))]
    return [sub(1) if rng.random() < 0.35 else leaf() for _ in range(rng.randint(1, maxlen))]


def mixed_items(env):
    rng = env.rng
    lists = []          # (list, bases)
    for b in N.TWIN_BASES + LIST_TWIN_BASES:        # every arrangement of a value and its twin
        for n in range(2, env.budget(3, 4) + 1):
            lists += [(list(t), [b]) for t in itertools.product((b, N.spell(b)), repeat=n)]
        other = 1 if b != 1 else 2
        lists += [(list(t), [b]) for t in itertools.product((b, N.spell(b), other), repeat=3) if other in t and env.thorough]
    lists += [(list(l), []) for l in N.FIXED_TWIN_LISTS]
    ntwin = len(lists)
    for n in range(1, env.budget(3, 4) + 1):        # every short list over FOLD_ALPHA
        lists += [(list(t), []) for t in itertools.product(FOLD_ALPHA, repeat=n)]
    dense = len(lists)
    out = [(l, mixed_queries(l, b), pat) for l, b in lists for pat in ("p", "l")]
    for _ in range(env.budget(300, 2500)):
        b = N.twin_bases(rng) + ([rng.choice(LIST_TWIN_BASES)] if rng.random() < 0.3 else [])
        l = N.twin_list(rng, b, rng.randint(1, 3), 6)
        out.append((l, mixed_queries(l, b), rng.choice(N.mixed_variants(l, rng, extra_random=1))))
    for _ in range(env.budget(300, 2500)):
        l = fold_list(rng)
        out.append((l, mixed_queries(l), rng.choice(N.mixed_variants(l, rng, extra_random=1))))
    return out, {"value_and_twin_arrangements": ntwin, "short_lists_over_fold_alphabet": dense - ntwin, "dense_each_as_list_and_LazyList": 2 * dense,
                 "random_twin_lists": env.budget(300, 2500), "random_number_string_list_mixes": env.budget(300, 2500)}


# ---- the observed family (see OBS_KINDS / CALL_MODES above) -----------------------------
# an observed item is (item of the corresponding fresh family, obs) with
# obs = {"observe": [(kind, k) or None per list argument], "call": mode}

def _allowed(kind_or_mode):
    return kind_or_mode not in PENDING_FINDINGS


def all_observations(n):
    """Every observation kind; the positional ones with EVERY k in 0..n+1 (nothing, a proper
    prefix, everything, beyond the end)."""
    return ([(kind, 0) for kind in OBS_PLAIN if _allowed(kind)] + [(kind, k) for kind in OBS_K if _allowed(kind) for k in range(n + 2)]
            + [("builtin", k) for k in range(len(PRIOR_BUILTINS)) if _allowed("builtin")])


def _k_for(rng, kind, n):
    return rng.randint(0, n + 1) if kind in OBS_K else rng.randrange(len(PRIOR_BUILTINS)) if kind == "builtin" else 0


def random_observation(rng, n):
    kinds = [k for k in OBS_KINDS if _allowed(k)]
    kind = "builtin" if "builtin" in kinds and rng.random() < 0.3 else rng.choice(kinds)
    return (kind, _k_for(rng, kind, n))


def one_of_each_observation(rng, n):
    return [(kind, _k_for(rng, kind, n)) for kind in OBS_KINDS if _allowed(kind)] + [("builtin", _k_for(rng, "builtin", n)) for _ in range(2) if _allowed("builtin")]


REPEATS = tuple(m for m in CALL_MODES if m != "once")


def specs_for(observations, nargs=1, rng=None):
    """Each observation on each argument alone (and on all at once) with a single call; each
    repeated-call mode on fresh arguments; with rng also one observation + repeat combination."""
    out = []
    for ob in observations:
        sides = [[ob if i == j else None for i in range(nargs)] for j in range(nargs)] + ([[ob] * nargs] if nargs > 1 else [])
        out += [{"observe": side, "call": "once"} for side in sides]
    out += [{"observe": [None] * nargs, "call": m} for m in REPEATS if _allowed(m)]
    if rng is not None and observations:
        out.append({"observe": [rng.choice(observations) for _ in range(nargs)], "call": rng.choice([m for m in REPEATS if _allowed(m)] or ["once"])})
    return out


def random_spec(rng, lengths, p_once=0.5):
    modes = [m for m in REPEATS if _allowed(m)]
    mode = "once" if rng.random() < p_once or not modes else rng.choice(modes)
    obs = [random_observation(rng, n) if (mode == "once" or rng.random() < 0.6) else None for n in lengths]
    if mode == "once" and len(obs) > 1 and rng.random() < 0.5:
        obs[rng.randrange(len(obs))] = None
    return {"observe": obs, "call": mode}


def lazy_somewhere(spec, pat):
    return "L[" in N.describe(spec, pat)


def observed_items(env):
    rng = env.rng
    out = {}
    # -- one list: dense sweep (distinct items and duplicates, handed over as a LazyList) + random
    uo = []
    for n in range(env.budget(5, 7)):
        for base in ([i + 1 for i in range(n)], [(2 * i) % 3 - 1 for i in range(n)]):
            item = (base, queries_for(base), ks_for(n), "l")
            uo += [(item, sp) for sp in specs_for(all_observations(n), 1, rng)]
            if n:       # the plain list: every other builtin first, every repeated call
                uo += [(item[:3] + (None,), sp) for sp in specs_for([("builtin", k) for k in range(len(PRIOR_BUILTINS))], 1)]
    dense_u = len(uo)
    for _ in range(env.budget(250, 2000)):
        l = random_list(rng, 7) if rng.random() < 0.8 else extreme_list(rng, 6)
        lazy = rng.random() < 0.9
        # a plain list has no hidden state: only another builtin before / repeated calls say something about it
        sp = random_spec(rng, [len(l)], 0.5 if lazy else 0.0)
        if not lazy and rng.random() < 0.6:
            sp = {"observe": [("builtin", _k_for(rng, "builtin", 0))], "call": "once"}
        uo.append(((l, queries_for(l), ks_for(len(l)), "l" if lazy else None), sp))
    out["unary"] = uo
    so = []
    for _ in range(env.budget(40, 300)):
        s = random_string(rng, 6)
        xs = list(dict.fromkeys(s))[:3] + ["Q"]
        ks = sorted({1, 2, 3, len(s), len(s) + 1} & set(range(1, len(s) + 2)))
        so.append(((s, xs, ks, None), random_spec(rng, [len(s)], 0.0)))
    out["string"] = so
    # -- pairs
    bo = []
    top = env.budget(3, 4)
    for na, nb in itertools.product(range(top), repeat=2):
        a, b = [i + 1 for i in range(na)], [-(i + 1) for i in range(nb)]
        obs = all_observations(max(na, nb)) if env.thorough else one_of_each_observation(rng, max(na, nb))
        bo += [((a, b, "l", "l"), sp) for sp in specs_for(obs, 2, rng)]
    dense_b = len(bo)
    for _ in range(env.budget(250, 1500)):
        a = random_list(rng, 6) if rng.random() < 0.8 else extreme_list(rng, 5)
        b = [rng.randint(-5, 5) for _ in a] if rng.random() < 0.3 else random_list(rng, 6)
        pa, pb = rng.choice(("l", "l", None)), rng.choice(("l", "l", None))
        bo.append(((a, b, pa, pb), random_spec(rng, [len(a), len(b)], 0.5 if "l" in (pa, pb) else 0.0)))
    # one object in both argument places (then a = b), fresh / observed / called repeatedly
    if _allowed("same_object"):
        for n in range(top + 1):
            a = [i + 1 for i in range(n)]
            for sp in [{"observe": [None], "call": "once"}] + specs_for(one_of_each_observation(rng, n), 1, rng):
                bo.append(((a, a, "l", "l"), dict(sp, same_object=True)))
        for _ in range(env.budget(60, 400)):
            a = random_list(rng, 6)
            pa = rng.choice(("l", "l", None))
            bo.append(((a, a, pa, pa), dict(random_spec(rng, [len(a)], 0.6), same_object=True)))
    out["binary"] = bo
    # -- nested lists: every small shape in every representation that has a LazyList somewhere
    to = []
    vals = (3, -1, 2, 0, -2, 1, 3)
    for n in range(env.budget(4, 5) + 1):
        for f in forests(n):
            t = label(f, vals)
            pats = [p for p in N.mixed_variants(t, rng, extra_random=1) if lazy_somewhere(t, p)]
            if not env.thorough and len(pats) > 2:
                pats = rng.sample(pats, 2)
            for p in pats:
                to += [((t, p), sp) for sp in specs_for(one_of_each_observation(rng, len(t)), 1, rng)]
    dense_t = len(to)
    for _ in range(env.budget(300, 2500)):
        t = random_tree(rng) if rng.random() < 0.5 else N.nested_list(rng, 4, 4, lambda: pick_leaf(rng))
        pats = [p for p in N.mixed_variants(t, rng, extra_random=2) if lazy_somewhere(t, p)]
        to.append(((t, rng.choice(pats) if pats else "p"), random_spec(rng, [len(t)], 0.5 if pats else 0.0)))
    out["tree"] = to
    # -- matrices
    mo = []
    shapes = [s for n in range(4) for s in itertools.product(range(3), repeat=n)]
    for s in shapes:
        c = itertools.count(1)
        m = [[next(c) * (-1) ** j for j in range(k)] for k in s]
        p = rng.choice(("l", "lp", "pl", rng.randrange(1, 2 ** 30)))
        mo += [((m, p), sp) for sp in specs_for(one_of_each_observation(rng, len(m)), 1, rng)]
    dense_m = len(mo)
    for _ in range(env.budget(150, 1200)):
        if rng.random() < 0.5:
            r, c = rng.randint(1, 5), rng.randint(1, 5)
            m = [[pick_leaf(rng, 0.1) for _ in range(c)] for _ in range(r)]
        else:
            m = [[pick_leaf(rng, 0.1) for _ in range(rng.randint(0, 5))] for _ in range(rng.randint(0, 5))]
        mo.append(((m, rng.choice(("l", "lp", "pl", "p", rng.randrange(1, 2 ** 30)))), random_spec(rng, [len(m)])))
    out["matrix"] = mo
    return out, {"unary": dense_u, "binary": dense_b, "tree": dense_t, "matrix": dense_m}


def observed_chains(env, chains):
    """Pipelines: the value produced by the producers is observed before each consumer /
    each consumer is called repeatedly on it."""
    rng = env.rng
    picked = rng.sample(chains, min(len(chains), env.budget(600, 5000)))
    return [(c, random_spec(rng, [3])) for c in picked]


def with_obs(inp, obs):
    if obs is None:
        return inp
    out = {"argument": inp, "observed_before_the_call": [list(o) if o else None for o in obs["observe"]], "call": obs["call"]}
    if obs.get("same_object"):
        out["a_and_b_are_one_object"] = True
    return out


# ----------------------------------------------------------------------------
# the oracle: laws stated with itertools/builtins, independent of the model
# ----------------------------------------------------------------------------

def leaves(t):
    return [x for y in t for x in (leaves(y) if isinstance(y, list) else [y])]


class Oracle:
    def __init__(self, env):
        self.env = env
        self.n = collections.Counter()
        self.reported = collections.Counter()

    def fail(self, inp, what, cls):
        """At most 4 failing inputs per (builtin, law): the framework keeps 50 in all
        and one broken builtin must not hide another."""
        self.reported[cls] += 1
        if self.reported[cls] <= 4:
            self.env.fail(inp, what, cls=cls)

    def check(self, builtin, law, inp, got, want, cls=None):
        self.n[builtin] += 1
        if got is None:
            return
        if isinstance(got, Exc) or norm(got, depth_of(want)) != want:
            self.fail({"builtin": builtin, "input": inp}, f"{builtin}: {law}: implementation gives {got!r}, the law requires {want!r}"[:600],
                      cls or f"{builtin}:{law}")

    def holds(self, builtin, law, inp, ok, got, cls=None):
        self.n[builtin] += 1
        if not ok:
            self.fail({"builtin": builtin, "input": inp}, f"{builtin}: {law}: implementation gives {got!r}"[:600], cls or f"{builtin}:{law}")

    # -- one list or string --------------------------------------------------
    def unary(self, item, r, obs=None):
        """obs: the argument was observed / the call repeated (observed family): the laws are
        about the list the argument denotes, so the expected answers are the same."""
        l, xs, ks, pat = item
        is_str = isinstance(l, str)
        s = list(l) if is_str else N.frac(l)      # the sequence of items, exact numbers
        n = len(s)
        inp = with_obs(shown(l, pat), obs)
        ck = lambda b, law, got, want, cls=None: self.check(b, law, inp, got, want, cls)  # noqa: E731
        ck("sort", "sorted()", r["sort"], sorted(s))
        if not isinstance(r["sort"], Exc):
            g = norm(r["sort"], 1)
            self.holds("sort", "ordered permutation", inp,
                       isinstance(g, list) and all(a <= b for a, b in zip(g, g[1:])) and collections.Counter(g) == collections.Counter(s), r["sort"])
        ck("reverse", "[::-1]", r["reverse"], s[::-1])
        ck("reverse", "involution", r["reverse2"], s)
        ck("uniquify", "first occurrences in order", r["uniquify"], list(dict.fromkeys(s)))
        ck("flatten", "flat list unchanged", r["flatten"], s)
        if is_str:
            ck("sum", "concatenation", r["sum"], s if s else 0)
        else:
            ck("sum", "sum()", r["sum"], sum(s))
            ck("product", "math.prod()", r["product"], math.prod(s), cls="product-empty" if not s else None)
        ck("max", "max() / [] when empty", r["max"], max(s) if s else [])
        ck("min", "min() / [] when empty", r["min"], min(s) if s else [])
        ck("cumsum", "itertools.accumulate", r["cumsum"], list(itertools.accumulate(s)))
        if not is_str:
            ck("deltas", "adjacent differences", r["deltas"], [b - a for a, b in zip(s, s[1:])])
            ck("deltas", "deltas(cumsum l) = l[1:]", r["deltas_cumsum"], s[1:])
            if not isinstance(r["deltas"], Exc) and n:
                self.holds("deltas", "telescoping sum", inp, sum(r["deltas"]) == s[-1] - s[0], r["deltas"])
        ck("uninterleave", "[l[::2], l[1::2]]", r["uninterleave"], [s[::2], s[1::2]])
        ck("interleave", "interleave(*uninterleave l) = l", r["reinterleave"], s)
        ck("prefixes", "l[:i+1] in order", r["prefixes"], [s[:i + 1] for i in range(n)])
        want_suf = [s[i:] for i in range(n)]
        if is_str:
            if not isinstance(r["suffixes"], Exc):
                self.holds("suffixes", "the n non-empty suffixes", inp, sorted(norm(r["suffixes"], 2)) == sorted(want_suf), r["suffixes"])
        else:
            ck("suffixes", "l[i:] in order", r["suffixes"], want_suf)
        want_sub = sorted(s[i:j] for i in range(n) for j in range(i + 1, n + 1))
        if isinstance(r["sublists"], Exc):
            ck("sublists", "raises", r["sublists"], want_sub)
        else:
            g = norm(r["sublists"], 2)
            self.holds("sublists", "all contiguous non-empty sublists, each once per position", inp, sorted(g) == want_sub, r["sublists"])
            self.holds("sublists", "n(n+1)/2 of them", inp, len(g) == n * (n + 1) // 2, len(g))
        if r["powerset"] is not None:
            want_pow = sorted(list(c) for k in range(n + 1) for c in itertools.combinations(s, k))
            if isinstance(r["powerset"], Exc):
                ck("powerset", "raises", r["powerset"], want_pow)
            else:
                g = norm(r["powerset"], 2)
                self.holds("powerset", "all subsequences, one per position set", inp, sorted(g) == want_pow, r["powerset"])
                self.holds("powerset", "2^n of them, [] first", inp, len(g) == 2 ** n and g[0] == [], len(g))
        if r["permutations"] is not None:
            want_perm = [list(p) for p in itertools.permutations(s)]
            if isinstance(r["permutations"], Exc):
                ck("permutations", "raises", r["permutations"], want_perm)
            else:
                g = norm(r["permutations"], 2)
                self.holds("permutations", "n! of them", inp, len(g) == math.factorial(n), len(g))
                self.holds("permutations", "all rearrangements, one per rearrangement of positions", inp, sorted(g) == sorted(want_perm), r["permutations"] if n < 4 else "...")
                if not is_str:
                    # on a list every permutation is a list (a string only for lists of strings)
                    self.holds("permutations", "every permutation of a list is a list", inp,
                               all(isinstance(p, list) for p in r["permutations"]), r["permutations"] if n < 4 else "...",
                               cls="permutations-empty" if n == 0 else None)
        ck("group", "itertools.groupby", r["group"], [list(g) for _, g in itertools.groupby(s)])
        if not isinstance(r["group"], Exc):
            g = norm(r["group"], 2)
            self.holds("group", "concatenates back, groups constant, neighbours differ", inp,
                       [x for grp in g for x in grp] == s and all(grp and len(set(grp)) == 1 for grp in g)
                       and all(a[0] != b[0] for a, b in zip(g, g[1:])), r["group"])
        ck("counts", "[x, count] per first occurrence", r["counts"], [[x, s.count(x)] for x in dict.fromkeys(s)])
        if not is_str:
            ck("grade_up", "stable argsort", r["grade_up"], sorted(range(n), key=s.__getitem__))
            ck("grade_down", "stable argsort, descending", r["grade_down"], sorted(range(n), key=lambda i: (-s[i], i)))
        empty = "" if is_str else 0
        ck("head", "l[0] (0 / '' when empty)", r["head"], s[0] if s else empty)
        ck("tail", "l[-1] (0 / '' when empty)", r["tail"], s[-1] if s else empty)
        ck("head_remove", "l[1:]", r["head_remove"], s[1:])
        ck("tail_remove", "l[:-1]", r["tail_remove"], s[:-1])
        ck("length", "len()", r["length"], n)
        if n and not any(isinstance(r[k], Exc) for k in ("head", "tail", "head_remove", "tail_remove")):
            self.holds("head", "[head] + head_remove = l", inp, [r["head"]] + norm(r["head_remove"], 1) == s, (r["head"], r["head_remove"]))
            self.holds("tail", "tail_remove + [tail] = l", inp, norm(r["tail_remove"], 1) + [r["tail"]] == s, (r["tail_remove"], r["tail"]))
        for x, cnt, con, fnd in r["queries"]:
            q = {"list": inp, "x": x}
            x = N.frac(x)
            self.check("count", "list.count", q, cnt, s.count(x))
            self.check("contains", "x in l", q, con, int(x in s))
            self.check("find", "first index or -1", q, fnd, s.index(x) if x in s else -1)
        for k, w in r["wrap"]:
            q = {"list": inp, "k": k}
            if k > 0:
                self.check("wrap", "chunks l[i:i+k]", q, w, [s[i:i + k] for i in range(0, n, k)])
                if not isinstance(w, Exc):
                    g = norm(w, 2)
                    self.holds("wrap", "concatenates back; all chunks but the last have length k", q,
                               [x for ch in g for x in ch] == s and all(len(ch) == k for ch in g[:-1]) and all(0 < len(ch) <= k for ch in g[-1:]), w)
            else:
                self.check("wrap", "k = 0: no chunk", q, w, [])

    def binary(self, item, r, obs=None):
        a, b, pa, pb = item
        sa, sb = (list(a), list(b)) if isinstance(a, str) else (N.frac(a), N.frac(b))
        inp = with_obs({"a": shown(a, pa), "b": shown(b, pb)}, obs)
        self.check("zip", "zip_longest(fill 0)", inp, r["zip"], [list(p) for p in itertools.zip_longest(sa, sb, fillvalue=0)])
        sent = object()
        self.check("interleave", "alternate, rest appended", inp, r["interleave"],
                   [x for p in itertools.zip_longest(sa, sb, fillvalue=sent) for x in p if x is not sent])
        if len(sa) == len(sb) or len(sa) == len(sb) + 1:
            self.check("uninterleave", "uninterleave(interleave a b) = [a, b]", inp, r["unzip"], [sa, sb])
        want = sorted([x, y] for x in sa for y in sb)
        if isinstance(r["cart"], Exc):
            self.check("cart", "raises", inp, r["cart"], want)
        else:
            g = norm(r["cart"], 2)
            self.holds("cart", "every pair exactly once", inp, sorted(g) == want, r["cart"])
            self.holds("cart", "|a|*|b| pairs", inp, len(g) == len(sa) * len(sb), len(g))

    def tree(self, item, r, obs=None):
        t, pat = item
        inp = with_obs(shown(t, pat), obs)
        lv = leaves(N.frac(t))
        self.check("flatten", "leaves left to right", inp, r["flatten"], lv)
        self.check("max", "max of the leaves", inp, r["max"], max(lv) if lv else [])
        self.check("min", "min of the leaves", inp, r["min"], min(lv) if lv else [])

    def matrix(self, item, r, obs=None):
        m, pat = item
        inp = with_obs(shown(m, pat), obs)
        m = N.frac(m)
        w = max([len(x) for x in m], default=0)
        self.check("transpose", "column j = j-th items of the rows that have one", inp, r["transpose"],
                   [[x[j] for x in m if j < len(x)] for j in range(w)])
        if m and w and all(len(x) == w for x in m):
            self.check("transpose", "rectangular: zip(*rows)", inp, r["transpose"], [list(c) for c in zip(*m)])
            self.check("transpose", "rectangular: involution", inp, r["transpose2"], m)

    # -- lists of items of different kinds (see impl_mixed) --------------------
    def exact(self, builtin, law, inp, got, want, cls=None):
        """Equal as values, kinds included (a string is not the list of its characters here:
        both occur as items)."""
        self.n[builtin] += 1
        if isinstance(got, Exc) and isinstance(want, Exc):
            return
        if isinstance(got, Exc) or isinstance(want, Exc) or not same_item(N.unfrac(got), N.unfrac(want)):
            self.fail({"builtin": builtin, "input": inp}, f"{builtin}: {law}: implementation gives {got!r}, the law requires {want!r}"[:600],
                      cls or f"{builtin}:{law}")

    def mixed(self, item, r, obs=None):
        l, xs, pat = item
        inp = with_obs(shown(l, pat), obs)
        n = len(l)
        uniq = distinct_items(l)
        cnt = lambda x: sum(1 for y in l if same_item(x, y))  # noqa: E731
        ex = lambda b, law, got, want: self.exact(b, law, inp, got, N.frac(want), cls=f"{b}:mixed kinds")  # noqa: E731
        self.mixed_folds(inp, r)
        if not _allowed("equality:fraction in a LazyList sublist") and "L[" in N.describe(l, pat or "p")[1:] \
                and any(N.is_rat(y) for x in l if isinstance(x, list) for y in N.leaves_of(x)):
            return
        ex("uniquify", "first occurrences in order, items equal iff same kind and equal", r["uniquify"], uniq)
        ex("counts", "[x, number of items equal to x] per first occurrence", r["counts"], [[x, cnt(x)] for x in uniq])
        groups = []
        for x in l:
            if groups and same_item(groups[-1][-1], x):
                groups[-1].append(x)
            else:
                groups.append([x])
        if not any(confusable(a, b) for a, b in zip(l, l[1:])):
            ex("group", "runs of equal neighbours", r["group"], groups)
        else:
            # Ġ compares with the language's own equality ⁼, under which a number equals the string that spells it: the runs are
            # those of that equality, but a group must hold the ITEMS of the run (the groups concatenate back to the list)
            runs = []
            for x in l:
                if runs and (same_item(runs[-1][0], x) or confusable(runs[-1][0], x)):
                    runs[-1].append(x)
                else:
                    runs.append([x])
            ex("group", "runs of neighbours equal under ⁼, holding the items themselves", r["group"], runs)
        ex("reverse", "[::-1]", r["reverse"], l[::-1])
        ex("length", "len()", r["length"], n)
        ex("uninterleave", "[l[::2], l[1::2]]", r["uninterleave"], [l[::2], l[1::2]])
        for x, c_, con, fnd in r["queries"]:
            q = {"list": inp, "x": x}
            self.exact("count", "number of items equal to x", q, c_, cnt(x), cls="count:mixed kinds")
            self.exact("contains", "some item equals x", q, con, int(cnt(x) > 0), cls="contains:mixed kinds")
            if _allowed("find:spelling-twins") or not any(confusable(x, y) for y in l):
                self.exact("find", "first index of an item equal to x, or -1", q, fnd,
                           next((i for i, y in enumerate(l) if same_item(x, y)), -1), cls="find:mixed kinds")

    def mixed_folds(self, inp, r):
        for b, law in (("sum", "left fold by add"), ("product", "left fold by multiply"), ("cumsum", "folds of the prefixes by add"),
                       ("deltas", "subtract on adjacent items"), ("max", "fold of the leaves by dyadic maximum"), ("min", "fold of the leaves by dyadic minimum")):
            if b in r and not isinstance(r[b][1], Exc):       # the dyad is defined on these items
                self.exact(b, law + " (the element's own dyad, vectorising)", inp, r[b][0], r[b][1], cls=f"{b}:mixed kinds")

    def chain(self, item, r, obs=None):
        """Consumers on a nested value produced by other builtins (LazyLists inside plain
        lists inside LazyLists ...), relative to that value forced."""
        if r.get("skipped"):
            return
        start, pat, ops = item
        c = r["intermediate"]
        inp = with_obs({"start": shown(start, pat), "pipeline": [[op, par] for op, par in ops], "applied": r["applied"], "value": N.unfrac(c)}, obs)
        if not isinstance(c, list):
            return
        lv = leaves(c)
        ck = lambda b, law, want: self.check(b, law, inp, r[b], want, cls=f"{b}:pipeline")  # noqa: E731
        ck("flatten", "leaves of a value produced by other builtins", lv)
        if all(isinstance(x, (int, Fraction)) for x in lv):
            ck("max", "max of the leaves of a produced value", max(lv) if lv else [])
            ck("min", "min of the leaves of a produced value", min(lv) if lv else [])
        ck("length", "len of a produced value", len(c))
        ck("reverse", "[::-1] of a produced value", c[::-1])
        ck("head", "first item of a produced value", c[0] if c else 0)
        ck("tail", "last item of a produced value", c[-1] if c else 0)
        ck("head_remove", "[1:] of a produced value", c[1:])
        ck("tail_remove", "[:-1] of a produced value", c[:-1])


# ----------------------------------------------------------------------------
# correspondence: the model evaluated inside Coq on the same inputs
# ----------------------------------------------------------------------------

class Shape(Exception):
    pass


def z(x):
    if isinstance(x, bool) or not isinstance(x, int):
        raise Shape(x)
    return str(x) if x >= 0 else f"({x})"


def zl(x):
    if not isinstance(x, list):
        raise Shape(x)
    return "[" + ";".join(z(y) for y in x) + "]"


def zll(x):
    if not isinstance(x, list):
        raise Shape(x)
    return "[" + ";".join(zl(y) for y in x) + "]"


def zpairs(x):
    if not isinstance(x, list) or any(not isinstance(p, list) or len(p) != 2 for p in x):
        raise Shape(x)
    return "[" + ";".join(f"({z(p[0])},{z(p[1])})" for p in x) + "]"


def zopt(x):
    return "None" if x == [] else f"(Some {z(x)})"


def opt(f):
    return lambda x: "None" if x is None else f"(Some {f(x)})"


def ztree(t):
    if isinstance(t, list):
        return "(Node [" + ";".join(ztree(c) for c in t) + "])"
    return f"(Leaf {z(t)})"


PRE = """From Coq Require Import List ZArith Bool Arith.
From Vy Require Import Model.ListOps.
Import ListNotations.
Open Scope Z_scope.
Fixpoint leq {A} (e : A -> A -> bool) (a b : list A) : bool :=
  match a, b with [], [] => true | x :: a', y :: b' => e x y && leq e a' b' | _, _ => false end.
Definition eL := leq Z.eqb.
Definition eLL := leq eL.
Definition eP (p q : Z * Z) := Z.eqb (fst p) (fst q) && Z.eqb (snd p) (snd q).
Definition ePL := leq eP.
Definition eO (a b : option Z) := match a, b with Some x, Some y => Z.eqb x y | None, None => true | _, _ => false end.
(* the model side is a thunk: vm_compute is call by value and a skipped (None) answer must not be computed *)
Definition eOpt {A} (e : A -> A -> bool) (m : unit -> A) (o : option A) := match o with None => true | Some v => e (m tt) v end.
Definition nats (l : list nat) := map Z.of_nat l.
Definition pair_leb (p q : Z * Z) := (fst p <? fst q) || ((fst p =? fst q) && (snd p <=? snd q)).
Definition b2z (b : bool) := if b then 1 else 0.
Definition sel (bs : list bool) (j : nat) := nth j bs false.
"""

# (component name, Coq type of the recorded answer, renderer, model term over `l`, equality)
UCOMP = [
    ("sort", "list Z", zl, "sort l", "eL"),
    ("reverse", "list Z", zl, "reverse l", "eL"),
    ("uniquify", "list Z", zl, "uniquify l", "eL"),
    ("sum", "Z", z, "vsum l", "Z.eqb"),
    ("product", "Z", z, "product l", "Z.eqb"),
    ("max", "option Z", zopt, "maximum l", "eO"),
    ("min", "option Z", zopt, "minimum l", "eO"),
    ("cumsum", "list Z", zl, "cumsum l", "eL"),
    ("deltas", "list Z", zl, "deltas l", "eL"),
    ("uninterleave", "list (list Z)", zll, "[fst (uninterleave l); snd (uninterleave l)]", "eLL"),
    ("prefixes", "list (list Z)", zll, "prefixes l", "eLL"),
    ("suffixes", "list (list Z)", zll, "suffixes l", "eLL"),
    ("sublists", "list (list Z)", zll, "sublists l", "eLL"),
    ("powerset", "option (list (list Z))", opt(zll), "fun _ => powerset l", "eOpt eLL"),
    ("permutations", "option (list (list Z))", opt(zll), "fun _ => permutations l", "eOpt eLL"),
    ("group", "list (list Z)", zll, "group_consecutive l", "eLL"),
    ("counts", "list (Z * Z)", zpairs, "counts l", "ePL"),
    ("grade_up", "list Z", zl, "nats (grade_up l)", "eL"),
    ("grade_down", "list Z", zl, "nats (grade_down l)", "eL"),
    ("head", "Z", z, "head l", "Z.eqb"),
    ("tail", "Z", z, "tail l", "Z.eqb"),
    ("head_remove", "list Z", zl, "head_remove l", "eL"),
    ("tail_remove", "list Z", zl, "tail_remove l", "eL"),
    ("length", "Z", z, "length_ l", "Z.eqb"),
]


def unary_preamble():
    fields = "; ".join(f"u{i} : {ty}" for i, (_, ty, _, _, _) in enumerate(UCOMP))
    comps = ";\n  ".join(f"{eq} ({term}) (u{i} c)" for i, (_, _, _, term, eq) in enumerate(UCOMP))
    return PRE + f"""Record ucase := U {{ ul : list Z; {fields};
  uq : list (Z * (Z * Z * Z)); uw : list (nat * list (list Z)) }}.
Definition comps (c : ucase) : list bool := let l := ul c in
  [{comps};
  forallb (fun q => match q with (x, (cn, co, fi)) => Z.eqb (count x l) cn && Z.eqb (b2z (contains x l)) co && Z.eqb (find x l) fi end) (uq c);
  forallb (fun q => eLL (wrap (fst q) l) (snd q)) (uw c)].
Definition ok (c : ucase) : bool := forallb (fun b => b) (comps c).
"""


UNAMES = [c[0] for c in UCOMP] + ["count/contains/find", "wrap"]


DEFAULT = {"Z": "0", "option Z": "None", "option (list (list Z))": "None"}


def render_unary(env, item, r):
    l, xs, ks, pat = item
    parts = [zl(l)]
    for name, ty, rend, _, _ in UCOMP:
        v = r[name]
        if name == "permutations" and v is not None and not isinstance(v, Exc):
            v = norm(v, 2)   # the implementation joins an empty tuple into '' (oracle: permutations-empty)
        try:
            if isinstance(v, Exc):
                raise Shape(v)
            parts.append(rend(v))
        except Shape:
            env.disagree(name, {"list": l}, "a value of type " + ty, repr(v)[:300])
            parts.append(DEFAULT.get(ty, "[]"))
    try:
        parts.append("[" + ";".join(f"({z(x)},({z(a)},{z(b)},{z(c)}))" for x, a, b, c in r["queries"] if for_model(x)) + "]")
    except Shape:
        env.disagree("count/contains/find", {"list": l}, "integers", repr(r["queries"])[:300])
        parts.append("[]")
    try:
        parts.append("[" + ";".join(f"({k}%nat,{zll(w)})" for k, w in r["wrap"]) + "]")
    except Shape:
        env.disagree("wrap", {"list": l}, "a list of integer lists", repr(r["wrap"])[:300])
        parts.append("[]")
    return "U " + " ".join(parts)


def run_cases(env, name, preamble, rendered, names, describe, shard):
    """rendered: Coq text per case; checker `ok`; on failure locate the component(s)."""
    n = len(rendered)
    ok, bad, logs = env.coq_mismatches(name, preamble, lambda lo, hi: "[" + ";\n".join(rendered[lo:hi]) + "]", "ok", n, shard=shard)
    if not ok:
        env.proof_broken(f"{name} correspondence cases failed to evaluate", logs)
    if bad:
        sub = bad[:6]
        pairs = [(i, j) for i in sub for j in range(len(names))]
        ok2, bad2, logs2 = env.coq_mismatches(
            name + "_loc", preamble,
            lambda lo, hi: "[" + ";\n".join(f"({rendered[i]}, {j}%nat)" for i, j in pairs[lo:hi]) + "]",
            "fun cj => sel (comps (fst cj)) (snd cj)", len(pairs), shard=len(names))
        located = collections.defaultdict(list)
        if ok2:
            for p in bad2:
                located[pairs[p][0]].append(names[pairs[p][1]])
        for i in bad:
            comp = ",".join(located.get(i, [])) or (name + " (component not located: only the first 6 differing cases are)")
            env.disagree(comp, describe(i), "(model evaluated inside Coq differs)", "see input; implementation answers are in the case")
    return n


def correspondence(env, U, UR, B, BR, T, TR, M, MR):
    """The model is over Z: integer inputs only (rational extremes are compared exactly by
    the oracle).  One case per distinct (input, answers): the representation of the input
    (plain / lazy at each level) must not matter, so normally one case per input."""
    stats = {}
    import random
    keep = [(it, r) for it, r in zip(U, UR) if for_model(it[0])]
    random.Random(16).shuffle(keep)          # spread the heavy cases over the parallel shards
    U, UR = [k[0] for k in keep], [k[1] for k in keep]
    keep = [((a, b), r, (pa, pb)) for (a, b, pa, pb), r in zip(B, BR) if for_model(a) and for_model(b)]
    B, BR, BP = [k[0] for k in keep], [k[1] for k in keep], [k[2] for k in keep]

    def distinct(items, res):
        seen, out = set(), []
        for (x, pat), r in zip(items, res):
            key = (repr(x), repr(r))
            if for_model(x) and key not in seen:
                seen.add(key)
                out.append((x, r, pat))
        return [o[0] for o in out], [o[1] for o in out], [o[2] for o in out]
    T, TR, TP = distinct(T, TR)
    M, MR, MP = distinct(M, MR)
    # unary
    rendered = [render_unary(env, it, r) for it, r in zip(U, UR)]
    stats["unary"] = run_cases(env, "un", unary_preamble(), rendered, UNAMES,
                               lambda i: {"list": shown(U[i][0], U[i][3]), "impl": {k: repr(v)[:200] for k, v in UR[i].items()}}, shard=env.budget(50, 150))
    # binary
    pre = PRE + """Record bcase := B { ba : list Z; bb : list Z; bz : list (Z * Z); bi : list Z; bu : option (list (list Z)); bc : list (Z * Z) }.
Definition comps (c : bcase) : list bool := let a := ba c in let b := bb c in
  [ePL (zip a b) (bz c); eL (interleave a b) (bi c);
   eOpt eLL (fun _ => [fst (uninterleave (interleave a b)); snd (uninterleave (interleave a b))]) (bu c);
   ePL (cart_diag a b) (bc c);
   ePL (isort pair_leb (cart a b)) (isort pair_leb (bc c))].
Definition ok (c : bcase) : bool := forallb (fun b => b) (comps c).
"""
    rb = []
    for (a, b), r in zip(B, BR):
        try:
            for k in r:
                if isinstance(r[k], Exc):
                    raise Shape((k, r[k]))
            rb.append(f"B {zl(a)} {zl(b)} {zpairs(r['zip'])} {zl(r['interleave'])} (Some {zll(r['unzip'])}) {zpairs(r['cart'])}")
        except Shape as e:
            env.disagree("zip/interleave/cart", {"a": a, "b": b}, "integer lists / pairs", repr(e.args[0])[:300])
            rb.append(f"B {zl(a)} {zl(b)} [] [] None []")
    stats["binary"] = run_cases(env, "bin", pre, rb, ["zip", "interleave", "uninterleave∘interleave", "cartesian product (order)", "cartesian product (multiset)"],
                                lambda i: {"a": shown(B[i][0], BP[i][0]), "b": shown(B[i][1], BP[i][1]), "impl": {k: repr(v)[:200] for k, v in BR[i].items()}}, shard=400)
    # trees
    pre = PRE + """Record tcase := T { tt : list tree; tf : list Z; tmax : option Z; tmin : option Z }.
Definition comps (c : tcase) : list bool :=
  [eL (deep_flatten (tt c)) (tf c); eO (maximum (deep_flatten (tt c))) (tmax c); eO (minimum (deep_flatten (tt c))) (tmin c)].
Definition ok (c : tcase) : bool := forallb (fun b => b) (comps c).
"""
    rt = []
    for t, r in zip(T, TR):
        try:
            if any(isinstance(v, Exc) for v in r.values()):
                raise Shape(r)
            rt.append(f"T [{';'.join(ztree(c) for c in t)}] {zl(r['flatten'])} {zopt(r['max'])} {zopt(r['min'])}")
        except Shape as e:
            env.disagree("flatten/max/min", {"nested": t}, "integer list / integer", repr(e.args[0])[:300])
            rt.append("T [] [] None None")
    stats["tree"] = run_cases(env, "tree", pre, rt, ["flatten", "max", "min"],
                              lambda i: {"nested": shown(T[i], TP[i]), "impl": {k: repr(v)[:200] for k, v in TR[i].items()}}, shard=400)
    # matrices
    pre = PRE + """Record mcase := M { mm : list (list Z); mt : list (list Z) }.
Definition comps (c : mcase) : list bool := [eLL (transpose (mm c)) (mt c)].
Definition ok (c : mcase) : bool := forallb (fun b => b) (comps c).
"""
    rm = []
    for m, r in zip(M, MR):
        try:
            if isinstance(r["transpose"], Exc):
                raise Shape(r["transpose"])
            rm.append(f"M {zll(m)} {zll(r['transpose'])}")
        except Shape as e:
            env.disagree("transpose", {"rows": m}, "a list of integer lists", repr(e.args[0])[:300])
            rm.append("M [] []")
    stats["matrix"] = run_cases(env, "mat", pre, rm, ["transpose"],
                                lambda i: {"rows": shown(M[i], MP[i]), "impl": repr(MR[i]["transpose"])[:300]}, shard=500)
    return stats


# ----------------------------------------------------------------------------

def J(x):
    """json-able copy of a result (Fractions as {"q": [p, q]} specs)."""
    if isinstance(x, dict):
        return {k: J(v) for k, v in x.items()}
    if isinstance(x, (list, tuple)):
        return [J(v) for v in x]
    if isinstance(x, Fraction):
        return N.unfrac(x)
    if isinstance(x, Exc):
        return repr(x)
    return x


def evaluate(env, fn, items, what):
    res = V.pmap(fn, items, timeout=20)
    out = []
    for it, (st, val) in zip(items, res):
        if st != "ok":
            env.fail({"builtin": what, "input": it if not isinstance(it, tuple) else list(it)}, f"{what}: implementation {st}: {val}", cls=f"{what}:{st}")
            out.append(None)
        else:
            out.append(val)
    return out


def run(env, with_model=True):
    env.rule = ("every modelled builtin (sort reverse uniquify flatten sum product max min cumsum deltas zip transpose interleave uninterleave wrap "
                "prefixes suffixes sublists powerset permutations cartesian-product count contains find group counts grade-up/down head tail "
                "head-remove tail-remove length): model (evaluated inside Coq) vs implementation on all integer lists of length <= L over -2..3 "
                "(L=3 quick, 5 thorough) and random lists to length 12; pairs of lists (zip/interleave/cartesian product), nested lists (flatten/max/min), "
                "ragged matrices (transpose); the same inputs plus strings go through ~40 laws stated with itertools/builtins on the implementation. "
                "Item pools include numeric extremes from vlib/nasty.py (distinct numbers equal as doubles: adjacent ints >= 2**53, 10**20+k, 2**1030+k, "
                "rationals 1e-20 apart, huge denominators) compared exactly as int/Fraction; integer-only ones also go through the model. "
                "Every list-valued input is also handed over as a LazyList; nested inputs in every distinguishable mix of plain lists and LazyLists by depth "
                "(plain holding lazy holding plain ..., depth <= 4, plus per-node random mixes); pipelines of 1-3 producers (transpose zip wrap prefixes suffixes "
                "sublists uninterleave reverse group cartesian-product interleave powerset cumsum ...) build nested values that are fed to flatten/max/min/length/"
                "reverse/head/tail/head-remove/tail-remove, laws stated relative to the forced intermediate. "
                "Observed family: all of these builtins again on arguments whose LazyLists were looked at before the call (head, truth, length, index k, has-index k, "
                "iterated to k / fully, raw next k times, slice, listify, nested walk to k, forced, another builtin of the check applied first) and called two times on the same argument objects "
                "(first answer read / unread / read late); expected answers are those of the denoted list. "
                "Lists of items of different kinds: uniquify counts group count contains find reverse length uninterleave on lists where a value meets the different "
                "values that look like it (a number / a list and the string that spells it, at every nesting level; items equal iff same kind and equal), and "
                "sum product cumsum deltas (max min over leaves of one kind) == the left fold / scan / adjacent pairs written out with the repository's own dyad on lists mixing "
                "numbers (0, 1 in every position) with strings and nested lists; both as lists and LazyLists, also observed / called repeatedly. "
                "Non-trivial = non-empty input; distinct by (family, canonical input, representation).")
    V.import_repo()
    import vyxal.elements  # noqa: F401  (imported before forking)
    import vyxal.helpers  # noqa: F401
    U, nu = unary_items(env)
    S, ns = string_items(env)
    B, nb = binary_items(env)
    SB = string_pairs(env)
    T, nt = tree_items(env)
    M, nm = matrix_items(env)
    C = chain_items(env)
    X, x_dist = mixed_items(env)
    UR = evaluate(env, impl_unary, U, "unary builtins")
    SR = evaluate(env, impl_unary, S, "unary builtins (string)")
    BR = evaluate(env, impl_binary, B, "binary builtins")
    SBR = evaluate(env, impl_binary, SB, "binary builtins (string)")
    TR = evaluate(env, impl_tree, T, "flatten/max/min")
    MR = evaluate(env, impl_matrix, M, "transpose")
    CR = evaluate(env, impl_chain, C, "pipeline")
    XR = evaluate(env, impl_mixed, X, "builtins on lists of numbers, strings and lists")
    # the observed family: oracle only (the model has no notion of an argument's state; the
    # expected answers are those of the list the argument denotes)
    OB, ob_dense = observed_items(env)
    OB["chain"] = observed_chains(env, C)
    OB["mixed"] = [(it, random_spec(env.rng, [len(it[0])], 0.5 if lazy_somewhere(it[0], it[2]) else 0.0))
                   for it in env.rng.sample(X, min(len(X), env.budget(200, 1500)))]
    OFN = {"unary": impl_unary_obs, "string": impl_unary_obs, "binary": impl_binary_obs, "tree": impl_tree_obs,
           "matrix": impl_matrix_obs, "chain": impl_chain_obs, "mixed": impl_mixed_obs}
    OBR = {g: evaluate(env, OFN[g], OB[g], f"{g} builtins, observed argument / repeated call") for g in OB}

    def live(items, res):
        keep = [(i, r) for i, r in zip(items, res) if r is not None]
        return [i for i, _ in keep], [r for _, r in keep]
    U, UR = live(U, UR)
    S, SR = live(S, SR)
    B, BR = live(B, BR)
    SB, SBR = live(SB, SBR)
    T, TR = live(T, TR)
    M, MR = live(M, MR)
    C, CR = live(C, CR)
    X, XR = live(X, XR)

    o = Oracle(env)
    for it, r in zip(U, UR):
        o.unary(it, r)
    for it, r in zip(S, SR):
        o.unary(it, r)
    for it, r in zip(B, BR):
        o.binary(it, r)
    for it, r in zip(SB, SBR):
        o.binary(it, r)
    for t, r in zip(T, TR):
        o.tree(t, r)
    for m, r in zip(M, MR):
        o.matrix(m, r)
    for c, r in zip(C, CR):
        o.chain(c, r)
    for x, r in zip(X, XR):
        o.mixed(x, r)
    before = sum(o.n.values())
    OLAW = {"unary": o.unary, "string": o.unary, "binary": o.binary, "tree": o.tree, "matrix": o.matrix, "chain": o.chain, "mixed": o.mixed}
    for g in OB:
        OB[g], OBR[g] = live(OB[g], OBR[g])
        for (it, obs), r in zip(OB[g], OBR[g]):
            OLAW[g](it, r, obs=obs)
    observed_evaluations = sum(o.n.values()) - before
    stats = correspondence(env, U, UR, B, BR, T, TR, M, MR) if with_model else {}

    keys = ([f"u:{it[0]}:{it[3]}" for it in U if it[0]] + [f"s:{it[0]}" for it in S if it[0]] + [f"b:{a}|{b}|{pa}{pb}" for a, b, pa, pb in B if a or b]
            + [f"sb:{a}|{b}" for a, b, _, _ in SB if a or b] + [f"t:{t}:{pat}" for t, pat in T if t] + [f"m:{m}:{pat}" for m, pat in M if m]
            + [f"c:{c}" for c, r in zip(C, CR) if not r.get("skipped")] + [f"x:{it[0]}:{it[2]}" for it in X]
            + [f"o:{g}:{it}:{obs}" for g in OB for (it, obs), r in zip(OB[g], OBR[g]) if it[0] and not r.get("skipped")])
    env.count(sum(o.n.values()) + sum(stats.values()), keys)
    env.note("oracle_law_evaluations_per_builtin", dict(sorted(o.n.items())))
    env.note("oracle_failures_per_law", dict(sorted(o.reported.items())))
    env.note("correspondence_cases", stats)
    env.note("input_distribution", {
        "integer_lists": {"exhaustive_over_-2..3_up_to_length": env.budget(3, 5), "exhaustive": nu, "random_to_length_12": len(U) - nu,
                          "length_histogram": dict(sorted(collections.Counter(len(it[0]) for it in U).items()))},
        "strings": {"exhaustive_over_ab1": ns, "random_to_length_12": len(S) - ns},
        "pairs_of_lists": {"exhaustive": nb, "random": len(B) - nb, "string_pairs": len(SB)},
        "nested_lists": {"all_shapes_up_to_nodes": env.budget(5, 7), "shapes_enumerated": nt, "inputs_(tree,representation)": len(T),
                         "distinct_trees": len({repr(t) for t, _ in T}),
                         "by_representation": dict(sorted(collections.Counter(p if isinstance(p, str) else "per-node random" for _, p in T).items())),
                         "depth_histogram": dict(sorted(collections.Counter(N.nesting_depth(t) for t, _ in T).items()))},
        "matrices": {"all_ragged_shapes_le_3x3": nm, "random": len(M) - nm},
        "numeric_extremes": {"lists_with_an_extreme_item": sum(1 for it in U if any(N.is_extreme(x) or N.float_twins(x) for x in it[0])),
                             "lists_with_two_float_equal_distinct_items": sum(1 for it in U if any(y in N.float_twins(x) for x in it[0] for y in it[0])),
                             "lists_handed_over_as_LazyList": sum(1 for it in U if it[3] == "l"),
                             "nested_with_extreme_leaf": sum(1 for t, _ in T if any(N.is_extreme(x) or N.float_twins(x) for x in N.leaves_of(t)))},
        "pipelines": {"chains": len(C), "skipped_too_large": sum(1 for r in CR if r.get("skipped")),
                      "producer_steps_applied": dict(sorted(collections.Counter(op for r in CR for op in r.get("applied", [])).items())),
                      "intermediate_depth_histogram": dict(sorted(collections.Counter(depth_of(r["intermediate"]) for r in CR if not r.get("skipped")).items()))},
        "observed_arguments_and_repeated_calls": {
            "what": "every builtin of every group on arguments whose LazyLists were looked at before the call, and called repeatedly on the same objects; "
                    "expected answers = those of the denoted list",
            "observations": {"without_position": list(OBS_PLAIN), "with_position_k_in_0..n+1": list(OBS_K), "another_builtin_first": list(PRIOR_BUILTINS)},
            "call_modes": list(CALL_MODES), "pairs_with_one_object_in_both_places": sum(1 for _, sp in OB["binary"] if sp.get("same_object")), "left_out_pending_findings": PENDING_FINDINGS,
            "inputs_per_group": {g: len(OB[g]) for g in OB}, "of_which_dense_sweep": ob_dense,
            "dense_sweep": "lists [1..n] and a list with duplicates, n < %d, every observation with every k, every call mode; pairs up to length %d; "
                           "nested shapes up to %d nodes and ragged matrices up to 3x2, one observation of each kind each" % (env.budget(5, 7), env.budget(3, 4) - 1, env.budget(4, 5)),
            "by_observation": dict(sorted(collections.Counter(ob[0] if ob else "none" for g in OB for _, sp in OB[g] for ob in sp["observe"]).items())),
            "by_call_mode": dict(sorted(collections.Counter(sp["call"] for g in OB for _, sp in OB[g]).items())),
            "law_evaluations": observed_evaluations},
        "lists_of_numbers_strings_and_lists": dict(x_dist, **{
            "what": "uniquify counts group count contains find (items equal iff same kind and equal) on lists where a value meets the string that spells it "
                    "(bases %s and their spellings, awkward strings, at every nesting level); sum product cumsum deltas == the left fold / scan / adjacent pairs "
                    "written out with the repository's add / multiply / subtract on lists mixing numbers (0, 1 ...) with strings and nested lists" % (list(N.TWIN_BASES + LIST_TWIN_BASES),),
            "fold_alphabet": list(FOLD_ALPHA), "inputs": len(X), "with_a_value_and_its_twin_in_one_list": sum(1 for it in X if N.has_twin_pair(it[0])),
            "with_a_number_and_a_list_or_string_at_top_level": sum(1 for it in X if len({kind_of(y) for y in it[0]}) > 1 and any(kind_of(y) == "num" for y in it[0])),
            "with_0_or_1_and_a_non_number": sum(1 for it in X if any(y in (0, 1) for y in it[0] if kind_of(y) == "num") and any(kind_of(y) != "num" for y in it[0])),
            "fold_builtins_run_on": sum(1 for r in XR if "product" in r), "queries": sum(len(it[1]) for it in X),
            "by_representation": dict(sorted(collections.Counter(it[2] if isinstance(it[2], str) else "per-node random" for it in X).items()))}),
        "permutations_only_up_to_length": PERM_CAP, "powerset_only_up_to_length": POWER_CAP,
        "count/contains/find_queries_per_list": "first 4 distinct items + one absent value", "wrap_k": "0,1,2,3,n-1,n,n+1",
    })
    mid = nu // 2
    env.sample(J({"list": U[mid][0], "sort": UR[mid]["sort"], "uniquify": UR[mid]["uniquify"], "grade_up": UR[mid]["grade_up"]}))
    env.sample(J({"list": U[-1][0], "max": UR[-1]["max"], "min": UR[-1]["min"], "sort": UR[-1]["sort"]}))
    env.sample(J({"list": U[nu + 1][0], "cumsum": UR[nu + 1]["cumsum"], "group": UR[nu + 1]["group"], "wrap": [list(w) for w in UR[nu + 1]["wrap"]][:2]}))
    env.sample(J({"pair": list(B[-1][:2]), "zip": BR[-1]["zip"], "interleave": BR[-1]["interleave"]}))
    env.sample(J({"nested": shown(*T[-1]), "flatten": TR[-1]["flatten"]}))
    env.sample(J({"rows": shown(*M[-1]), "transpose": MR[-1]["transpose"]}))
    env.sample(J({"pipeline": {"start": shown(C[0][0], C[0][1]), "ops": C[0][2]}, "value": CR[0].get("intermediate"), "flatten": CR[0].get("flatten")}))
    env.sample({"string": S[-1][0], "sublists": repr(SR[-1]["sublists"])[:120]})
    env.sample(J({"observed": with_obs(shown(OB["unary"][-1][0][0], OB["unary"][-1][0][3]), OB["unary"][-1][1]), "powerset": OBR["unary"][-1]["powerset"],
                  "sort": OBR["unary"][-1]["sort"]}))
    env.assume("the Gallina definitions of Model/ListOps.v equal the Python builtins on integer lists (checked by the correspondence on the listed inputs, not proved)")
    env.assume("items of the model are integers (Z): Python int / sympy Integer arithmetic and comparison are exact; non-integer rationals, strings and the representation of nested inputs (list / LazyList) are covered by the oracle only, which compares exactly (int / Fraction)")
    env.assume("LazyList results are forced completely before comparison (laziness itself is property C13/C14)")
    env.assume("cartesian_product is compared exactly (order included) against the anti-diagonal model cart_diag and as a sorted multiset against the row-major cart; the laws are proved for both (C16_cartesian_diagonal_permutation)")


def search_without_tables(env):
    """The translator failed (nothing was built): the laws are still checked on the implementation."""
    run(env, with_model=False)
