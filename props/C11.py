"""C11 — input is a cyclic stream shared by explicit and implicit reads.

Deciding method: theorems in coq/Properties/C11.v about the model coq/Model/Input.v
(get_input, pop's input fallback, the `?` template, scope push/pop) for histories of
any length.  This file ties the model to /repo:

 (1) read histories applied to the REAL Context / get_input / pop, the `?` template
     text taken from the element table and the scope push / pop statements taken
     from the text the transpiler emits for a lambda and for a named function;
     every value read and the final ctx.inputs are compared with the model by
     vm_compute inside Coq;
 (2) the same kind of history compiled to Vyxal programs (`?`, `⅛`, `"`, `W`,
     nested `λ…;†`, `@f:n|…;` / `@f;`), run through execute_vyxal; the recorded
     values are decoded back into a history and compared with the model in Coq;
 (3) the property stated directly on the implementation (oracle): k-th read served
     by the program's inputs == inputs[k mod n], 0 without inputs, implicit reads in
     a call cycle over the call's arguments, explicit reads inside still advance the
     shared cursor; plus programs with `+`, `_` whose results only show sums;
 (4) the same oracle on programs in which every kind of body (λ, ƛ ' µ, named function,
     for / while loop, if) is left early in every way (`X`, `x`, recursion) and reads
     follow at the outer level and in an enclosing call.
"""
from __future__ import annotations

import collections
import contextlib
import io
import itertools
import re
import sys
import time

from vlib import common as V

INPUT_LISTS = [[], [3], [3, 4], [3, 4, 5], [3, 4, 5, 6]]


# ----------------------------------------------------------------------------
# the property, stated on its own (used by the oracle only)
# ----------------------------------------------------------------------------

class Spec:
    """The cyclic-stream property: one cursor for the program's inputs, one per call."""

    def __init__(self, ins):
        self.ins = list(ins)
        self.k = 0                # reads served by the program's inputs so far
        self.calls = []           # [values in serving order, reads so far]

    def top(self):
        if not self.ins:
            return 0
        v = self.ins[self.k % len(self.ins)]
        self.k += 1
        return v

    def explicit(self):
        return self.top()

    def implicit(self):
        if not self.calls:
            return self.top()
        vals, c = self.calls[-1]
        if not vals:
            return 0
        self.calls[-1][1] += 1
        return vals[c % len(vals)]

    def enter(self, callee_stack):
        # the call's arguments are served top of the callee's stack first
        self.calls.append([list(callee_stack)[::-1], 0])

    def exit(self):
        self.calls.pop()


def oracle_events(ins, evs):
    """evs: list of (op, arg, vals) with op in E I N X.  Returns the first violation
    of the property as text, or None."""
    sp = Spec(ins)
    for i, (op, arg, vals) in enumerate(evs):
        if op == "E":
            exp = [sp.explicit()]
        elif op == "I":
            exp = [sp.implicit() for _ in range(arg)]
        elif op == "N":
            sp.enter(arg)
            exp = []
        else:
            sp.exit()
            exp = []
        if list(vals) != exp:
            where = "top level" if not sp.calls else f"call depth {len(sp.calls) + 1}"
            if op == "I" and sp.calls and not sp.calls[-1][0]:
                where += " (a call without arguments: nothing to cycle over, the implementation's 0 is the baseline)"
            return f"operation {i} ({op}{'' if arg is None else arg}) at {where} read {list(vals)}, the property requires {exp}"
    return None


# ----------------------------------------------------------------------------
# (1) histories on the real objects
# ----------------------------------------------------------------------------

def canon_val(v):
    import sympy
    if isinstance(v, bool):
        return ("bool", v)
    if isinstance(v, int):
        return v
    if isinstance(v, sympy.Integer):
        return int(v)
    if isinstance(v, (list, tuple)):
        return [canon_val(x) for x in v]
    return ("other", type(v).__name__, str(v)[:40])


class Templates:
    """Statements of the anchored templates, taken from the current sources."""

    def __init__(self):
        V.import_repo()
        import vyxal.elements as E
        import vyxal.helpers as H
        import vyxal.transpile as T
        from vyxal.context import Context
        self.Context = Context
        self.H = H
        self.ns = dict(vars(E))
        self.ns.update({k: v for k, v in vars(H).items() if not k.startswith("__")})
        self.problems = []
        q = E.elements.get("?")
        self.qmark = q[0] if q else None
        if self.qmark is None:
            self.problems.append("no `?` entry in the element table")
        lam = T.transpile("λ;")
        fun = T.transpile("@fa:1|;")
        self.lam_push = self._one(lam, r"ctx\.inputs\.append\(", "lambda scope push")
        self.lam_pop = self._one(lam, r"ctx\.inputs\.pop\(\)", "lambda scope pop")
        self.fun_push = self._one(fun, r"ctx\.inputs\.append\(", "function scope push")
        self.fun_pop = self._one(fun, r"ctx\.inputs\.pop\(\)", "function scope pop")

    def _one(self, text, pat, what):
        lines = [l.strip() for l in text.splitlines() if re.search(pat, l)]
        if len(lines) != 1:
            self.problems.append(f"{what}: expected one statement matching {pat!r} in the emitted text, found {len(lines)}")
            return None
        return lines[0]


def apply_history(tp, ins, hist):
    """Run a history on a fresh real Context.  Returns (events, final_inputs, use_top_input, error)."""
    ctx = tp.Context()
    ctx.inputs[0][0] = list(ins)          # execute_vyxal: ctx.inputs[0][0] = inputs
    evs = []
    try:
        for op in hist:
            if op[0] == "E":
                stack = []
                exec(tp.qmark, tp.ns, {"stack": stack, "ctx": ctx})
                # exec with separate locals: `lhs` lands in the locals dict, stack is shared
                evs.append(("E", None, [canon_val(x) for x in stack]))
            elif op[0] == "I":
                r = tp.H.pop([], op[1], ctx)
                evs.append(("I", op[1], [canon_val(r)] if op[1] == 1 else [canon_val(x) for x in r]))
            elif op[0] == "N":
                args = list(op[2])
                if op[1] == "L":
                    exec(tp.lam_push, tp.ns, {"stack": list(args), "ctx": ctx})
                else:
                    exec(tp.fun_push, tp.ns, {"parameters": list(args), "ctx": ctx})
                evs.append(("N", args, []))
            else:
                exec(tp.lam_pop if op[1] == "L" else tp.fun_pop, tp.ns, {"ctx": ctx})
                evs.append(("X", None, []))
    except Exception as e:  # noqa: BLE001
        return evs, None, None, f"{type(e).__name__}: {str(e)[:120]}"
    fin = [[[canon_val(x) for x in sc[0]], sc[1]] for sc in ctx.inputs]
    return evs, fin, bool(ctx.use_top_input), None


def enum_histories(alphabet, maxlen):
    """All well-scoped histories of length <= maxlen over the alphabet.  Enter symbols
    are ("N", kind, n): the n arguments get values determined by the position."""
    out = []

    def rec(prefix, kinds):
        out.append(list(prefix))
        if len(prefix) == maxlen:
            return
        for sym in alphabet:
            if sym[0] == "X":
                if not kinds:
                    continue
                rec(prefix + [("X", kinds[-1])], kinds[:-1])
            elif sym[0] == "N":
                p = len(prefix) + 1
                rec(prefix + [("N", sym[1], [10 * p + i for i in range(sym[2])])], kinds + [sym[1]])
            else:
                rec(prefix + [sym], kinds)

    rec([], [])
    return out


def random_history(rng, maxlen):
    n = rng.randint(1, maxlen)
    h, kinds = [], []
    for _ in range(n):
        r = rng.random()
        if r < 0.25:
            h.append(("E",))
        elif r < 0.6:
            h.append(("I", rng.choice([1, 1, 2, 2, 3, 0])))
        elif r < 0.8 and len(kinds) < 4:
            k = rng.choice("LF")
            kinds.append(k)
            h.append(("N", k, [rng.randint(0, 9) for _ in range(rng.choice([0, 1, 2, 2, 3]))]))
        elif kinds:
            h.append(("X", kinds.pop()))
        else:
            h.append(("I", 1))
    return h


def zl(l):
    return "(@nil Z)" if not l else "[" + "; ".join(str(int(x)) for x in l) + "]%Z"


def coq_op(op, arg):
    if op == "E":
        return "Explicit"
    if op == "I":
        return f"Implicit {arg}"
    if op == "N":
        return f"Enter {zl(arg)}"
    return "Exit"


def coq_case(ins, evs, fin, ut=False):
    e = "(@nil (op * list Z))" if not evs else "[" + "; ".join(f"({coq_op(o, a)}, {zl(v)})" for o, a, v in evs) + "]"
    f = "(@nil scope)" if not fin else "[" + "; ".join(f"({zl(l)}, {c})" for l, c in fin) + "]"
    return f"({zl(ins)}, {e}, {f}, {'true' if ut else 'false'})"


PRE = ("From Coq Require Import List ZArith Bool Arith.\nFrom Vy Require Import Model.Input.\n"
       "Import ListNotations.\n")


def all_ints(evs, fin):
    for _, a, vals in evs:
        if any(not isinstance(v, int) or isinstance(v, bool) for v in vals):
            return False
        if isinstance(a, list) and any(not isinstance(v, int) or isinstance(v, bool) for v in a):
            return False
    return all(all(isinstance(v, int) and not isinstance(v, bool) for v in l) and isinstance(c, int) for l, c in fin)


def hist_json(h):
    return [list(o) for o in h]


def histories_part(env, stats):
    t0 = time.time()
    tp = Templates()
    for p in tp.problems:
        env.proof_broken("template shape: " + p, "the harness takes the `?` text and the scope push/pop statements from the current sources")
    if tp.problems:
        return
    full = [("E",), ("I", 1), ("I", 2), ("I", 3), ("N", "L", 0), ("N", "L", 1), ("N", "L", 2), ("N", "F", 2), ("X",)]
    mid = [("E",), ("I", 1), ("I", 2), ("N", "L", 0), ("N", "L", 2), ("N", "F", 1), ("X",)]
    small = [("E",), ("I", 1), ("I", 2), ("N", "L", 0), ("N", "L", 2), ("X",)]
    hs = enum_histories(full, 4)
    seen = {V.canon(hist_json(h)) for h in hs}
    if env.thorough:
        for h in enum_histories(mid, 5) + enum_histories(small, 6):
            k = V.canon(hist_json(h))
            if k not in seen:
                seen.add(k)
                hs.append(h)
    hs.sort(key=len)                      # the first failing input reported is a shortest one
    stats["exhaustive_histories"] = len(hs)
    work = [(ins, h) for h in hs for ins in INPUT_LISTS]
    nrand = env.budget(3000, 40000)
    for _ in range(nrand):
        ins = [env.rng.randint(0, 9) for _ in range(env.rng.randint(0, 4))]
        work.append((ins, random_history(env.rng, 12)))
    stats["random_histories"] = nrand
    cases, metas, keys = [], [], []
    for ins, h in work:
        evs, fin, ut, err = apply_history(tp, ins, h)
        stats["len"][len(h)] += 1
        for o in h:
            stats["ops"][f"I{o[1]}" if o[0] == "I" else f"N{o[1]}{len(o[2])}" if o[0] == "N" else o[0]] += 1
        inp = {"kind": "history", "inputs": ins, "history": hist_json(h)}
        if err is not None:
            stats["caught"]["history-oracle"] += 1
            env.fail(inp, f"history on the real Context: {err}; values so far {[v for _, _, v in evs]}", cls="history-error")
            continue
        bad = oracle_events(ins, evs)
        depth = 1 + sum(1 for o in h if o[0] == "N") - sum(1 for o in h if o[0] == "X")
        nserved = sum(len(v) for (o, a, v), d in zip(evs, depths(h)) if o == "E" or (o == "I" and d == 1))
        if bad is None and ut:
            bad = "ctx.use_top_input is still set after the history: later implicit reads in a call would be served by the program inputs"
        if bad is None and (len(fin) != depth or fin[0][0] != list(ins) or fin[0][1] != (nserved if ins else 0)):
            bad = f"final ctx.inputs {fin}: the property requires {depth} scope(s) and the top-level cursor at {nserved if ins else 0}"
        if bad is not None:
            stats["caught"]["history-oracle"] += 1
            env.fail(inp, bad, cls="history")
        if not all_ints(evs, fin):
            env.disagree("history values", inp, "integers", [v for _, _, v in evs])
            continue
        cases.append(coq_case(ins, evs, fin, ut))
        metas.append((inp, [v for _, _, v in evs], fin))
        if any(v for _, _, v in evs):
            keys.append(V.canon([ins, hist_json(h)]))
    V.log(f"[C11] {len(cases)} histories applied to the real Context ({time.time() - t0:.1f}s)")
    ok, badidx, logs = env.coq_mismatches("hist", PRE, lambda lo, hi: "[" + ";\n ".join(cases[lo:hi]) + "]", "agrees", len(cases), shard=1500)
    if not ok:
        env.proof_broken("history correspondence cases failed to evaluate", logs)
    stats["caught"]["history-model-correspondence"] += len(badidx)
    for i in badidx:
        inp, vals, fin = metas[i]
        env.disagree("get_input/pop/? /scope history", inp, "(model disagrees)", {"values": vals, "final_inputs": fin})
    env.count(len(cases), keys)
    V.log(f"[C11] histories compared inside Coq ({time.time() - t0:.1f}s)")
    if metas:
        m = metas[len(metas) // 3]
        env.sample({"history_case": m[0], "values_read": m[1], "final_ctx_inputs": m[2]})


def depths(h):
    d, out = 1, []
    for o in h:
        out.append(d)
        if o[0] == "N":
            d += 1
        elif o[0] == "X":
            d -= 1
    return out


# ----------------------------------------------------------------------------
# (2)/(3) programs
# ----------------------------------------------------------------------------
# Items (every item starts and ends with an empty stack; ⅛ records the popped value in
# the global array, which is what we observe):
#   ("E",)          ?⅛        one explicit read
#   ("I", k)        ⅛ / "⅛ / ""⅛   k = 1..3 implicit reads (pair(lhs, rhs) = [later read, earlier read])
#   ("EW", m)       ?…?W⅛     m explicit reads, wrapped
#   ("P",) ("D",) ("EP",)   +⅛  _  ?+⅛   lossy: only a sum / nothing is recorded
#   ("L", arity, lits, body)   lits λarity|⅛…⅛ body ;†⅛   lambda call; the missing arguments are
#                   read implicitly at the caller's depth; the lambda ends with an implicit read
#   ("F", arity, lits, body, name)   lits @name;   with   @name:arity|⅛…⅛ body ;   defined up front

NAMES = ["fa", "fb", "fc", "fd", "fe", "ff", "fg", "fh"]


def gen_items(rng, depth, lossy, names, budget):
    items = []
    n = rng.randint(1, 4) if depth == 1 else rng.randint(0, 3)
    for _ in range(n):
        if budget[0] <= 0:
            break
        budget[0] -= 1
        r = rng.random()
        if lossy and r < 0.3:
            items.append((rng.choice(["P", "D", "EP"]),))
        elif r < 0.22:
            items.append(("E",))
        elif r < 0.5:
            items.append(("I", rng.choice([1, 1, 2, 3])))
        elif r < 0.58:
            items.append(("EW", rng.choice([2, 3])))
        elif depth < 4:
            arity = rng.choice([0, 1, 1, 2, 2, 3])
            nl = rng.randint(0, arity)
            lits = [10 * depth + 1 + i + 3 * rng.randint(0, 1) for i in range(nl)]
            body = gen_items(rng, depth + 1, lossy, names, budget)
            if rng.random() < 0.35 and names:
                items.append(("F", arity, lits, body, names.pop()))
            else:
                items.append(("L", arity, lits, body, rng.random() < 0.5))
        else:
            items.append(("I", 1))
    return items


def compile_items(items, defs):
    out = []
    for it in items:
        k = it[0]
        if k == "E":
            out.append("?⅛")
        elif k == "I":
            out.append({0: "", 1: "⅛", 2: "\"⅛", 3: "\"\"⅛"}[it[1]])
        elif k == "EW":
            out.append("?" * it[1] + "W⅛")
        elif k == "P":
            out.append("+⅛")
        elif k == "D":
            out.append("_")
        elif k == "EP":
            out.append("?+⅛")
        elif k == "L":
            _, arity, lits, body, short = it
            head = "λ" if (arity == 1 and short) else f"λ{arity}|"
            pre = " ".join(str(x) for x in lits)
            out.append((" " + pre if pre else "") + head + "⅛" * arity + compile_items(body, defs) + ";†⅛")
        else:
            _, arity, lits, body, name = it
            defs.append(f"@{name}:{arity}|" + "⅛" * arity + compile_items(body, defs) + ";")
            pre = " ".join(str(x) for x in lits)
            out.append((" " + pre if pre else "") + f"@{name};")
    return "".join(out)


def expected_records(items, sp, recs):
    """What the property predicts the global array to be."""
    for it in items:
        k = it[0]
        if k == "E":
            recs.append(sp.explicit())
        elif k == "I":
            v = [sp.implicit() for _ in range(it[1])]
            if it[1] == 1:
                recs.append(v[0])
            elif it[1] == 2:
                recs.append([v[1], v[0]])
            elif it[1] == 3:
                recs.append([v[2], [v[1], v[0]]])
        elif k == "EW":
            recs.append([sp.explicit() for _ in range(it[1])])
        elif k == "P":
            recs.append(sp.implicit() + sp.implicit())
        elif k == "D":
            sp.implicit()
        elif k == "EP":
            x = sp.explicit()
            recs.append(x + sp.implicit())
        else:
            arity, lits, body = it[1], it[2], it[3]
            reads = [sp.implicit() for _ in range(arity - len(lits))]
            callee = lits[::-1] + reads            # bottom .. top, as wrapify returns it
            sp.enter(callee)
            recs.extend(callee[::-1][:arity])      # ⅛ × arity pops the callee's stack top first
            expected_records(body, sp, recs)
            if k == "L":
                v = sp.implicit()                  # res = [pop(stack, 1, ctx)] on the empty stack
                sp.exit()
                recs.append(v)
            else:
                sp.exit()


class Shape(Exception):
    pass


def _int(x):
    if isinstance(x, bool) or not isinstance(x, int):
        raise Shape(f"expected an integer record, got {x!r}")
    return x


def decode(items, recs, evs):
    """Turn the recorded values back into (op, arg, vals) events (lossless items only)."""
    def nxt():
        try:
            return next(recs)
        except StopIteration:
            raise Shape("too few records") from None
    for it in items:
        k = it[0]
        if k == "E":
            evs.append(("E", None, [_int(nxt())]))
        elif k == "I":
            r = nxt() if it[1] else None
            if it[1] == 1:
                vals = [_int(r)]
            elif it[1] == 2:
                if not (isinstance(r, list) and len(r) == 2):
                    raise Shape(f"expected a pair, got {r!r}")
                vals = [_int(r[1]), _int(r[0])]
            elif it[1] == 3:
                if not (isinstance(r, list) and len(r) == 2 and isinstance(r[1], list) and len(r[1]) == 2):
                    raise Shape(f"expected [c, [b, a]], got {r!r}")
                vals = [_int(r[1][1]), _int(r[1][0]), _int(r[0])]
            else:
                vals = []
            evs.append(("I", it[1], vals))
        elif k == "EW":
            r = nxt()
            if not (isinstance(r, list) and len(r) == it[1]):
                raise Shape(f"expected {it[1]} wrapped values, got {r!r}")
            for v in r:
                evs.append(("E", None, [_int(v)]))
        elif k in ("L", "F"):
            arity, lits, body = it[1], it[2], it[3]
            served = [_int(nxt()) for _ in range(arity)]
            callee = served[::-1]
            if callee[:len(lits)] != lits[::-1]:
                raise Shape(f"callee stack {callee} does not start with the literals {lits[::-1]}")
            reads = callee[len(lits):]
            if reads:
                evs.append(("I", len(reads), reads))
            evs.append(("N", callee, []))
            decode(body, recs, evs)
            if k == "L":
                evs.append(("I", 1, [_int(nxt())]))
            evs.append(("X", None, []))
        else:
            raise Shape("lossy item")


def run_program(job):
    """(program text, inputs as strings) -> (global array, final ctx.inputs), canonical."""
    prog, inputs = job
    import vyxal.main as M
    cap = {}

    def prof(frame, event, arg):
        if event == "return" and frame.f_code is M.execute_vyxal.__code__:
            cap["ctx"] = frame.f_locals.get("ctx")

    out = io.StringIO()
    sys.setprofile(prof)
    try:
        with contextlib.redirect_stdout(out):
            M.execute_vyxal(prog, "e", list(inputs))
    finally:
        sys.setprofile(None)
    c = cap["ctx"]
    return ([canon_val(x) for x in c.global_array],
            [[[canon_val(x) for x in sc[0]], sc[1]] for sc in c.inputs],
            bool(c.use_top_input))


def count_ops(items, c):
    for it in items:
        c[it[0] if it[0] != "I" else f"I{it[1]}"] += 1
        if it[0] in ("L", "F"):
            count_ops(it[3], c)


def programs_part(env, stats):
    V.import_repo()
    jobs = []
    fixed = [
        ([("E",), ("I", 1), ("I", 2), ("I", 3)], [3, 4, 5]),
        ([("I", 2), ("E",)], []),
        ([("L", 2, [11, 12], [("I", 3), ("E",), ("I", 1)], False), ("I", 1)], [7, 8]),
        ([("L", 0, [], [("I", 2), ("E",)], False), ("E",)], [7, 8]),
        ([("F", 2, [11], [("I", 1), ("F", 1, [], [("I", 2)], "fb"), ("I", 1)], "fa"), ("I", 1)], [7, 8]),
        ([("L", 1, [], [("I", 1), ("L", 1, [], [("I", 2), ("E",)], True), ("I", 2)], True), ("I", 2)], [7, 8, 9]),
        ([("EW", 3), ("P",), ("D",), ("I", 1), ("EP",)], [7, 8, 9]),
        ([("L", 1, [], [("I", 1), ("EP",), ("D",), ("I", 1)], True)], [7, 8]),
    ]
    for items, ins in fixed:
        jobs.append((items, ins))
    n = env.budget(1200, 12000)
    for i in range(n):
        lossy = i % 4 == 3
        names = list(NAMES)
        env.rng.shuffle(names)
        items = gen_items(env.rng, 1, lossy, names, [env.rng.randint(2, 12)])
        if i % 7 == 0:
            ins = [env.rng.randint(0, 9) for _ in range(env.rng.randint(0, 4))]
        else:
            ins = list(env.rng.choice(INPUT_LISTS))
        jobs.append((items, ins))
    texts = []
    for items, ins in jobs:
        defs = []
        body = compile_items(items, defs)
        texts.append(("".join(defs) + body + "¾", [str(x) for x in ins]))
    t0 = time.time()
    res = V.pmap(run_program, texts, timeout=10)
    V.log(f"[C11] {len(texts)} programs run ({time.time() - t0:.1f}s)")
    cases, metas, keys = [], [], []
    for (items, ins), (prog, _), (status, val) in zip(jobs, texts, res):
        inp = {"kind": "program", "program": prog, "inputs": [str(x) for x in ins]}
        count_ops(items, stats["prog_items"])
        if status != "ok":
            stats["caught"]["program-oracle"] += 1
            env.fail(inp, f"program does not finish normally: {status} {val}", cls="program-error")
            continue
        got, fin, ut = val
        sp = Spec(ins)
        exp = []
        expected_records(items, sp, exp)
        if got != exp:
            stats["caught"]["program-oracle"] += 1
            env.fail(inp, f"recorded reads {got}; the property requires {exp} (⅛ records each value read; pairs are [later, earlier])", cls="program")
        elif fin != [[list(ins), sp.k]] or ut:
            stats["caught"]["program-oracle"] += 1
            env.fail(inp, f"final ctx.inputs {fin} use_top_input={ut}; the property requires one scope with the cursor at {sp.k}", cls="program")
        lossy = any(True for _ in _lossy(items))
        if lossy:
            env.count(1, [V.canon([prog, ins])])
            continue
        evs = []
        try:
            decode(items, iter(got), evs)
        except Shape as e:
            env.disagree("program records", inp, f"records of the expected shape ({e})", got)
            continue
        if not all_ints(evs, fin):
            env.disagree("program records", inp, "integers", got)
            continue
        bad = oracle_events(ins, evs)
        if bad is not None:
            stats["caught"]["program-decoded-oracle"] += 1
            env.fail(inp, "decoded history " + str([(o, a, v) for o, a, v in evs]) + ": " + bad, cls="program")
        stats["prog_len"][len(evs)] += 1
        cases.append(coq_case(ins, evs, fin, ut))
        metas.append((inp, evs, fin))
        keys.append(V.canon([prog, ins]))
    ok, badidx, logs = env.coq_mismatches("prog", PRE, lambda lo, hi: "[" + ";\n ".join(cases[lo:hi]) + "]", "agrees", len(cases), shard=800)
    if not ok:
        env.proof_broken("program correspondence cases failed to evaluate", logs)
    stats["caught"]["program-model-correspondence"] += len(badidx)
    for i in badidx:
        inp, evs, fin = metas[i]
        env.disagree("program vs model", inp, "(model disagrees)", {"decoded": [[o, a, v] for o, a, v in evs], "final_inputs": fin})
    env.count(len(cases), keys)
    stats["programs"] = len(jobs)
    if metas:
        m = metas[min(len(metas) - 1, 5)]
        env.sample({"program_case": m[0], "decoded_history": [[o, a, v] for o, a, v in m[1]]})
        m = max(metas[:400], key=lambda x: len(x[1]))
        env.sample({"program_case": m[0], "decoded_history": [[o, a, v] for o, a, v in m[1]]})


def _lossy(items):
    for it in items:
        if it[0] in ("P", "D", "EP"):
            yield it
        elif it[0] in ("L", "F"):
            yield from _lossy(it[3])


# ----------------------------------------------------------------------------
# (4) scopes that are LEFT EARLY, followed by reads (oracle only)
# ----------------------------------------------------------------------------
# Family added after a seeded change that dropped `ctx.inputs.pop()` from the code emitted
# for `X` inside a λ: parts (1)-(3) only ever left a call through its normal epilogue, so
# a scope push / pop that is unbalanced on another way out of a body was invisible.
# General family: every kind of body the language has (λ…;† of every written arity, the
# map / filter / sort lambdas ƛ…; '…; µ…;, named functions, for loops, both forms of while
# loop, ifs, nested in each other) is left in every way the language offers (`X`, `x`,
# directly, under an executed / skipped / input-dependent `[…]`, from a loop nested in the
# body, from a recursive call made with `x`), and reads of every kind follow at the outer
# level and inside an enclosing call.  Nothing is specific to one element or one kind of
# body: the same exits and the same following reads are applied to all of them.
#
# Additional items (the stack is empty between items, so every pop is an implicit read):
#   ("X",) ("x",)          the early-exit elements, wherever they are written
#   ("REC",)               ¥0>[¥‹£x⅛]   guarded recursion, only written directly in a λ body
#   ("SR", k)              k£           set the register (recursion / while budget)
#   ("IF", cond, then, else)   cond [then|else]   cond: ("lit", 0|1) | ("E",) | ("I",)
#   ("FOR", cnt, body)     cnt (body)             cnt like cond
#   ("WH", k, form, body)  k£{¥‹£¥0<[X] body}  (form "inf")   k£{¥0>|¥‹£ body}  (form "cond")
#   ("MAP", op, lits, body)    ⟨a|b⟩ op ⅛ body ; ∑⅛   (µ: …;⅛)   op in ƛ ' µ, one call per item
#   ("L", …) ("F", …)      as above, bodies may hold every item
# What `X` / `x` do to the CONTROL FLOW is not part of this property; the interpreter below
# takes it as the language has it (env.assume): X returns from a λ (after the λ's implicit
# read of its result), breaks a loop, and does nothing in ƛ ' µ bodies, named functions and
# at top level; x calls the enclosing λ again, continues a for loop, reads nothing elsewhere.
# `x` is not written where it would refer to a WHILE loop: the emitted `continue` skips the
# re-evaluation of the loop condition and the loop then goes on or stops depending on the
# Python variable `condition` that every `[…]` of the body also assigns - which iterations
# run is a control-flow matter outside this property (the reads that do happen are cyclic).

class _Break(Exception):
    pass


class _Continue(Exception):
    pass


class _Return(Exception):
    pass


class OutOfFuel(Exception):
    pass


BASE_KINDS = ("E", "I", "EW", "P", "D", "EP")


def xcompile(items, defs):
    out = []
    for it in items:
        k = it[0]
        if k in BASE_KINDS:
            out.append(compile_items([it], defs))
        elif k == "X":
            out.append("X")
        elif k == "x":
            out.append("x")
        elif k == "REC":
            out.append("¥0>[¥‹£x⅛]")
        elif k == "SR":
            out.append(f" {it[1]}£")
        elif k == "IF":
            out.append(_cond_text(it[1]) + "[" + xcompile(it[2], defs) + ("" if it[3] is None else "|" + xcompile(it[3], defs)) + "]")
        elif k == "FOR":
            out.append(_cond_text(it[1]) + "(" + xcompile(it[2], defs) + ")")
        elif k == "WH":
            out.append(f" {it[1]}£" + "{" + ("¥‹£¥0<[X]" if it[2] == "inf" else "¥0>|¥‹£") + xcompile(it[3], defs) + "}")
        elif k == "MAP":
            _, op, lits, body = it
            out.append("⟨" + "|".join(str(x) for x in lits) + "⟩" + op + "⅛" + xcompile(body, defs) + ";" + ("⅛" if op == "µ" else "∑⅛"))
        elif k == "L":
            _, arity, lits, body, short = it
            head = "λ" if (arity == 1 and short) else f"λ{arity}|"
            pre = " ".join(str(x) for x in lits)
            out.append((" " + pre if pre else "") + head + "⅛" * arity + xcompile(body, defs) + ";†⅛")
        elif k == "F":
            _, arity, lits, body, name = it
            defs.append(f"@{name}:{arity}|" + "⅛" * arity + xcompile(body, defs) + ";")
            pre = " ".join(str(x) for x in lits)
            out.append((" " + pre if pre else "") + f"@{name};")
        else:
            raise ValueError(it)
    return "".join(out)


def _cond_text(c):
    return f" {c[1]}" if c[0] == "lit" else "?" if c[0] == "E" else ""


class XState:
    def __init__(self, fuel=250):
        self.reg = 0          # ctx.register starts at 0
        self.fuel = fuel
        self.exits = collections.Counter()   # (way out, kind of body) actually taken
        self.reads_after_exit = 0


def _cond_val(c, sp):
    return c[1] if c[0] == "lit" else sp.explicit() if c[0] == "E" else sp.implicit()


def xexpect(items, sp, recs, kind, lam, st):
    """The cyclic-stream property applied to a program of the family: appends to recs what
    the global array must hold.  kind: what an early exit written here refers to
    ("lam" a λ body, "loop" a for loop, "loopw" a while loop, "other" everything else);
    an `[…]` passes the kind of its surroundings on."""
    for it in items:
        st.fuel -= 1
        if st.fuel < 0 or len(recs) > 400:
            raise OutOfFuel()
        k = it[0]
        if k in BASE_KINDS:
            expected_records([it], sp, recs)
            if st.exits and k != "D":
                st.reads_after_exit += 1
        elif k == "X":
            if kind == "lam":
                st.exits["X", "λ"] += 1
                raise _Return()
            if kind in ("loop", "loopw"):
                st.exits["X", "for" if kind == "loop" else "while"] += 1
                raise _Break()
        elif k == "x":
            if kind == "loop":
                st.exits["x", "for"] += 1
                raise _Continue()
            if kind in ("lam", "loopw"):
                raise ValueError("bare x in a λ body or a while loop: the generator does not write it")
        elif k == "REC":
            if st.reg > 0:
                st.reg -= 1
                st.exits["x", "λ"] += 1
                _call_lambda(lam, [], sp, recs, st)
        elif k == "SR":
            st.reg = it[1]
        elif k == "IF":
            if _cond_val(it[1], sp):
                xexpect(it[2], sp, recs, kind, lam, st)
            elif it[3] is not None:
                xexpect(it[3], sp, recs, kind, lam, st)
        elif k == "FOR":
            n = _cond_val(it[1], sp)
            for _ in range(max(0, n)):
                try:
                    xexpect(it[2], sp, recs, "loop", lam, st)
                except _Break:
                    break
                except _Continue:
                    continue
        elif k == "WH":
            st.reg = it[1]
            while True:
                if it[2] == "cond" and not st.reg > 0:
                    break
                st.reg -= 1
                if it[2] == "inf" and st.reg < 0:
                    break
                st.fuel -= 1
                try:
                    xexpect(it[3], sp, recs, "loopw", lam, st)
                except _Break:
                    break
        elif k == "MAP":
            _, op, lits, body = it
            rets = []
            for v in lits:
                sp.enter([v])
                recs.append(v)
                xexpect(body, sp, recs, "other", None, st)
                rets.append(sp.implicit())          # res = [pop(stack, 1, ctx)] on the empty stack
                sp.exit()
            if op == "ƛ":
                recs.append(sum(rets))
            elif op == "'":
                recs.append(sum(v for v, r in zip(lits, rets) if r))
            else:
                recs.append([v for _, v in sorted(zip(rets, lits), key=lambda t: t[0])])
        elif k == "L":
            _call_lambda(it, it[2], sp, recs, st)
        elif k == "F":
            arity, lits, body = it[1], it[2], it[3]
            reads = [sp.implicit() for _ in range(arity - len(lits))]
            callee = lits[::-1] + reads
            sp.enter(callee)
            recs.extend(callee[::-1][:arity])
            xexpect(body, sp, recs, "other", None, st)
            sp.exit()
        else:
            raise ValueError(it)


def _call_lambda(it, lits, sp, recs, st):
    arity, body = it[1], it[3]
    reads = [sp.implicit() for _ in range(arity - len(lits))]   # missing arguments: read at the caller's depth
    callee = lits[::-1] + reads                                  # bottom .. top
    sp.enter(callee)
    recs.extend(callee[::-1][:arity])
    try:
        xexpect(body, sp, recs, "lam", it, st)
    except _Return:
        pass
    v = sp.implicit()          # the λ's result: popped from its empty stack, on both ways out
    sp.exit()
    recs.append(v)


def xgen(rng, depth, kind, names, budget, lossy):
    items = []
    n = rng.randint(2, 5) if depth == 1 else rng.randint(0, 3)
    for _ in range(n):
        if budget[0] <= 0:
            break
        budget[0] -= 1
        r = rng.random()
        if r < 0.34:
            if lossy and rng.random() < 0.3:
                items.append((rng.choice(["P", "D", "EP"]),))
            else:
                items.append(rng.choice([("E",), ("I", 1), ("I", 1), ("I", 2), ("I", 3), ("EW", 2)]))
        elif r < 0.48:
            items.append(("X",))
        elif r < 0.56:
            if kind == "lam":
                items.append(("REC",))
            elif kind != "loopw":
                items.append(("x",))
            else:
                items.append(("X",))
        elif depth >= 4:
            items.append(("I", 1))
        elif r < 0.66:
            cond = rng.choice([("lit", 0), ("lit", 1), ("lit", 1), ("E",), ("I",)])
            then = xgen(rng, depth + 1, kind, names, budget, lossy)
            els = xgen(rng, depth + 1, kind, names, budget, lossy) if rng.random() < 0.4 else None
            items.append(("IF", cond, then, els))
        elif r < 0.72:
            cnt = rng.choice([("lit", 1), ("lit", 2), ("lit", 2), ("lit", 3), ("lit", 0), ("E",), ("I",)])
            items.append(("FOR", cnt, xgen(rng, depth + 1, "loop", names, budget, lossy)))
        elif r < 0.78:
            form = rng.choice(["inf", "cond"])
            items.append(("WH", rng.randint(1, 3), form, xgen(rng, depth + 1, "loopw", names, budget, lossy)))
        elif r < 0.84:
            op = rng.choice("ƛ'µ")
            lits = rng.sample(range(10 * depth + 1, 10 * depth + 9), rng.choice([0, 1, 2, 2, 3]))
            items.append(("MAP", op, lits, xgen(rng, depth + 1, "other", names, budget, lossy)))
        else:
            arity = rng.choice([0, 1, 1, 2, 2, 3])
            nl = rng.randint(0, arity)
            lits = [10 * depth + 1 + i + 3 * rng.randint(0, 1) for i in range(nl)]
            if rng.random() < 0.25 and names:
                items.append(("F", arity, lits, xgen(rng, depth + 1, "other", names, budget, lossy), names.pop()))
            else:
                if rng.random() < 0.4:
                    items.append(("SR", rng.randint(1, 2)))
                items.append(("L", arity, lits, xgen(rng, depth + 1, "lam", names, budget, lossy), rng.random() < 0.5))
    return items


def exit_sweep():
    """Every kind of body x every way of leaving it x the reads that follow x the place the
    whole thing is written in.  Returns a list of item lists."""
    I1, I2, E, X = ("I", 1), ("I", 2), ("E",), ("X",)
    tails = [[I2], [E, I1], [I1, E, I2]]

    def ways(kind):
        again = ("REC",) if kind == "lam" else X if kind == "loopw" else ("x",)
        return [
            [],
            [X],
            [I1, X, I1],
            [("IF", ("lit", 1), [X], None), I1],
            [("IF", ("lit", 0), [X], None), I1],
            [("IF", ("E",), [X], [I1]), I1],
            [I1, ("IF", ("I",), [X, I1], None)],
            [("FOR", ("lit", 1), [X], ), I1],
            [("WH", 2, "inf", [I1, X]), I1],
            [again, I1],
            [I1, ("IF", ("lit", 1), [again], None), I1],
            [("L", 1, [31], [X], True), I1],
            [("L", 1, [], [I1, ("IF", ("lit", 1), [X], None), I1], False), X, I1],
        ]

    def bodies():
        for arity, lits in ((0, []), (1, [31]), (1, []), (2, [31, 32]), (2, [31]), (3, [])):
            yield "lam", lambda b, a=arity, l=lits: [("SR", 1), ("L", a, list(l), b, False)]
        yield "lam", lambda b: [("L", 1, [31], b, True)]
        for op in "ƛ'µ":
            yield "other", lambda b, o=op: [("MAP", o, [32, 31], b)]
        yield "other", lambda b: [("F", 1, [31], b, "fa")]
        yield "other", lambda b: [("F", 2, [], b, "fa")]
        yield "loop", lambda b: [("FOR", ("lit", 2), b)]
        yield "loop", lambda b: [("FOR", ("E",), b)]
        yield "loopw", lambda b: [("WH", 2, "inf", b)]
        yield "loopw", lambda b: [("WH", 2, "cond", b)]

    outers = [
        lambda s, t: s + t,
        lambda s, t: [("L", 1, [21], s + t, False)] + t,
        lambda s, t: [("L", 0, [], s + t, False)] + t,
        lambda s, t: [("L", 2, [], s + t, False)] + t,
        lambda s, t: [("MAP", "ƛ", [21, 22], s + t)] + t,
        lambda s, t: [("FOR", ("lit", 2), s + t)] + t,
        lambda s, t: [("F", 1, [21], s + t, "fb")] + t,
    ]
    out = []
    for kind, mk in bodies():
        for w in ways(kind):
            for t in tails:
                for o in outers:
                    out.append(o(mk(list(w)), list(t)))
    return out


EXIT_INPUT_LISTS = [[], [3], [3, 4, 5], [0, 7], [5, 0, 0, 6]]


def _count_x(items, c):
    for it in items:
        c[it[0]] += 1
        for sub in it[1:]:
            if isinstance(sub, list) and sub and isinstance(sub[0], tuple):
                _count_x(sub, c)


def exits_part(env, stats):
    V.import_repo()
    jobs = []
    sweep = exit_sweep()
    lists = EXIT_INPUT_LISTS if env.thorough else [EXIT_INPUT_LISTS[0], EXIT_INPUT_LISTS[2], EXIT_INPUT_LISTS[3]]
    for i, items in enumerate(sweep):
        if env.thorough:
            chosen = lists
        else:
            # quick tier: the three lists (none / three values / with zeros) in rotation, a second one for a random half
            chosen = [lists[i % 3]] + ([lists[(i + 1) % 3]] if env.rng.random() < 0.5 else [])
        for ins in chosen:
            jobs.append((items, ins))
    nsweep = len(jobs)
    n = env.budget(2000, 25000)
    for i in range(n):
        names = list(NAMES)
        env.rng.shuffle(names)
        items = xgen(env.rng, 1, "other", names, [env.rng.randint(4, 16)], i % 4 == 3)
        if i % 5 == 0:
            ins = [env.rng.randint(0, 9) for _ in range(env.rng.randint(0, 4))]
        else:
            ins = list(env.rng.choice(EXIT_INPUT_LISTS))
        jobs.append((items, ins))
    work, seen = [], set()
    for items, ins in jobs:
        sp, exp, st = Spec(ins), [], XState()
        try:
            xexpect(items, sp, exp, "other", None, st)
        except OutOfFuel:
            stats["exit_discarded"] += 1       # too long a run under the property's own reading: not used
            continue
        defs = []
        body = xcompile(items, defs)
        prog = "".join(defs) + body + "¾"
        key = V.canon([prog, ins])
        if key in seen:
            continue
        seen.add(key)
        work.append((prog, [str(x) for x in ins], items, ins, exp, sp.k, st))
    nrand = len(work)
    work.sort(key=lambda w: (len(w[0]), len(w[1])))      # the first failing input reported is a shortest program
    t0 = time.time()
    res = V.pmap(run_program, [(w[0], w[1]) for w in work], timeout=10)
    V.log(f"[C11] {len(work)} early-exit programs run ({time.time() - t0:.1f}s)")
    keys, late = [], []
    for (prog, sins, items, ins, exp, k, st), (status, val) in zip(work, res):
        inp = {"kind": "program", "program": prog, "inputs": sins}
        _count_x(items, stats["exit_items"])
        stats["exit_ways"].update(st.exits)
        if st.exits and st.reads_after_exit:
            stats["exit_then_read"] += 1
        if status != "ok":
            stats["caught"]["early-exit-oracle"] += 1
            env.fail(inp, f"program does not finish normally: {status} {val}", cls="exit-program-error")
            continue
        got, fin, ut = val
        if got != exp:
            stats["caught"]["early-exit-oracle"] += 1
            env.fail(inp, f"recorded reads {got}; the property requires {exp} (⅛ records each value read; pairs are [later, earlier]; "
                          f"ways out taken: {sorted(' in '.join(w) for w in st.exits)})", cls="exit-program")
        elif fin != [[list(ins), k]] or ut:
            # reported after the programs in which a value READ is wrong (those show the property's own observable)
            late.append((inp, f"final ctx.inputs {fin} use_top_input={ut}; the property requires one scope with the cursor at {k}"))
        if exp:
            keys.append(V.canon([prog, ins]))
    for inp, what in late:
        stats["caught"]["early-exit-oracle"] += 1
        env.fail(inp, what, cls="exit-program")
    env.count(len(work), keys)
    stats["exit_programs"] = len(work)
    stats["exit_sweep"] = nsweep
    if work:
        w = work[len(work) // 2]
        env.sample({"early_exit_program": {"program": w[0], "inputs": w[1]}, "required_records": w[4]})


def run(env):
    env.rule = ("(1) read histories (ops: explicit `?`, implicit pop of 0-3 missing items, lambda / function scope push with 0-3 arguments, "
                "scope pop; never a pop at depth 1) applied to the real Context with the template statements taken from the current sources: "
                "exhaustive up to length 4 over 9 symbols (thorough: plus length <= 5 over 7 and length <= 6 over 6 symbols) x the input lists of length 0..4, and random "
                "histories of length <= 12 with random inputs; every value read and the final ctx.inputs compared with the Coq model by vm_compute. "
                "(2) random programs built from ?⅛ ⅛ \"⅛ \"\"⅛ ?..?W⅛, nested λn|…;†⅛ and @f:n|…; calls with literal or implicit arguments, nesting <= 4, "
                "run through execute_vyxal; recorded values decoded to a history and compared with the model in Coq. "
                "(3) oracle on the implementation for all of the above and for programs with +⅛ _ ?+⅛: k-th read served by the program inputs == "
                "inputs[k mod n], 0 without inputs, implicit reads in a call cycle over its arguments (top of the callee's stack first), final cursor == "
                "number of reads served. "
                "(4) oracle on programs in which a body is LEFT EARLY and reads follow: every kind of body (λn|…;† with n = 0..3 and literal or implicit "
                "arguments, ƛ…; '…; µ…; over list literals, @f:n|…;, n(…), ?(…), k£{¥‹£¥0<[X]…}, k£{¥0>|¥‹£…}, c[…|…] with a literal / explicit / implicit "
                "condition) x every way out (X or x directly, after a read, under an executed / skipped / input-dependent if, from a nested loop, from a "
                "nested λ, guarded recursion ¥0>[¥‹£x⅛]) x following reads (\"⅛ | ?⅛⅛ | ⅛?⅛\"⅛) x written at top level / in a λ of arity 0, 1, 2 / in a ƛ / "
                "in a loop / in a named function, x one of 3 input lists in rotation and a second for a random half (thorough: 5 lists for all); plus random programs over the same items, nesting <= 4; the global array "
                "and the final ctx.inputs compared with the cyclic-stream specification. "
                "Non-trivial = at least one value is read; distinct by (inputs, history) or (program, inputs).")
    stats = {"len": collections.Counter(), "ops": collections.Counter(), "prog_items": collections.Counter(), "prog_len": collections.Counter(), "caught": collections.Counter(),
             "exit_items": collections.Counter(), "exit_ways": collections.Counter(), "exit_discarded": 0, "exit_then_read": 0}
    histories_part(env, stats)
    programs_part(env, stats)
    exits_part(env, stats)
    env.note("history_length_distribution", {str(k): v for k, v in sorted(stats["len"].items())})
    env.note("history_op_distribution", dict(sorted(stats["ops"].items())))
    env.note("exhaustive_histories", stats.get("exhaustive_histories", 0))
    env.note("random_histories", stats.get("random_histories", 0))
    env.note("programs", stats.get("programs", 0))
    env.note("program_item_distribution", dict(sorted(stats["prog_items"].items())))
    env.note("program_decoded_history_length_distribution", {str(k): v for k, v in sorted(stats["prog_len"].items())})
    env.note("early_exit_programs", {"run": stats.get("exit_programs", 0), "sweep_candidates": stats.get("exit_sweep", 0),
                                     "discarded_as_too_long": stats["exit_discarded"],
                                     "with_a_read_after_an_exit_taken": stats["exit_then_read"],
                                     "input_lists": EXIT_INPUT_LISTS, "random_inputs": "every 5th random program: length 0..4, values 0..9"})
    env.note("early_exit_item_distribution", dict(sorted(stats["exit_items"].items())))
    env.note("early_exit_ways_taken", {" in ".join(k): v for k, v in sorted(stats["exit_ways"].items())})
    env.note("violations_by_part", dict(sorted(stats["caught"].items())))
    env.note("input_lists", "exhaustive part: [] [3] [3,4] [3,4,5] [3,4,5,6]; random part: length 0..4, values 0..9 (duplicates and 0 included)")
    env.sample({"obligation": "C11_top: forall ins h, ins <> [] -> well_scoped h -> forall j < |top_vals|, nth j top_vals = nth (j mod |ins|) ins"})
    env.assume("stdin is empty (/dev/null): input() raises EOFError and get_input returns 0; with data on stdin reads without program inputs would consume it")
    env.assume("ctx.reverse_flag = ctx.retain_popped = False (no r flag, no retaining modifier): pop returns the items in popping order")
    env.assume("values are modelled as integers; get_input, pop and the templates never inspect the values they move")
    env.assume("histories are well scoped: ctx.inputs.pop() is only executed by a template that pushed before (never at depth 1)")
    env.assume("part (4): what X / x do to the control flow is taken as the language has it (X returns from a λ after the λ's implicit read of its result, "
               "breaks a for / while loop, does nothing in ƛ ' µ bodies, named functions and at top level; x calls the enclosing λ again, continues a for loop, "
               "reads nothing elsewhere; x referring to a while loop is not written: which iterations then run depends on the `condition` variable shared with the ifs of the body); the map / filter results are observed through ∑ only (forcing them later would move the reads)")
    env.assume("the hand-written model equals helpers.get_input / pop / the templates (checked by the correspondence, not proved)")


def search_without_tables(env):
    env.rule = "translator failed; history and program correspondence plus oracle on the implementation only"
    run(env)
