"""C09 — an element touches only the stack entries it consumes.

Deciding method: theorems in coq/Properties/C09.v.  `C09_sound` / `C09_local`: a template
tree that passes `frame_ok t k` leaves everything below the top k entries literally in
place and does not even read it, for every behaviour of the uninterpreted functions
(results, exceptions, iteration, truth tests, retain_popped / reverse_flag at every pop,
implicit input) and all fuel; `C09_table_partial`: every element template of the table
regenerated on every run by tools/gen_quirks.py (from the same template text the
transpiler emits) judged against its declared arity, and every modifier template judged
against operand arities 0..4, is a documented whole-stack operation (the list written
once in coq/Model/StackEffect.v), a finding recorded in known_findings.json, or frame_ok.

Tie to /repo: (1) the translator (trees re-derived from the current text; the text is
compared with the runtime tables `vyxal.elements.elements/modifiers`; the primitives in
each tree are recounted on the raw text); (2) evaluated inside Coq on the runs below: the
abstract interpreter's final credit is a lower bound of the number of entries the
implementation really left above the prefix; the Python mirrors of the whole-stack list
and of `mod_consumed` agree with the Coq definitions; (3) the assumption the proof makes
about function bodies ("element functions do not reach the stack through ctx.stacks") is
scanned statically (allow-list of the functions that mention `.stacks`).

Oracle (independent of the model): every key of the runtime element table, and every
modifier applied to elements, is exec'd on `sentinel prefix + generated arguments`
(ints, rationals, strings, nested and lazy lists); afterwards the prefix entries must be
the same objects with the same values, and -- run again on a different prefix -- the
entries left above it must be the same.  Any difference for an element outside the
documented whole-stack family is a failure of the property with that input.

Two further input families (both uniform over the element table, see the comments at
`fn_lists` and `pair_sweep`): argument lists / lazy lists that hold FUNCTION values
(lambdas of arity 0, 1, 2) as direct or nested items, and two-element SEQUENCES
(every element A, then every element B that writes interpreter state or mutates), where
everything below B's arguments -- including what A left -- must keep identity and
deep value."""
from __future__ import annotations

import ast
import collections
import contextlib
import io
import itertools
import os
import random
import re
import time

from vlib import common as V

WHOLE_STACK_ELEMENTS = ["W", "^", "!", "„", "‟", "Ȯ", "†", "Ė"]   # mirrors Model/StackEffect.v (checked in Coq below)
WHOLE_STACK_MODIFIERS = ["ß"]

# elements that are not executed at all, with the reason
SKIP = {
    "Q": "exits the interpreter (site.exit closes stdin and raises SystemExit)",
}
# elements whose results legitimately differ between two runs (no comparison of results
# across prefixes; the identity/value check of the prefix is still made)
NONDETERMINISTIC_TEXT = ("datetime",)   # `random` is seeded before every run

# functions of /repo/vyxal/*.py that are known to mention `.stacks` (DESIGN C09: the
# machine itself, vy_exec, printing a function value, LazyList.output)
STACKS_ALLOWED = {
    "context.py:Context.__init__", "context.py:Context.copy",
    "main.py:execute_vyxal", "main.py:repl",
    "transpile.py:transpile_structure", "transpile.py:transpile_lambda",
    "elements.py:vy_exec", "elements.py:vy_str", "elements.py:vy_print", "elements.py:vy_repr",
    "LazyList.py:LazyList.output",
}

PREFIX_A = [("int", 987654321), ("str", "sentinel"), ("list", [("int", 1), ("list", [("int", 2), ("str", "x")])]),
            ("lazy", [("int", 3), ("int", 4)]), ("rat", 22, 7)]
PREFIX_B = [("str", "other"), ("list", [("int", 9)]), ("int", -77)]

INTS = (2, 3, 1, 0, 4, 5, -1, 7, 10, -3, 6, 12)
RATS = ((1, 2), (-3, 4), (5, 3), (7, 2))
STRS = ("stack", "abc", "a b", "12", "", "Hello", "xyz", "-", "1+1", "[1,2]", "aXb")
MAXITEMS = 40
BIG = 20000          # characters of a string shown / compared in full
_ADDR = re.compile(r"0x[0-9a-fA-F]{6,}")


# ----------------------------------------------------------------------------
# values
# ----------------------------------------------------------------------------

def build(spec):
    import sympy
    from vyxal.LazyList import LazyList
    k = spec[0]
    if k == "int":
        return spec[1]
    if k == "sint":
        return sympy.Integer(spec[1])
    if k == "rat":
        return sympy.Rational(spec[1], spec[2])
    if k == "str":
        return spec[1]
    if k == "list":
        return [build(x) for x in spec[1]]
    if k == "lazy":
        return LazyList(iter([build(x) for x in spec[1]]))
    if k == "fn":
        return build_fn(spec[1])
    raise ValueError(spec)


# function values: one lambda per arity, made by the implementation's own transpiler from
# a lambda literal (arity 0 pushes a constant, arity 1 doubles, arity 2 adds)
FN_SOURCES = {0: "λ0|5;", 1: "λ1|d;", 2: "λ2|+;"}
_FN_CODE = {}


def build_fn(arity):
    ns = namespace()
    src = FN_SOURCES[arity]
    if src not in _FN_CODE:
        from vyxal.transpile import transpile
        _FN_CODE[src] = transpile(src)
    st = []
    g = dict(ns)
    g["stack"] = st
    g["ctx"] = ns["Context"]()
    exec(_FN_CODE[src], g)
    return st[-1]


def canon(x, budget=None):
    """json-able canonical form; lazy lists forced up to a cap; floats never compared"""
    import sympy
    import types
    from vyxal.LazyList import LazyList
    if budget is None:
        budget = [MAXITEMS * 4]
    if isinstance(x, bool):
        return int(x)
    if isinstance(x, int):
        return x
    if isinstance(x, str):
        if len(x) > BIG:
            return f"<str of {len(x)} chars starting {x[:60]!r}>"
        # printed object addresses (str() of a LazyList or function inside a result) are not values
        return _ADDR.sub("0x?", x) if "0x" in x else x
    if isinstance(x, float):
        return "<float>"
    if isinstance(x, (list, tuple)):
        out = []
        for y in x:
            budget[0] -= 1
            if budget[0] < 0:
                out.append("...")
                break
            out.append(canon(y, budget))
        return out
    if isinstance(x, LazyList):
        out = ["lazy"]
        for y in itertools.islice(iter(x), MAXITEMS):
            budget[0] -= 1
            if budget[0] < 0:
                out.append("...")
                break
            out.append(canon(y, budget))
            if (isinstance(y, str) and len(y) > BIG) or (isinstance(y, int) and y.bit_length() > 8 * BIG):
                # items that grow without bound (a generator fed a function argument): forcing 40 of them
                # exhausts memory; the items so far identify the value
                out.append("...")
                break
        return out
    if isinstance(x, types.FunctionType):
        return "<function>"
    if isinstance(x, sympy.Basic):
        if x.is_Integer:
            return int(x)
        if x.is_Rational:
            return {"q": [int(x.p), int(x.q)]}
        if x.is_Float:
            return "<float>"
        return "sympy:" + str(x)[:80]
    if x is None:
        return None
    return "<" + type(x).__name__ + ">"


def gen_value(rng, depth=0):
    r = rng.random()
    if r < 0.30:
        return ("int" if rng.random() < 0.5 else "sint", rng.choice(INTS))
    if r < 0.40:
        p, q = rng.choice(RATS)
        return ("rat", p, q)
    if r < 0.60:
        return ("str", rng.choice(STRS))
    if depth >= 2:
        return ("int", rng.choice(INTS))
    items = [gen_value(rng, depth + 1) for _ in range(rng.randint(0, 4))]
    return ("list" if r < 0.85 else "lazy", items)


def fixed_tuples(k):
    """the tuples every key is run on first: one per kind, then mixed"""
    ints = [("int", INTS[i % len(INTS)]) for i in range(3)]
    out = [
        ints[:k],
        [("str", "stack")] * k,
        [("list", [("int", 1), ("int", 2), ("int", 3)]), ("list", [("int", 4), ("list", [("int", 5)])]), ("list", [("str", "a"), ("str", "b")])][:k],
        [("lazy", [("int", 1), ("int", 2), ("int", 3)]), ("int", 2), ("int", 1)][:k],
        [("int", 2), ("list", [("int", 3), ("int", 1), ("int", 2)]), ("str", "ab")][:k],
        [("str", "abc"), ("sint", 2), ("list", [("int", 1)])][:k],
        [("rat", 1, 2), ("rat", 5, 3), ("sint", 3)][:k],
        [("list", [("int", 3), ("int", 1)]), ("str", "a b"), ("int", 0)][:k],
    ]
    return out


def fn_lists():
    """Input family: lists and lazy lists that hold a FUNCTION value.  The generated pools
    had numbers, strings and (lazy) lists only, so no code path that *calls* an item of an
    argument (printing, stringifying, mapping a list of functions ...) was ever taken with a
    callee that pops from whatever stack it is handed.  General shape: container kind
    (list | lazy) x function arity (0 | 1 | 2) x position of the function (last | first) as a
    DIRECT item, and container kind x inner container kind x arity with the function one
    level down.  Function values as top-level arguments stay outside the quantifier (see the
    assumption in `run`)."""
    direct, nested = [], []
    for a in sorted(FN_SOURCES):
        f = ("fn", a)
        for outer in ("list", "lazy"):
            direct.append((outer, [("int", 4), f]))
            direct.append((outer, [f, ("str", "a"), ("int", 3)]))
            for inner in ("list", "lazy"):
                nested.append((outer, [("int", 4), (inner, [("int", 5), f])]))
    return direct, nested


FN_FILL = [("int", 2), ("list", [("int", 1), ("int", 2), ("int", 3)]), ("str", "ab")]


def fn_tuples(k, rng, thorough):
    """argument tuples for an element of arity k with a function-holding list in one position.
    thorough: every such list in every position (companions cycled), and in all positions at once; quick: every DIRECT
    list once (positions cycled) and a seeded sample of the nested ones."""
    direct, nested = fn_lists()
    out = []
    if thorough:
        for j, lst in enumerate(direct + nested):
            for pos in range(k):
                fill = FN_FILL[(j + pos) % len(FN_FILL)]
                out.append([lst if i == pos else fill for i in range(k)])
        if k > 1:
            out += [[lst] * k for lst in direct]
        return out
    start = rng.randrange(k)
    for j, lst in enumerate(direct):
        pos = (start + j) % k
        out.append([lst if i == pos else FN_FILL[(j // 2) % 2] for i in range(k)])
    for lst in rng.sample(nested, 3):
        pos = rng.randrange(k)
        out.append([lst if i == pos else FN_FILL[0] for i in range(k)])
    return out


def has_fn(spec):
    if isinstance(spec, tuple) and spec and spec[0] == "fn":
        return True
    if isinstance(spec, (list, tuple)):
        return any(has_fn(x) for x in spec if isinstance(x, (list, tuple)))
    return False


# ----------------------------------------------------------------------------
# one run (in a forked worker)
# ----------------------------------------------------------------------------

_NS = None


def namespace():
    global _NS
    if _NS is None:
        V.import_repo()
        import warnings
        g = {}
        exec(
            "import os, sys, types, math, string, sympy\n"
            "import vyxal, vyxal.encoding\n"
            "from datetime import datetime\n"
            "from vyxal.context import Context\n"
            "from vyxal.elements import *\n"
            "from vyxal.helpers import *\n"
            "from vyxal.LazyList import *\n",
            g,
        )
        warnings.simplefilter("ignore")   # sympy deprecation notices of the implementation
        _NS = g
    return _NS


def run_once(code, pspec, argspec):
    """exec `code` on prefix + args.  -> dict(exc, viol, res, extra)"""
    ns = namespace()
    prefix = [build(s) for s in pspec]
    snap = [canon(x) for x in prefix]
    args = [build(s) for s in argspec]
    stack = prefix + args
    ctx = ns["Context"]()
    ctx.stacks.append(stack)
    g = dict(ns)
    g["stack"] = stack
    g["ctx"] = ctx
    random.seed(12345)
    exc = None
    try:
        with contextlib.redirect_stdout(io.StringIO()):
            exec(code, g)
    except V.Timeout:
        raise
    except RecursionError:
        exc = "RecursionError"
    except BaseException as e:  # noqa: BLE001
        exc = type(e).__name__
    viol = None
    n = len(prefix)
    if g.get("stack") is not stack:
        viol = "the name `stack` was rebound to another object"
        stack = g.get("stack") if isinstance(g.get("stack"), list) else stack
    if viol is None and len(stack) < n:
        viol = f"only {len(stack)} entries left, the {n} below the arguments were not all kept"
    if viol is None:
        for i in range(n):
            if stack[i] is not prefix[i]:
                viol = f"entry {i} below the arguments was replaced by another object"
                break
    if viol is None:
        after = [canon(x) for x in prefix]
        if after != snap:
            viol = "the value of an entry below the arguments changed"
    res = None
    if viol is None:
        try:
            res = [canon(x) for x in stack[n:]]
        except V.Timeout:
            raise
        except BaseException as e:  # noqa: BLE001
            res = "uncanonical:" + type(e).__name__
    shown = None
    if viol is not None:
        try:
            shown = [canon(x) for x in stack][:12]
        except BaseException:  # noqa: BLE001
            shown = "?"
    return {"exc": exc, "viol": viol, "res": res, "above": (len(stack) - n) if viol is None else None, "stack": shown}


def run_case(item):
    code, argspec = item
    with contextlib.redirect_stdout(io.StringIO()):
        a = run_once(code, PREFIX_A, argspec)
        b = run_once(code, PREFIX_B, argspec)
    return a, b


# ----------------------------------------------------------------------------
# alias runs: the prefix shares objects with the arguments
# ----------------------------------------------------------------------------

def spec_value(spec):
    """what a spec denotes, computed from the spec alone (never from the objects)"""
    k = spec[0]
    if k in ("int", "sint"):
        return spec[1]
    if k == "rat":
        return {"q": [spec[1], spec[2]]}
    if k == "str":
        return spec[1]
    if k == "fn":
        return "<function>"
    return [spec_value(x) for x in spec[1]]


def denote(x, budget=None):
    """like canon, but a lazy list denotes the same thing as the eager list of its items"""
    from vyxal.LazyList import LazyList
    if budget is None:
        budget = [MAXITEMS * 6]
    if isinstance(x, (list, tuple, LazyList)):
        out = []
        for y in (itertools.islice(iter(x), MAXITEMS) if isinstance(x, LazyList) else x):
            budget[0] -= 1
            if budget[0] < 0:
                out.append("...")
                break
            out.append(denote(y, budget))
        return out
    return canon(x)


def run_alias(item):
    """exec `code` on sentinel + aliases of the list arguments + args.  For every list /
    lazy-list argument the prefix holds (a) the very same object (as `¥` pushes the
    register), (b) deep_copy(arg) made before the call and not forced (as `:` pushes),
    (c) a list holding the argument object as an item.  Afterwards the prefix entries
    must be the same objects and denote what the argument specs said before the call."""
    code, argspec = item
    ns = namespace()
    with contextlib.redirect_stdout(io.StringIO()):
        base = [build(s) for s in PREFIX_A]
        expected = [spec_value(s) for s in PREFIX_A]
        args = [build(s) for s in argspec]
        what = ["sentinel"] * len(base)
        prefix = list(base)
        for i, sp in enumerate(argspec):
            if sp[0] in ("list", "lazy"):
                v = spec_value(sp)
                prefix += [args[i], ns["deep_copy"](args[i]), [0, args[i], 1]]
                expected += [v, v, [0, v, 1]]
                what += [f"the same object as argument {i}", f"a deep_copy view of argument {i} made before the call",
                         f"a list holding argument {i} as its middle item"]
        stack = prefix + args
        ctx = ns["Context"]()
        ctx.stacks.append(stack)
        g = dict(ns)
        g["stack"] = stack
        g["ctx"] = ctx
        random.seed(12345)
        exc = None
        try:
            exec(code, g)
        except V.Timeout:
            raise
        except RecursionError:
            exc = "RecursionError"
        except BaseException as e:  # noqa: BLE001
            exc = type(e).__name__
        n = len(prefix)
        viol = None
        if g.get("stack") is not stack:
            viol = "the name `stack` was rebound to another object"
        elif len(stack) < n:
            viol = f"only {len(stack)} entries left, the {n} below the arguments were not all kept"
        else:
            for j in range(n):
                if stack[j] is not prefix[j]:
                    viol = f"entry {j} ({what[j]}) was replaced by another object"
                    break
        if viol is None:
            for j in range(n):
                try:
                    got = denote(prefix[j])
                except V.Timeout:
                    raise
                except BaseException as e:  # noqa: BLE001
                    got = "unreadable:" + type(e).__name__
                if got != expected[j]:
                    viol = f"entry {j} below the arguments ({what[j]}) denoted {expected[j]!r} before the call and {got!r} after it"
                    break
    return {"exc": exc, "viol": viol}


ALIAS_LISTS = [
    ("list", [("int", 3), ("int", 1), ("int", 2)]),
    ("list", [("list", [("int", 3), ("int", 1)]), ("list", [("int", 2)]), ("list", [("int", 0), ("int", 5)])]),
    ("lazy", [("int", 3), ("int", 1), ("int", 2)]),
    ("list", [("str", "b"), ("str", "a"), ("str", "c")]),
    ("lazy", [("list", [("int", 2), ("int", 1)]), ("list", [("int", 1), ("int", 0)])]),
]
ALIAS_FILL = [("int", 1), ("int", 2), ("str", "a"), ("int", 0), ("list", [("int", 2), ("int", 1)])]


def alias_tuples(k, rng, extra):
    """argument tuples with at least one list: each list kind in each position (the others
    a scalar), every position the same kind of list, then random ones"""
    out = []
    for lst in ALIAS_LISTS:
        for pos in range(k):
            for fill in ALIAS_FILL[:2 if k > 1 else 1]:
                out.append([lst if i == pos else fill for i in range(k)])
        if k > 1:
            out.append([lst] * k)
            out.append([lst if i == 0 else ALIAS_FILL[4] for i in range(k)])
    for _ in range(extra):
        t = [gen_value(rng) for _ in range(k)]
        if not any(x[0] in ("list", "lazy") for x in t):
            t[rng.randrange(k)] = rng.choice(ALIAS_LISTS)
        out.append(t)
    seen, res = set(), []
    for t in out:
        c = V.canon(t)
        if c not in seen:
            seen.add(c)
            res.append(t)
    return res


# Input families that expose a difference on the UNCHANGED tree and are therefore not run until the
# integrator has judged the finding (fix in /repo or known_findings.json entry); remove the key to enable.
PENDING_FINDINGS = {}      # the family "alias-with-function-holding-lists" exposed a defect of LazyList.output, repaired in /repo (b35b39a)


def alias_sweep(env, E):
    from vyxal.transpile import transpile
    t0 = time.time()
    extra = env.budget(4, 40)
    cases = []
    for key, (text, k) in E.elements.items():
        if key in SKIP or k == 0:
            continue
        tuples = alias_tuples(k, env.rng, extra)
        if "alias-with-function-holding-lists" not in PENDING_FINDINGS:
            tuples = tuples + fn_tuples(k, env.rng, env.thorough)
        for args in tuples:
            cases.append({"kind": "element", "key": key, "code": text, "k": k, "args": args, "listed": key in WHOLE_STACK_ELEMENTS})
    # a handful of modifier applications: the operand runs inside a lambda on the same objects
    ops = [o for o in ("s", "∆ṁ", "Ṙ", "J", "+", "Ṫ", "Ȧ", "U", "f", "ṡ", "G", "∑", "ÞS", "µ") if o in E.elements]
    if env.thorough:
        ops += [o for o in E.elements if o not in ops and o not in SKIP and E.elements[o][1] >= 1]
    for m in E.modifiers:
        if m in WHOLE_STACK_MODIFIERS:
            continue
        for a in ops:
            b = "N" if m in ("₌", "₍") else ""
            if a in WHOLE_STACK_ELEMENTS:
                continue
            try:
                code = transpile(m + a + b)
            except Exception:  # noqa: BLE001
                continue
            k = mod_consumed(m, E.elements[a][1], E.elements[b][1] if b else 0)
            if k == 0:
                continue
            for args in alias_tuples(k, env.rng, 0)[: env.budget(6, 12)]:
                cases.append({"kind": "modifier", "key": m, "code": code, "k": k, "args": args, "listed": False, "program": m + a + b})
    res = hard_pmap(run_alias, [(c["code"], c["args"]) for c in cases], soft=4.0, hard=25.0, procs=min(V.NPROC, 6))
    stats = collections.Counter()
    keys = []
    for c, (status, val) in zip(cases, res):
        stats["runs"] += 1
        if status != "ok":
            stats[status] += 1
            continue
        if val["exc"]:
            stats["raised"] += 1
        else:
            stats["completed"] += 1
            keys.append(f"alias:{c['kind']}:{c.get('program', c['key'])}:{V.canon(c['args'])}")
        if val["viol"] and not c["listed"]:
            stats["alias_violations"] += 1
            name = c.get("program", c["key"])
            env.fail({"kind": c["kind"] + "-alias", "key": c["key"], "program": c.get("program"), "arity": c["k"], "args": c["args"],
                      "prefix": "sentinel entries, then per list argument: the same object, deep_copy(arg) unforced, [0, arg, 1]"},
                     f"{c['kind']} {name} (consumes {c['k']}): {val['viol']}" + (f" (raised {val['exc']})" if val["exc"] else ""),
                     cls=f"C09:{c['key']}:alias")
    env.count(len(cases), keys)
    env.note("pending_findings_input_families_not_run", PENDING_FINDINGS)
    env.note("alias_sweep", {"cases": len(cases), "stats": dict(stats), "list_kinds": len(ALIAS_LISTS), "modifier_operands": len(ops),
                             "seconds": round(time.time() - t0, 1)})


# ----------------------------------------------------------------------------
# sequences of two elements: what the first left must survive the second
# ----------------------------------------------------------------------------
# Input family: the single-element sweeps start every run from a fresh context and a stack
# of freshly built values, so they cannot see an element that pushes a LIVE reference to
# interpreter state (ctx.*, a module-level cache): alone its result has the right value.
# The property, however, quantifies over every stack an element can meet, and the stacks a
# program builds hold what earlier elements left.  So: run element A (every key of the
# table, standard argument tuples) in a fresh context; then, in the SAME context and on the
# SAME stack, run each element B of the "writer" set on freshly built arguments and demand
# that every entry below B's arguments -- the sentinels and everything A left -- is the same
# object with the same deep value.  The B's run one after another in one context (B's results
# are dropped in between), each twice with different argument kinds, so later B's also meet
# the state earlier ones wrote.  The writer set is DERIVED from the current source, not listed:
# elements whose template (or a function named in it) assigns to / calls a mutating method on
# something reached from `ctx`, elements whose backing function mutates a parameter in place,
# plus a few generic stack/list elements; thorough adds a seeded sample of all other elements.

_MUTATORS = {"append", "pop", "extend", "insert", "clear", "remove", "update", "add", "sort", "reverse",
             "setdefault", "popitem", "discard"}
POPPING_HELPERS = {"pop", "wrapify"}     # they mutate their parameter, and it is the stack: every template names them
PAIR_GENERIC = ["_", ":", "$", "+", "J", "s", "Ṙ", "w", "f", "M"]


def _root_is_ctx(n):
    depth = 0
    while isinstance(n, (ast.Attribute, ast.Subscript)):
        n = n.value
        depth += 1
    return depth >= 1 and isinstance(n, ast.Name) and n.id == "ctx"


def _targets(n):
    ts = n.targets if isinstance(n, (ast.Assign, ast.Delete)) else [n.target]
    out = []
    for t in ts:
        out += list(t.elts) if isinstance(t, (ast.Tuple, ast.List)) else [t]
    return out


def _writes_ctx(node):
    for n in ast.walk(node):
        if isinstance(n, (ast.Assign, ast.AugAssign, ast.AnnAssign, ast.Delete)) and any(_root_is_ctx(t) for t in _targets(n)):
            return True
        if isinstance(n, ast.Call) and isinstance(n.func, ast.Attribute) and n.func.attr in _MUTATORS and _root_is_ctx(n.func.value):
            return True
        if isinstance(n, ast.Global):
            return True          # rebinding module-level state counts as interpreter state too
    return False


def _mutates_param(fn):
    params = {a.arg for a in fn.args.args + fn.args.kwonlyargs} - {"ctx"}
    for n in ast.walk(fn):
        if isinstance(n, ast.Call) and isinstance(n.func, ast.Attribute) and n.func.attr in _MUTATORS \
                and isinstance(n.func.value, ast.Name) and n.func.value.id in params:
            return True
        if isinstance(n, (ast.Assign, ast.AugAssign, ast.Delete)):
            for t in _targets(n):
                if isinstance(t, ast.Subscript) and isinstance(t.value, ast.Name) and t.value.id in params:
                    return True
    return False


def writer_elements(env, E):
    """keys whose template writes interpreter state / mutates, derived from the current source"""
    state_fns, mut_fns = set(), set()
    root = os.path.join(V.REPO, "vyxal")
    for fn in sorted(os.listdir(root)):
        if not fn.endswith(".py"):
            continue
        try:
            with open(os.path.join(root, fn), encoding="utf-8") as f:
                tree = ast.parse(f.read())
        except (OSError, SyntaxError):
            continue
        for n in ast.walk(tree):
            if isinstance(n, (ast.FunctionDef, ast.AsyncFunctionDef)):
                if _writes_ctx(n):
                    state_fns.add(n.name)
                if _mutates_param(n) and n.name not in POPPING_HELPERS:
                    mut_fns.add(n.name)
    state, mut = [], []
    for key, (text, k) in E.elements.items():
        try:
            t = ast.parse(text)
        except SyntaxError:
            continue
        names = {n.id for n in ast.walk(t) if isinstance(n, ast.Name)} | {n.attr for n in ast.walk(t) if isinstance(n, ast.Attribute)}
        if _writes_ctx(t) or names & state_fns:
            state.append(key)
        elif names & mut_fns:
            mut.append(key)
    env.note("pair_sweep_derivation", {"functions_writing_ctx_or_globals": sorted(state_fns), "functions_mutating_a_parameter": sorted(mut_fns),
                                       "elements_writing_state": state, "elements_mutating": mut})
    return state, mut


def _exec_quiet(code, g):
    try:
        with contextlib.redirect_stdout(io.StringIO()):
            exec(code, g)
    except V.Timeout:
        raise
    except RecursionError:
        return "RecursionError"
    except BaseException as e:  # noqa: BLE001
        return type(e).__name__
    return None


def _canon_or_none(x):
    """canon, or None when the entry cannot be read (a lazy list the first element left may raise when
    forced: such an entry is compared by identity only)"""
    try:
        return canon(x)
    except V.Timeout:
        raise
    except RecursionError:
        return None
    except BaseException:  # noqa: BLE001
        return None


def _run_sequence(code_a, args_a, seconds):
    """-> None or dict(j, viol, ...) for the first B (index j) that disturbed what lay below its arguments"""
    ns = namespace()
    prefix = [build(s) for s in PREFIX_A]
    stack = prefix + [build(s) for s in args_a]
    ctx = ns["Context"]()
    ctx.stacks.append(stack)
    g = dict(ns)
    g["stack"] = stack
    g["ctx"] = ctx
    random.seed(12345)
    exc_a = _exec_quiet(code_a, g)
    if not isinstance(g.get("stack"), list):
        return None
    if g["stack"] is not stack:      # A rebound the name (judged by the single-element sweep); go on with what it left
        stack = g["stack"]
        ctx.stacks[-1:] = [stack]
    for j, (key_b, code_b, k_b, args_b) in enumerate(seconds):
        below = list(stack)
        n = len(below)
        snap = [_canon_or_none(x) for x in below]
        stack.extend(build(s) for s in args_b)
        exc_b = _exec_quiet(code_b, g)
        viol = None
        now = g.get("stack")
        if now is not stack:
            viol = "the name `stack` was rebound to another object"
        elif len(stack) < n:
            viol = f"only {len(stack)} entries left, the {n} below the arguments were not all kept"
        else:
            for i in range(n):
                if stack[i] is not below[i]:
                    viol = f"entry {i} below the arguments was replaced by another object"
                    break
        if viol is None:
            for i in range(n):
                after = _canon_or_none(below[i]) if snap[i] is not None else None
                if after != snap[i] and after is not None:
                    src = "a sentinel" if i < len(prefix) and below[i] is prefix[i] else "left by the first element"
                    viol = f"entry {i} below the arguments ({src}) had the value {snap[i]!r} before and {after!r} after"
                    break
        if viol is not None:
            return {"j": j, "viol": viol, "exc_a": exc_a, "exc_b": exc_b, "before": snap[:12]}
        del stack[n:]
    return None


def run_pair(item):
    code_a, args_a, seconds = item
    r = _run_sequence(code_a, args_a, seconds)
    if r is None:
        return None
    # shortest reproducing sequence: the first element, then the offending one alone
    j = r["j"]
    short = _run_sequence(code_a, args_a, [seconds[j]])
    if short is not None:
        short["sequence"] = [j]
        return short
    r["sequence"] = list(range(j + 1))
    return r


def pair_sweep(env, E):
    t0 = time.time()
    state, mut = writer_elements(env, E)
    pool = [k for k in state + mut + PAIR_GENERIC if k in E.elements and k not in SKIP and k not in WHOLE_STACK_ELEMENTS]
    if env.thorough:
        rest = [k for k in E.elements if k not in pool and k not in SKIP and k not in WHOLE_STACK_ELEMENTS]
        pool += env.rng.sample(rest, min(40, len(rest)))
    pool = list(dict.fromkeys(pool))
    # each B twice: standard ints, then standard lists (fixed_tuples rows 0 and 2); arity 0 also twice
    seconds = []
    for row in (0, 2):
        for key in pool:
            text, k = E.elements[key]
            seconds.append((key, text, k, fixed_tuples(k)[row] if k else []))
    rows = list(range(8)) if env.thorough else [0, 2, 4]
    cases = []
    for key, (text, k) in E.elements.items():
        if key in SKIP:
            continue
        seen = set()
        for args in ([fixed_tuples(k)[r] for r in rows] if k else [[]]):
            c = V.canon(args)
            if c in seen:
                continue
            seen.add(c)
            cases.append({"first": key, "code": text, "k": k, "args": args})
    res = hard_pmap(run_pair, [(c["code"], c["args"], seconds) for c in cases], soft=10.0, hard=40.0, procs=min(V.NPROC, 6))
    stats = collections.Counter()
    per_b = collections.Counter()
    keys = []
    for c, (status, val) in zip(cases, res):
        stats["sequences"] += 1
        if status != "ok":
            stats[status] += 1
            continue
        if val is None:
            stats["clean"] += 1
            keys.append(f"pair:{c['first']}:{V.canon(c['args'])}")
            continue
        stats["violations"] += 1
        seq = [seconds[j] for j in val["sequence"]]
        b = seq[-1]
        per_b[b[0]] += 1
        if per_b[b[0]] > 5:
            continue            # one defective B fails after every A; five inputs are enough
        env.fail({"kind": "element-sequence", "key": b[0], "arity": b[2], "args": b[3],
                  "first": c["first"], "first_args": c["args"], "then": [[x[0], x[3]] for x in seq], "prefix": PREFIX_A},
                 f"element {b[0]} (consumes {b[2]}) run after element {c['first']} on the stack that one left: {val['viol']}"
                 + (f" (raised {val['exc_b']})" if val["exc_b"] else "")
                 + f"; sequence {c['first']} {' '.join(x[0] for x in seq)}, entries below before: {val['before']}",
                 cls=f"C09:{b[0]}")
    env.count(len(cases) * len(seconds), keys)
    env.note("pair_sweep", {"first_elements": len({c['first'] for c in cases}), "sequences": len(cases), "second_elements": pool,
                            "second_runs_per_sequence": len(seconds), "first_argument_rows_of_fixed_tuples": rows,
                            "stats": dict(stats), "violations_per_second_element": dict(per_b), "seconds": round(time.time() - t0, 1)})


# ----------------------------------------------------------------------------
# a worker pool that survives runs the alarm cannot interrupt
# ----------------------------------------------------------------------------

def _pool_worker(fn, items, idxs, conn, soft):
    try:
        import resource
        resource.setrlimit(resource.RLIMIT_AS, (6 << 30, 6 << 30))
    except Exception:  # noqa: BLE001
        pass
    try:
        for i in idxs:
            conn.send((i, V._guarded((fn, items[i], soft))))
        conn.send(None)
    except BaseException:  # noqa: BLE001
        pass
    finally:
        conn.close()
        os._exit(0)


def hard_pmap(fn, items, soft=4.0, hard=25.0, procs=6):
    """like V.pmap, but a case that blocks inside C code (where the alarm is not
    delivered) or kills its worker is reported as ("timeout"/"exc") after `hard`
    seconds and the remaining cases of that worker go to a fresh process."""
    import multiprocessing
    from multiprocessing.connection import wait
    mp = multiprocessing.get_context("fork")
    n = len(items)
    out = [None] * n
    procs = max(1, min(procs, n))
    todo = [list(range(w, n, procs)) for w in range(procs)]
    live = {}

    def spawn(idxs):
        if not idxs:
            return
        r, w = mp.Pipe(duplex=False)
        pr = mp.Process(target=_pool_worker, args=(fn, items, idxs, w, soft), daemon=True)
        pr.start()
        w.close()
        live[r] = {"proc": pr, "idxs": idxs, "pos": 0, "t": time.time()}

    for idxs in todo:
        spawn(idxs)
    while live:
        ready = wait(list(live), timeout=1.0)
        now = time.time()
        for r in ready:
            st = live[r]
            try:
                msg = r.recv()
            except (EOFError, OSError):
                msg = "dead"
            if msg is None or msg == "dead":
                st["proc"].join(timeout=1)
                if st["proc"].is_alive():
                    st["proc"].kill()
                rest = st["idxs"][st["pos"]:]
                del live[r]
                r.close()
                if msg == "dead" and rest:
                    out[rest[0]] = ("exc", "worker died")
                    spawn(rest[1:])
                continue
            i, val = msg
            out[i] = val
            st["pos"] += 1
            st["t"] = now
        for r in list(live):
            st = live[r]
            if now - st["t"] > hard:
                st["proc"].kill()
                st["proc"].join(timeout=2)
                rest = st["idxs"][st["pos"]:]
                del live[r]
                r.close()
                if rest:
                    out[rest[0]] = ("timeout", "hard")
                    spawn(rest[1:])
    return [o if o is not None else ("exc", "lost") for o in out]


# ----------------------------------------------------------------------------
# static parts
# ----------------------------------------------------------------------------

def scan_stacks(env):
    """every function of /repo/vyxal/*.py that mentions `.stacks` (AST)"""
    found = {}
    root = os.path.join(V.REPO, "vyxal")
    for fn in sorted(os.listdir(root)):
        if not fn.endswith(".py"):
            continue
        with open(os.path.join(root, fn), encoding="utf-8") as f:
            src = f.read()
        try:
            tree = ast.parse(src)
        except SyntaxError as e:
            env.proof_broken(f"static scan: {fn} does not parse", str(e))
            continue

        def owner(path):
            # the outermost enclosing def, qualified by its class (nested helpers belong to it)
            out = []
            for name, is_class in path:
                out.append(name)
                if not is_class:
                    break
            return fn + ":" + (".".join(out) or "<module>")

        def visit(node, path):
            for ch in ast.iter_child_nodes(node):
                if isinstance(ch, (ast.FunctionDef, ast.AsyncFunctionDef, ast.ClassDef)):
                    visit(ch, path + [(ch.name, isinstance(ch, ast.ClassDef))])
                    continue
                if isinstance(ch, ast.Attribute) and ch.attr == "stacks":
                    found.setdefault(owner(path), []).append(ch.lineno)
                if isinstance(ch, ast.Constant) and isinstance(ch.value, str) and ".stacks" in ch.value:
                    found.setdefault(owner(path), []).append(ch.lineno)
                visit(ch, path)
        visit(tree, [])
    env.note("functions_mentioning_.stacks", {k: v for k, v in sorted(found.items())})
    new = sorted(k for k in found if k not in STACKS_ALLOWED)
    if new:
        env.proof_broken(
            "assumption of C09_sound no longer checked: functions outside the allow-list reach the stack through ctx.stacks: " + ", ".join(new),
            "the template-level proof treats element functions as unable to touch the stack; "
            + "; ".join(f"{k} lines {found[k]}" for k in new))
    return found


def tie_tables(env, E):
    """the trees come from the text the runtime tables hold; primitives recounted on the text"""
    gq = env.tables.get("gen_quirks") or {}
    if gq.get("error"):
        env.proof_broken("tools/gen_quirks.py failed", gq["error"])
        return {}
    last = {}
    for i, e in enumerate(gq["entries"]):
        if e["kind"] == "element":
            last[e["key"]] = i
    n = 0
    for key, i in last.items():
        e = gq["entries"][i]
        n += 1
        if key not in E.elements:
            env.disagree("template-table", {"key": key}, "in the translated table", "not in vyxal.elements.elements")
        elif E.elements[key][0] != e["text"] or E.elements[key][1] != e["arity"]:
            env.disagree("template-text", {"key": key}, [e["text"], e["arity"]], list(E.elements[key]))
    for key in E.elements:
        if key not in last:
            env.disagree("template-table", {"key": key}, "missing from the translated table", "in vyxal.elements.elements")
    mods = {e["key"]: e for e in gq["entries"] if e["kind"] == "modifier"}
    for key, text in E.modifiers.items():
        n += 1
        if key not in mods or mods[key]["text"] != text:
            env.disagree("modifier-text", {"key": key}, mods.get(key, {}).get("text"), text)
    for e in gq["entries"]:
        if e.get("syntax_error"):
            continue  # tree is SOpaque true: nothing claimed
        tc, xc = e["tree_counts"], e["text_counts"]
        if tc["bad"] or tc["opaque_stack"]:
            continue  # fail-closed tree: frame_ok is false, nothing claimed
        for k in ("pop", "wrap", "push", "extend"):
            if tc[k] != xc[k]:
                env.proof_broken(f"translator unfaithful on {e['key']!r}: {k} occurs {xc[k]} times in the text, {tc[k]} times in the tree", e["text"])
    env.note("translated_entries", len(gq["entries"]))
    env.note("statement_shapes", len(gq.get("shapes", {})))
    env.note("stack_use_shapes", {k: len(v) for k, v in gq.get("stack_shapes", {}).items()})
    return last


def mod_consumed(key, na, nb):
    if key in ("₌", "₍"):
        return max(na, nb)
    if key in ("ƒ", "ɖ"):
        return 1
    if key == "ß":
        return 1 + na
    return na


# ----------------------------------------------------------------------------
# the sweep
# ----------------------------------------------------------------------------

def sweep(env, cases, label, soft=4.0):
    """cases: list of dict(kind, key, code, k, args, listed, nondet, ident).  Runs them
    and reports.  -> per-ident minimum number of entries left above the prefix (normal runs)"""
    t0 = time.time()
    res = hard_pmap(run_case, [(c["code"], c["args"]) for c in cases], soft=soft, hard=25.0, procs=min(V.NPROC, 6))
    stats = collections.Counter()
    excs = collections.Counter()
    minabove = {}
    reach_listed = collections.Counter()
    keys = []
    hard = []
    for c, (status, val) in zip(cases, res):
        stats["runs"] += 1
        if status != "ok":
            stats[status] += 1
            if val in ("hard", "worker died", "lost"):
                hard.append({"key": c["key"], "args": c["args"], "why": val})
            continue
        a, b = val
        inp = {"kind": c["kind"], "key": c["key"], "arity": c["k"], "args": c["args"]}
        if c.get("program"):
            inp["program"] = c["program"]
        ok_frame = True
        for name, r, pspec in (("A", a, PREFIX_A), ("B", b, PREFIX_B)):
            if r["exc"]:
                excs[r["exc"]] += 1
            if r["viol"]:
                ok_frame = False
                if c["listed"]:
                    reach_listed[c["key"]] += 1
                else:
                    stats["frame_violations"] += 1
                    env.fail(dict(inp, prefix=pspec),
                             f"{c['kind']} {c['key']} (consumes {c['k']}): {r['viol']}; stack afterwards {r['stack']}"
                             + (f" (raised {r['exc']})" if r["exc"] else ""),
                             cls=f"C09:{c['key']}")
                break
        if ok_frame:
            if not c["nondet"] and (a["exc"], a["res"]) != (b["exc"], b["res"]):
                if c["listed"]:
                    reach_listed[c["key"]] += 1
                else:
                    stats["locality_violations"] += 1
                    env.fail(dict(inp, prefixes=[PREFIX_A, PREFIX_B]),
                             f"{c['kind']} {c['key']} (consumes {c['k']}): what it leaves depends on the entries below its arguments: "
                             f"{a['res']!r} ({a['exc']}) over one prefix, {b['res']!r} ({b['exc']}) over another",
                             cls=f"C09:{c['key']}")
            if a["exc"] is None and b["exc"] is None:
                stats["completed"] += 1
                keys.append(f"{c['kind']}:{c['key']}:{V.canon(c['args'])}")
                m = min(a["above"], b["above"])
                minabove[c["ident"]] = min(minabove.get(c["ident"], m), m)
            else:
                stats["raised"] += 1
    env.count(2 * len(cases), keys)
    env.note(label, {"cases": len(cases), "stats": dict(stats), "exception_classes": dict(excs.most_common(12)),
                     "listed_elements_seen_reaching_below": dict(reach_listed), "uninterruptible_or_dead": hard[:10], "seconds": round(time.time() - t0, 1)})
    return minabove


def own_constant_tuples(env):
    """key -> argument tuples built from the string constants that occur in the element's OWN
    backing function (a branch keyed on a character of a string argument is reached only by
    strings holding that character), each crossed with degenerate companions at the other
    positions (empty list, empty lazy list, empty string, 0)."""
    import ast
    import os
    try:
        with open(os.path.join(V.REPO, "vyxal", "elements.py"), encoding="utf-8") as f:
            tree = ast.parse(f.read())
    except (OSError, SyntaxError):
        return {}
    consts = {}
    for n in tree.body:
        if isinstance(n, ast.FunctionDef):
            doc = ast.get_docstring(n)
            cs = [c.value for c in ast.walk(n) if isinstance(c, ast.Constant) and isinstance(c.value, str)
                  and 0 < len(c.value) <= 8 and c.value != doc]
            consts[n.name] = list(dict.fromkeys(cs))[:6]
    companions = [("list", []), ("lazy", []), ("str", ""), ("int", 0), ("list", [("int", 1), ("int", 2)])]
    out = {}
    for e in env.tables["elements"]:
        k, fn = e["arity"], e.get("fn") or ""
        if not (1 <= k <= 3) or fn not in consts:
            continue
        tuples = []
        for c in consts[fn]:
            for text in (c, "x=" + c, c + "," + c):
                for pos in range(k):
                    for comp in companions:
                        t = [comp] * k
                        t[pos] = ("str", text)
                        tuples.append(t)
        out[e["key"]] = tuples[:60]
    return out


def element_cases(env, E):
    per_key = env.budget(40, 320)
    cases, skipped = [], {}
    own = own_constant_tuples(env)
    env.note("elements_with_own_constant_tuples", len(own))
    for key, (text, k) in E.elements.items():
        if key in SKIP:
            skipped[key] = SKIP[key]
            continue
        nondet = any(w in text for w in NONDETERMINISTIC_TEXT)
        tuples = fixed_tuples(k) if k else [[]]
        while len(tuples) < (per_key if k else 1):
            tuples.append([gen_value(env.rng) for _ in range(k)])
        seen = set()
        for args in tuples[:per_key] + own.get(key, []):
            c = V.canon(args)
            if c in seen:
                continue
            seen.add(c)
            cases.append({"kind": "element", "key": key, "code": text, "k": k, "args": args,
                          "listed": key in WHOLE_STACK_ELEMENTS, "nondet": nondet, "ident": ("e", key)})
        # function-holding lists (see fn_lists).  An item that is a function is evaluated by the
        # implementation on ctx.stacks[-1] (vy_str / vy_repr READ the whole stack by design), so what
        # the element leaves may depend on the entries below: these cases get the frame check (identity
        # and value of everything below the arguments, both prefixes) but no cross-prefix comparison.
        if k:
            for args in fn_tuples(k, env.rng, env.thorough):
                cases.append({"kind": "element", "key": key, "code": text, "k": k, "args": args,
                              "listed": key in WHOLE_STACK_ELEMENTS, "nondet": True, "ident": ("e", key), "fnargs": True})
    # elements documented as random: results differ run to run only through `random`, which is seeded
    env.note("skipped_elements", skipped)
    env.note("not_compared_across_prefixes", sorted({c["key"] for c in cases if c["nondet"] and not c.get("fnargs")}))
    env.note("function_holding_list_cases", {"cases": sum(1 for c in cases if c.get("fnargs")), "lambdas": FN_SOURCES,
                                             "shapes": "list|lazy x arity 0|1|2 x function last|first (direct); list|lazy x list|lazy x arity (nested)"})
    return cases


def modifier_cases(env, E):
    from vyxal.transpile import transpile
    keys = list(E.elements)
    base = ["+", "N", "₀", "d", "∇", "$", "_", "W", "!", ":", "w", "J", "Ȯ"]
    operands = [k for k in base if k in E.elements]
    if env.thorough:
        operands += [k for k in keys if k not in SKIP and k not in operands]   # every element
    else:
        operands += env.rng.sample([k for k in keys if k not in SKIP and k not in operands], 60)
    per = env.budget(5, 8)
    cases, bad = [], []
    for m in E.modifiers:
        dyadic = m in ("₌", "₍")
        pairs = [(a, None) for a in operands] if not dyadic else [(a, b) for a in operands[:10] for b in operands[:6]]
        for a, b in pairs:
            # an operand that is itself a whole-stack operation may reach anywhere: exempt
            listed = m in WHOLE_STACK_MODIFIERS or a in WHOLE_STACK_ELEMENTS or (b in WHOLE_STACK_ELEMENTS)
            prog = m + a + (b or "")
            try:
                code = transpile(prog)
            except Exception as e:  # noqa: BLE001
                bad.append((prog, type(e).__name__))
                continue
            na = E.elements[a][1]
            nb = E.elements[b][1] if b else 0
            k = mod_consumed(m, na, nb)
            nondet = any(w in code for w in NONDETERMINISTIC_TEXT)
            tuples = fixed_tuples(k)[: per - 1] if k else [[]]
            # reduce / scan want a list on top
            if m in ("ƒ", "ɖ"):
                tuples = [[("list", [("int", 3), ("int", 1), ("int", 2)])], [("lazy", [("int", 1), ("int", 2)])], [("str", "abc")], [("int", 4)]]
            while len(tuples) < (per if k else 1):
                tuples.append([gen_value(env.rng) for _ in range(k)])
            for args in tuples:
                cases.append({"kind": "modifier", "key": m, "code": code, "k": k, "args": args, "listed": listed,
                              "nondet": nondet, "ident": ("m", m, na, nb), "program": prog})
            # function-holding lists under a modifier (the operand runs on each item / on the list)
            if k and (env.thorough or a in base):
                ft = fn_tuples(k, env.rng, False)
                for args in env.rng.sample(ft, 3 if env.thorough else 2):
                    cases.append({"kind": "modifier", "key": m, "code": code, "k": k, "args": args, "listed": listed,
                                  "nondet": True, "ident": ("m", m, na, nb), "program": prog, "fnargs": True})
    env.note("modifier_operands", {"count": len(operands), "programs_not_transpiled": bad[:10]})
    return cases


def coq_ties(env, E, last, minabove):
    """evaluated inside Coq: Python mirrors of the documented lists; credit lower bounds"""
    pre = ("From Coq Require Import List NArith Bool Arith.\nFrom Vy Require Import Model.Base Model.StackEffect Gen.StackTemplates.\n"
           "Import ListNotations.\nOpen Scope nat_scope.\n")
    # 1. whole-stack membership of every key, as Python believes it
    cases = [(k, False, k in WHOLE_STACK_ELEMENTS) for k in E.elements] + [(k, True, k in WHOLE_STACK_MODIFIERS) for k in E.modifiers]
    ok, badi, logs = env.coq_mismatches(
        "listed", pre,
        lambda lo, hi: "[" + "; ".join(f"({V.cstr(k)}, {str(m).lower()}, {str(b).lower()})" for k, m, b in cases[lo:hi]) + "]",
        "fun c : str * bool * bool => let '(k, m, b) := c in Bool.eqb (mem_str k (if m then whole_stack_modifiers else whole_stack_elements)) b",
        len(cases), shard=1000)
    if not ok:
        env.proof_broken("whole-stack list cases failed to evaluate", logs)
    for i in badi:
        env.disagree("whole-stack-list", cases[i][0], "Model/StackEffect.v", "props/C09.py mirror")
    # 2. mod_consumed
    mc = [(m, a, b, mod_consumed(m, a, b)) for m in E.modifiers for a in range(5) for b in range(5)]
    ok, badi, logs = env.coq_mismatches(
        "consumed", pre,
        lambda lo, hi: "[" + "; ".join(f"({V.cstr(m)}, {a}, {b}, {k})" for m, a, b, k in mc[lo:hi]) + "]",
        "fun c : str * nat * nat * nat => let '(m, a, b, k) := c in Nat.eqb (mod_consumed m a b) k", len(mc), shard=1000)
    if not ok:
        env.proof_broken("mod_consumed cases failed to evaluate", logs)
    for i in badi:
        env.disagree("mod_consumed", list(mc[i][:3]), "Model/StackEffect.v", mc[i][3])
    # 3. the abstract interpreter's final credit never exceeds what the implementation left
    gq = env.tables.get("gen_quirks") or {}
    ents = gq.get("entries", [])
    elem_index = {}
    ei = mi = 0
    mod_index = {}
    for e in ents:
        if e["kind"] == "element":
            elem_index[e["key"]] = ei  # the last one wins, as at run time
            ei += 1
        else:
            mod_index[e["key"]] = mi
            mi += 1
    cc = []
    for ident, m in sorted(minabove.items(), key=lambda kv: str(kv[0])):
        if ident[0] == "e" and ident[1] in elem_index:
            cc.append((0, elem_index[ident[1]], 0, 0, m, ident))
        elif ident[0] == "m" and ident[1] in mod_index:
            cc.append((1, mod_index[ident[1]], ident[2], ident[3], m, ident))
    chk = ("fun c : nat * nat * nat * nat * nat => let '(md, i, a, b, n) := c in "
           "if Nat.eqb md 0 then match nth_error element_templates i with Some e => "
           "match astmt [] (t_tmpl e) (t_arity e, 0) with Some d => fst d <=? n | None => true end | None => false end "
           "else match nth_error modifier_templates i with Some e => "
           "match astmt [a; b] (t_tmpl e) (mod_consumed (t_key e) a b, 0) with Some d => fst d <=? n | None => true end | None => false end")
    ok, badi, logs = env.coq_mismatches(
        "credit", pre,
        lambda lo, hi: "[" + "; ".join(f"({md}, {i}, {a}, {b}, {n})" for md, i, a, b, n, _ in cc[lo:hi]) + "]",
        chk, len(cc), shard=1000)
    if not ok:
        env.proof_broken("credit correspondence cases failed to evaluate", logs)
    for i in badi:
        env.disagree("credit-lower-bound", list(cc[i][5]), "astmt promises more entries above the frame", cc[i][4])
    env.note("coq_evaluated_ties", {"whole_stack_membership": len(cases), "mod_consumed": len(mc), "credit_lower_bounds": len(cc)})
    env.count(len(cases) + len(mc) + len(cc), ())


def table_counts(env):
    """how the table obligation splits (evaluated in Coq)"""
    text = ("From Coq Require Import List NArith Bool Arith.\nFrom Vy Require Import Model.Base Model.StackEffect Gen.StackTemplates.\n"
            "Import ListNotations.\nOpen Scope nat_scope.\n"
            "Definition al := all_instances element_templates modifier_templates.\n"
            "Definition el := map inst_of_elem element_templates.\n"
            "Eval vm_compute in ([length al; length (filter inst_frame_ok al); length (filter whole_stack_listed al); "
            "length el; length (filter inst_frame_ok el); length (filter whole_stack_listed el); "
            "length (filter (fun i => negb (inst_frame_ok i) && negb (whole_stack_listed i)) al)] : list nat).\n")
    ok, out = V.coq_eval(env.prop, "counts", text, timeout=300)
    nums = V.parse_nat_list(out) if ok else None
    if not nums or len(nums) != 7:
        env.proof_broken("table counts failed to evaluate", out)
        return
    env.note("table", {"instances": nums[0], "instances_frame_ok": nums[1], "instances_listed_whole_stack": nums[2],
                       "elements": nums[3], "elements_frame_ok": nums[4], "elements_listed_whole_stack": nums[5],
                       "neither_proved_nor_listed(known findings)": nums[6]})


def run(env):
    env.rule = ("oracle: each key of vyxal.elements.elements is exec'd on sentinel prefix + argument tuple (8 fixed tuples per arity: ints, the "
                "string 'stack', lists, lazy lists, mixed, rationals; then random tuples from the seed) and once more on a second, different "
                "prefix; each modifier is transpiled with operand elements and exec'd likewise; 2 evaluations per case.  Non-trivial = both runs "
                "completed without an exception (the element really ran to its end); distinct by kind:key:arguments.  Alias runs: every element of "
                "arity >= 1 (and modifiers applied to a handful of elements) on argument tuples holding eager, nested and lazy lists, with the "
                "prefix holding the same object, an unforced deep_copy view of it and a list containing it; 1 evaluation per case.  "
                "Function-holding lists: every element of arity >= 1 (and modifier programs) on lists / lazy lists with a lambda of arity 0, 1, 2 as a "
                "direct or nested item (frame check only).  Sequences: every element A on standard tuples, then in the same context each "
                "state-writing / mutating / generic element B (set derived from the source) on fresh arguments, twice; everything below B's "
                "arguments, including what A left, must keep identity and deep value; 1 evaluation per (A case, B run).")
    V.import_repo()
    namespace()
    import vyxal.elements as E
    scan_stacks(env)
    last = tie_tables(env, E)
    cases = element_cases(env, E)
    minabove = sweep(env, [c for c in cases if not c.get("fnargs")], "element_sweep")
    mcases = modifier_cases(env, E)
    minabove.update(sweep(env, [c for c in mcases if not c.get("fnargs")], "modifier_sweep"))
    # the function-holding lists: a shorter alarm (replace-until-fixpoint elements loop on them)
    for ident, m in sweep(env, [c for c in cases + mcases if c.get("fnargs")], "function_list_sweep", soft=2.0).items():
        minabove[ident] = min(minabove.get(ident, m), m)
    alias_sweep(env, E)
    pair_sweep(env, E)
    coq_ties(env, E, last, minabove)
    table_counts(env)
    gq = env.tables.get("gen_quirks") or {}
    env.note("known_keys_excluded_in_coq", gq.get("known"))
    env.note("input_distribution", {
        "tuples_per_element": env.budget(40, 320), "fixed_tuples": 8,
        "kinds": "int/sympy Integer 30%, Rational 10%, str 20%, list 25%, LazyList 15%, nesting <= 2, length <= 4",
        "prefix_A": PREFIX_A, "prefix_B": PREFIX_B,
        "function_holding_lists": "per element of arity k>=1: quick 12 direct shapes (list|lazy x arity 0|1|2 x function last|first, positions cycled from a "
                                  "seeded start) + 3 seeded of the 12 nested shapes; thorough all 24 shapes x every position (companions cycled) + direct shapes in all positions at once; modifier programs: 2 (thorough 3) seeded tuples of the quick set",
        "sequences": "A: every element x fixed_tuples rows (quick 0,2,4; thorough all 8); B: derived writer set + generic (+40 seeded others in thorough), "
                     "each on fixed_tuples row 0 then row 2, in table order, same context",
    })
    env.sample({"element": "$", "args": fixed_tuples(2)[0], "prefix": PREFIX_A})
    env.sample({"modifier_program": "v+", "consumes": 2})
    env.sample({"obligation": "forallb (inst_ok c09_known) (all_instances element_templates modifier_templates) = true (597 instances, vm_compute)"})
    env.assume("element functions reach the stack only through their arguments: no function outside the allow-list mentions `.stacks` (scanned), "
               "frames/inspect/gc are not used; function values as arguments are outside the property's quantifier (printing a function value calls it on ctx.stacks[-1])")
    env.assume("CPython's list.append/pop/+= and the `pop`/`wrapify` helpers behave as take_pop/do_pop of Model/StackEffect.v (stack top = end of the list)")
    env.assume("template locals are bound before use; walrus/comprehension bindings inside opaque expressions do not alias the stack (any mention of `stack` is rejected)")


def search_without_tables(env):
    env.rule = "translator failed; dynamic sweep on the implementation only"
    try:
        V.import_repo()
        namespace()
        import vyxal.elements as E
    except Exception as e:  # noqa: BLE001
        env.proof_broken("implementation does not import", repr(e))
        return
    scan_stacks(env)
    sweep(env, element_cases(env, E), "element_sweep")
    sweep(env, modifier_cases(env, E), "modifier_sweep")
    alias_sweep(env, E)
    pair_sweep(env, E)


def replay(rec):
    """re-run a recorded failing input on the current tree"""
    import json
    f = rec.get("failure")
    if not f:
        print(json.dumps(rec, ensure_ascii=False, indent=1)[:4000])
        return 0
    inp = f["input"]
    V.import_repo()
    namespace()
    import vyxal.elements as E
    if inp.get("kind") == "element-alias" and inp["key"] in E.elements:
        r = run_alias((E.elements[inp["key"]][0], _tup(inp["args"])))
        print(f"element {inp['key']!r} template {E.elements[inp['key']][0]!r} args {inp['args']} with aliases of the list arguments below them:")
        print(" ", r)
        print("still failing" if r["viol"] else "no longer failing")
        return 1 if r["viol"] else 0
    if inp.get("kind") == "element-sequence":
        first = inp["first"]
        seconds = [(k, E.elements[k][0], E.elements[k][1], _tup(a)) for k, a in inp["then"] if k in E.elements]
        if first not in E.elements or len(seconds) != len(inp["then"]):
            print("an element of the sequence no longer exists")
            return 0
        r = _run_sequence(E.elements[first][0], _tup(inp["first_args"]), seconds)
        print(f"sequence: {first!r} on {inp['first_args']}, then " + ", ".join(f"{k!r} on {a}" for k, a in inp["then"]))
        print(" ", r)
        print("still failing" if r else "no longer failing")
        return 1 if r else 0
    if inp.get("kind") in ("modifier", "modifier-alias"):
        print("modifier cases are replayed by ./check C09 (the program text is not recorded); recorded failure:")
        print(f["what"])
        return 1
    key = inp["key"]
    if key not in E.elements:
        print(f"element {key!r} no longer exists")
        return 0
    args = _tup(inp["args"])
    with contextlib.redirect_stdout(io.StringIO()):
        a = run_once(E.elements[key][0], PREFIX_A, args)
        b = run_once(E.elements[key][0], PREFIX_B, args)
    print(f"element {key!r} template {E.elements[key][0]!r} arity {E.elements[key][1]} args {args}")
    print(" over prefix A:", a)
    print(" over prefix B:", b)
    bad = a["viol"] or b["viol"] or (a["exc"], a["res"]) != (b["exc"], b["res"])
    print("still failing" if bad else "no longer failing")
    return 1 if bad else 0


def _tup(x):
    """json lists back to the tuple specs build() expects"""
    if isinstance(x, list) and x and isinstance(x[0], str) and x[0] in ("int", "sint", "rat", "str", "list", "lazy", "fn"):
        if x[0] in ("list", "lazy"):
            return (x[0], [_tup(y) for y in x[1]])
        return tuple(x)
    if isinstance(x, list):
        return [_tup(y) for y in x]
    return x
