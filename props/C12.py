"""C12 — interpreter context is balanced after every construct.

Deciding method: theorems in coq/Properties/C12.v about the effect-tree model of the
emitted code (Model/Books.v): a balance analysis proved sound for a nondeterministic
semantics (any branch, any number of iterations), and proved to accept the code emitted
for every program tree whose early exits stand where exit_ok allows; plus the obligation,
re-read from the sources on every run, that nothing outside the structure templates changes
the depth of the four lists.  Ties: exact text (Model/Transpile.v) and the effect tree that
Python's own ast extracts from transpile()'s output = effects_source.  The oracle runs
programs, and every prefix of their top-level statements, and compares the four depths."""
from __future__ import annotations

import contextlib
import io

from vlib import bookscorr, common as V
from vlib import parsecorr, progs, transcorr

BASE = [1, 1, 2, 0]


def run_prefixes(item):
    """exec the transpiled code of every prefix of the top-level statements on a fresh
    context prepared as execute_vyxal does; returns list of (k, depths | error class)"""
    src, inputs = item
    from vyxal.context import Context
    from vyxal.lexer import tokenise
    from vyxal.parse import parse
    from vyxal.transpile import transpile_ast
    import vyxal.main as M
    try:
        tree = parse(tokenise(src))
    except (IndexError, ValueError, AssertionError):
        return None
    out = []
    ks = list(range(1, len(tree) + 1))[-4:] if len(tree) > 4 else list(range(1, len(tree) + 1))
    for k in ks:
        ctx = Context()
        stack = []
        ctx.inputs[0][0] = list(inputs)
        ctx.stacks.append(stack)
        ctx.stacks.append(stack)
        try:
            code = transpile_ast(tree[:k], dict_compress=False)
            compile(code, "<vy>", "exec")
        except Exception as e:  # noqa: BLE001
            out.append((k, "transpile:" + type(e).__name__))
            continue
        buf = io.StringIO()
        try:
            with contextlib.redirect_stdout(buf):
                exec(code, vars(M) | {"stack": stack, "ctx": ctx})
        except SystemExit:
            out.append((k, "exit"))
            continue
        except RecursionError:
            out.append((k, "error:RecursionError"))
            continue
        except Exception as e:  # noqa: BLE001
            out.append((k, "error:" + type(e).__name__))
            continue
        d = [len(ctx.context_values), len(ctx.inputs), len(ctx.stacks), len(ctx.function_stack)]
        top = ctx.context_values[-1] if ctx.context_values else None
        out.append((k, d if (d != BASE or top == 0) else d + ["context-top-not-initial"]))
    return out


def run(env):
    env.rule = ("programs from the core grammar with X / x at every position, lambdas, named functions, list literals, modifiers and "
                "lazy-list printing (depth <= 4) plus all token strings of length <= 3/4 over a 14-symbol structural alphabet; for each: the "
                "effect tree extracted by Python's ast from transpile()'s output vs effects_source, 'model says balanced => a terminating run is "
                "balanced', exact text; oracle: the four depths (and the top context value) after executing every prefix of the top-level "
                "statements. Non-trivial = the emitted code pushes or pops at least once; distinct by source.")
    V.import_repo()
    rng = env.rng
    g = progs.ProgGen(rng, elements=progs.SAFE_ELEMENTS + list("nɾ,…W"), with_while=False)
    gen = [progs.text(g.program(rng.randint(1, 4))) for _ in range(env.budget(1500, 6000))]
    seeds = ["3(X)n", "3(x)", "1{X}n", "5λX;†", "3ɾ,", "3(n2=[X])n", "3(n2=[x]n,)", "5λ2<[X]7;†", "1 2 3W(n,)", "(⟨X⟩)", "5λ⟨X⟩;†",
             "3(n[X|x])", "v+X", "λ(X);†", "@f:1|X;5@f;", "3(λX;†)", "₌+X", "3ɾ:,,", "3ƛ›;,", "5λ3(n2=[X]);†", "3(3(X)n,)", "2(3ɾ,)",
             "@f:1|3(X)n;5@f;n", "3(n,)n", "5 'X;", "3µX;", "⟨1|2|X⟩n", "[X|x]n", "3(λ2|X;)n"]
    # lambdas of every written arity (0 included: called with no argument at all) x an early exit at lambda level or
    # below an if / a loop x every way of calling them (dagger, inside a list literal on an empty / non-empty stack,
    # as a modifier operand) ...
    for ar in ("", "0|", "1|", "2|", "3|"):
        for body in ("1X", "X", "1 2X3", "n[X]", "1[X|2]", "3(X)", "x", "1x"):
            if body.endswith("x") and ar in ("", "1|", "2|", "3|"):
                continue                                  # unguarded recursion does not terminate
            lam = f"λ{ar}{body};"
            seeds += [f"{lam}†", f"4 5 6{lam}†n", f"⟨{lam}|2⟩,", f"7⟨{lam}|2⟩,n", f"3 4 v{lam}", f"⟨1|2⟩ƒ{lam}"]
    # ... and the same lazy list observed or printed more than once (a list that was walked to its end, then printed)
    for mk in ("3ƛ;", "3ɾ", "3ƛƛ1;;", "⟨1|2⟩›", "3ɾ'2%;"):
        seeds += [f"{mk}…,", f"{mk}:,,", f"{mk}→a ←a L_ ←a ,", f"{mk}£¥L_¥,¥,", f"{mk}:t_,", f"2({mk},)", f"{mk}…L_…,n"]
    # an early exit as the LAST statement of a body, with every modifier / shorthand lambda earlier at the same level (the parser then
    # records the modifier as the exit's parent), in every kind of body
    pc = env.tables["parser"]
    mods1, mods2, mods3 = pc["monadic_modifiers"], pc["dyadic_modifiers"], pc["triadic_modifiers"]
    for m in list(mods1) + list(mods2) + list(mods3):
        ops = "›" if m in mods1 else ("+-" if m in mods2 else "+-›")
        mtxt = f"1 2 3 {m}{ops} _" if m not in "⁽‡≬" else f"{m}{ops} _"
        for ex in ("X", "x"):
            for body in (f"n {mtxt} {ex}", f"{mtxt} n2=[{ex}]", f"{mtxt} {ex} 1"):
                seeds += [f"3({body})n", f"3({body})", f"2(2({body})n,)n"]
                if ex == "X":
                    seeds += [f"1{{{body}}}n", f"5λ{body};†n", f"3ƛ{body};n", f"@f:1|{body};5@f;n"]
    # structures written with more branches than the usual form (several loop names, extra condition / parameter branches), run for
    # zero, one and several iterations, followed by a top-level context read
    for n in ("0", "1", "3"):
        for body in ("n", "n,", "X", "n2=[x]"):
            seeds += [f"{n}(i|j|{body})n", f"{n}(i|j|k|{body})n", f"{n}(a|{body})n", f"2({n}(i|j|{body}))n"]
    seeds += ["3{1|2|X}n", "2λ1|2|n;†n", "@f:a|b|n;3@f;n", "[1|2|3|4|5]n", "3ƛ1|2|n;n", "⟨1|2⟩(i|j|n,)n", "`ab`(i|j|n)n"]
    seeds = list(dict.fromkeys(seeds))
    exhaustive = list(parsecorr.exhaustive(env.budget(3, 4)))
    transcorr.check(env, seeds + gen[: env.budget(400, 3000)])
    gw = progs.ProgGen(rng)
    static_only = [progs.text(gw.program(rng.randint(1, 4))) for _ in range(env.budget(1500, 12000))]
    bookscorr.check(env, seeds + gen + static_only + exhaustive, run_timeout=env.budget(3, 4), run_only=seeds + gen[: env.budget(700, 3000)])
    # oracle
    items = [(s, [3, 4]) for s in dict.fromkeys(seeds + gen)]
    res = V.pmap(run_prefixes, items, timeout=env.budget(5, 6))
    stats = {"balanced": 0, "error_or_exit": 0, "timeout": 0, "ill_formed": 0, "prefixes": 0}
    nontrivial = []
    for (s, _), (st, r) in zip(items, res):
        if st == "timeout":
            stats["timeout"] += 1
            continue
        if st != "ok":
            env.fail({"program": s}, f"harness failure: {r}")
            continue
        if r is None:
            stats["ill_formed"] += 1
            continue
        for k, d in r:
            stats["prefixes"] += 1
            if isinstance(d, str):
                stats["error_or_exit"] += 1
                continue
            if d != BASE:
                env.fail({"program": s, "top_level_statements": k}, f"depths (context_values, inputs, stacks, function_stack) = {d}, expected {BASE}")
            else:
                stats["balanced"] += 1
        if any(c in s for c in "(λƛ'µ{@⟨"):
            nontrivial.append("run:" + s)
    env.count(stats["prefixes"], nontrivial)
    env.note("oracle_runs", stats)
    for s in seeds[:4]:
        env.sample({"program": s})
    env.sample({"obligation": "C12_balanced: forallb (exit_ok false false) l = true -> balanced (effects_program l) = true"})
    env.assume("calls into lambdas / named functions / list items are neutral because every def body is balanced (C12_defs_balanced); exceptions and non-termination are outside 'finishes normally'")
    env.assume("the effect tree, text, parser and lexer models equal the implementation (checked by correspondence); CPython's execution of the block tree follows the nondeterministic semantics exec1/execl")
    env.assume("exit_ok excludes an early exit in a while condition (SyntaxError, known finding of C02) and annotations the parser never produces")
