(* Proofs for property C10: the mutation-summary fixed point (monotone, a fixed point, the
   least one, sound for the summary semantics) and the heap semantics of the duplicating
   templates (non-mutating operations keep what every reference denotes; the in-place
   primitives do not). *)
From Coq Require Import List NArith ZArith Bool Arith Lia ZifyBool.
From Vy Require Import Model.Base Model.LazyList Model.Effects Proofs.LazyListProofs.
Import ListNotations.
Open Scope nat_scope.

(* ================= Part 1: the fixed point ================= *)
Definition fle (s t : flags) : Prop := Forall2 (fun a b : bool => a = true -> b = true) s t.

Lemma fle_refl s : fle s s.
Proof. induction s; constructor; auto. Qed.

Lemma fle_trans s t r : fle s t -> fle t r -> fle s r.
Proof.
  intros H; revert r; induction H as [|a b s t Hab Hst IH]; intros r Hr; inversion Hr; subst; constructor.
  - intro Ha. auto.
  - apply IH. assumption.
Qed.

Lemma fle_length s t : fle s t -> length s = length t.
Proof. induction 1; simpl; congruence. Qed.

Lemma fle_nth s t : fle s t -> forall i, nth i s false = true -> nth i t false = true.
Proof.
  induction 1 as [|a b s t Hab Hst IH]; intros i Hi; [destruct i; discriminate|].
  destruct i as [|i]; simpl in *; auto.
Qed.

Lemma flag_at_mono s t j : fle s t -> flag_at s j = true -> flag_at t j = true.
Proof. unfold flag_at. intros H. apply fle_nth. exact H. Qed.

Lemma node_step_mono s t nd : fle s t -> node_step s nd = true -> node_step t nd = true.
Proof.
  unfold node_step. intros H Hs. apply orb_true_iff in Hs as [Hd|He]; apply orb_true_iff; [left; exact Hd|right].
  apply existsb_exists in He as (j & Hj & Hf). apply existsb_exists. exists j. split; [exact Hj|].
  eapply flag_at_mono; eauto.
Qed.

(* the iteration is monotone *)
Lemma mstep_mono nodes s t : fle s t -> fle (mstep nodes s) (mstep nodes t).
Proof.
  intro H. unfold mstep. induction nodes as [|nd nodes IH]; simpl; constructor; [|exact IH].
  apply node_step_mono. exact H.
Qed.

Lemma mstep_length nodes s : length (mstep nodes s) = length nodes.
Proof. unfold mstep. apply map_length. Qed.

Lemma mbot_length nodes : length (mbot nodes) = length nodes.
Proof. unfold mbot. apply map_length. Qed.

Lemma mbot_least nodes : forall t, length t = length nodes -> fle (mbot nodes) t.
Proof.
  unfold mbot. induction nodes as [|nd nodes IH]; intros [|b t] H; simpl in *; try discriminate; constructor.
  - discriminate.
  - apply IH. lia.
Qed.

Lemma flags_eqb_eq a b : flags_eqb a b = true <-> a = b.
Proof.
  revert b; induction a as [|x a IH]; intros [|y b]; simpl; split; intro H; try reflexivity; try discriminate.
  - apply andb_true_iff in H as [H1 H2]. apply eqb_prop in H1. apply IH in H2. congruence.
  - inversion H; subst. rewrite eqb_reflx. simpl. apply IH. reflexivity.
Qed.

Fixpoint count (s : flags) : nat :=
  match s with [] => 0 | b :: r => (if b then 1 else 0) + count r end.

Lemma count_le s : count s <= length s.
Proof. induction s as [|b s IH]; simpl; [lia|]. destruct b; lia. Qed.

Lemma fle_count s t : fle s t -> count s <= count t.
Proof.
  induction 1 as [|a b s t Hab Hst IH]; simpl; [lia|].
  destruct a, b; try lia; specialize (Hab eq_refl); discriminate.
Qed.

Lemma fle_strict s t : fle s t -> s <> t -> count s < count t.
Proof.
  induction 1 as [|a b s t Hab Hst IH]; intro Hne; [congruence|]. simpl.
  pose proof (fle_count s t Hst) as Hc.
  destruct a, b; try (specialize (Hab eq_refl); discriminate).
  - assert (s <> t) as H by (intro E; apply Hne; congruence). specialize (IH H). lia.
  - lia.
  - assert (s <> t) as H by (intro E; apply Hne; congruence). specialize (IH H). lia.
Qed.

Lemma count_mbot nodes : count (mbot nodes) = 0.
Proof. unfold mbot. induction nodes; simpl; auto. Qed.

(* enough fuel: every round that is not the last one sets at least one more flag *)
Lemma miter_fixed nodes : forall fuel s, length s = length nodes -> fle s (mstep nodes s) ->
  length nodes < fuel + count s -> mstep nodes (miter fuel nodes s) = miter fuel nodes s.
Proof.
  induction fuel as [|fuel IH]; intros s Hl Hinc Hf.
  - pose proof (count_le s). lia.
  - simpl. destruct (flags_eqb (mstep nodes s) s) eqn:E.
    + apply flags_eqb_eq in E. exact E.
    + apply IH.
      * apply mstep_length.
      * apply mstep_mono. exact Hinc.
      * assert (s <> mstep nodes s) as Hne.
        { intro H. assert (flags_eqb (mstep nodes s) s = true) as X by (apply flags_eqb_eq; congruence).
          congruence. }
        pose proof (fle_strict _ _ Hinc Hne). lia.
Qed.

Lemma mlfp_fixed nodes : mstep nodes (mlfp nodes) = mlfp nodes.
Proof.
  unfold mlfp. apply miter_fixed.
  - apply mbot_length.
  - apply mbot_least. apply mstep_length.
  - rewrite count_mbot. lia.
Qed.

Lemma miter_length nodes : forall fuel s, length s = length nodes -> length (miter fuel nodes s) = length nodes.
Proof.
  induction fuel as [|fuel IH]; intros s H; simpl; [exact H|].
  destruct (flags_eqb (mstep nodes s) s); [exact H|]. apply IH. apply mstep_length.
Qed.

Lemma mlfp_length nodes : length (mlfp nodes) = length nodes.
Proof. unfold mlfp. apply miter_length. apply mbot_length. Qed.

(* the chain only grows *)
Lemma miter_increasing nodes : forall fuel s, fle s (mstep nodes s) -> fle s (miter fuel nodes s).
Proof.
  induction fuel as [|fuel IH]; intros s H; simpl; [apply fle_refl|].
  destruct (flags_eqb (mstep nodes s) s); [apply fle_refl|].
  eapply fle_trans; [exact H|]. apply IH. apply mstep_mono. exact H.
Qed.

(* and stays below every set that is closed under the rule: the result is the LEAST one *)
Lemma miter_least nodes t : fle (mstep nodes t) t ->
  forall fuel s, fle s t -> fle (miter fuel nodes s) t.
Proof.
  intros Ht. induction fuel as [|fuel IH]; intros s H; simpl; [exact H|].
  destruct (flags_eqb (mstep nodes s) s); [exact H|]. apply IH.
  eapply fle_trans; [apply mstep_mono; exact H|exact Ht].
Qed.

Lemma mlfp_least nodes t : length t = length nodes -> fle (mstep nodes t) t -> fle (mlfp nodes) t.
Proof. intros Hl Ht. unfold mlfp. apply miter_least; [exact Ht|]. apply mbot_least. exact Hl. Qed.

(* closed under the rule *)
Definition closed (nodes : list mnode) (s : flags) : Prop :=
  forall v nd, node_of nodes v = Some nd -> node_step s nd = true -> flag_at s v = true.

Lemma nth_map_error {A} (f : A -> bool) : forall (l : list A) i x,
  nth_error l i = Some x -> nth i (map f l) false = f x.
Proof.
  induction l as [|y l IH]; intros [|i] x H; simpl in *; try discriminate.
  - inversion H; reflexivity.
  - apply IH. exact H.
Qed.

Lemma fixed_closed nodes s : mstep nodes s = s -> closed nodes s.
Proof.
  intros H v nd Hn Hs. rewrite <- H. unfold flag_at, mstep.
  rewrite (nth_map_error _ _ _ _ Hn). exact Hs.
Qed.

Lemma mlfp_closed nodes : closed nodes (mlfp nodes).
Proof. apply fixed_closed. apply mlfp_fixed. Qed.

(* ---- the summary semantics ---------------------------------------------------------- *)
Fixpoint exec_ind' (P : exec -> Prop)
  (H : forall v m cs, Forall P cs -> P (Exec v m cs)) (e : exec) : P e :=
  match e with
  | Exec v m cs =>
    H v m cs ((fix go (l : list exec) : Forall P l :=
                 match l with
                 | [] => Forall_nil P
                 | x :: r => Forall_cons x (exec_ind' P H x) (go r)
                 end) cs)
  end.

Lemma memN_In x l : memN x l = true -> In x l.
Proof.
  induction l as [|y l IH]; simpl; [discriminate|]. intro H. apply orb_true_iff in H as [H|H].
  - left. apply N.eqb_eq in H. congruence.
  - right. apply IH. exact H.
Qed.

Lemma existsb_false_In {A} (f : A -> bool) l : existsb f l = false -> forall x, In x l -> f x = false.
Proof.
  intros H x Hx. destruct (f x) eqn:E; [|reflexivity].
  assert (existsb f l = true) as X by (apply existsb_exists; exists x; auto). congruence.
Qed.

(* no flag at the root: no mutation event anywhere in the execution, whatever its depth *)
Lemma closure_sound nodes s : closed nodes s ->
  forall e, valid_exec nodes e = true -> flag_at s (root e) = false -> mutations e = 0.
Proof.
  intros Hc. induction e as [v m cs IH] using exec_ind'. intros Hv Hf. simpl in Hv, Hf.
  destruct (node_of nodes v) as [nd|] eqn:Hn; [|discriminate].
  apply andb_true_iff in Hv as [Hm Hcs].
  assert (node_step s nd = false) as Hs.
  { destruct (node_step s nd) eqn:E; [|reflexivity]. rewrite (Hc v nd Hn E) in Hf. discriminate. }
  unfold node_step in Hs. apply orb_false_iff in Hs as [Hd He]. rewrite Hd, orb_false_r in Hm.
  apply Nat.eqb_eq in Hm. subst m. simpl.
  induction cs as [|c cs IHcs]; simpl; [reflexivity|].
  inversion IH as [|? ? Pc Pcs]; subst. simpl in Hcs. apply andb_true_iff in Hcs as [Hc1 Hcs].
  apply andb_true_iff in Hc1 as [Hmem Hvc].
  rewrite (Pc Hvc); [|apply (existsb_false_In _ _ He); apply memN_In; exact Hmem].
  simpl. apply IHcs; assumption.
Qed.

Lemma may_mutate_sound nodes : forall e, valid_exec nodes e = true ->
  may_mutate nodes (root e) = false -> mutations e = 0.
Proof. intros e Hv Hf. eapply closure_sound; [apply mlfp_closed|exact Hv|exact Hf]. Qed.

(* the rule itself, as an equation on the result *)
Lemma may_mutate_rule nodes v nd : node_of nodes v = Some nd ->
  may_mutate nodes v = mn_direct nd || existsb (may_mutate nodes) (mn_calls nd).
Proof.
  intro Hn. unfold may_mutate. rewrite <- (mlfp_fixed nodes) at 1. unfold flag_at at 1, mstep.
  rewrite (nth_map_error _ _ _ _ Hn). reflexivity.
Qed.

(* non-vacuity: a three-function summary  f(x) -> g(y) -> h(z) with a site in h, k clean *)
Definition ex_nodes : list mnode :=
  [ {| mn_fn := [102]%N; mn_pos := 0%N; mn_direct := false; mn_calls := [1]%N |};
    {| mn_fn := [103]%N; mn_pos := 0%N; mn_direct := false; mn_calls := [2; 1]%N |};
    {| mn_fn := [104]%N; mn_pos := 0%N; mn_direct := true;  mn_calls := [] |};
    {| mn_fn := [107]%N; mn_pos := 0%N; mn_direct := false; mn_calls := [3]%N |} ].
Definition ex_exec_bad : exec := Exec 0%N 0 [Exec 1%N 0 [Exec 1%N 0 []; Exec 2%N 2 []]].
Definition ex_exec_clean : exec := Exec 3%N 0 [Exec 3%N 0 [Exec 3%N 0 []]; Exec 3%N 0 []].

Lemma example_summary :
  mlfp ex_nodes = [true; true; true; false] /\
  valid_exec ex_nodes ex_exec_bad = true /\ mutations ex_exec_bad = 2 /\ may_mutate ex_nodes 0%N = true /\
  valid_exec ex_nodes ex_exec_clean = true /\ may_mutate ex_nodes (root ex_exec_clean) = false /\
  mutations ex_exec_clean = 0 /\
  valid_exec ex_nodes (Exec 3%N 1 []) = false.
Proof. vm_compute. repeat split; reflexivity. Qed.

(* ================= Part 2: the heap semantics ================= *)
Open Scope Z_scope.

Lemma length_upd {A} : forall (l : list A) i x, length (upd l i x) = length l.
Proof. induction l as [|y l IH]; intros [|i] x; simpl; auto. Qed.

Lemma nth_error_upd_same {A} : forall (l : list A) i x, (i < length l)%nat -> nth_error (upd l i x) i = Some x.
Proof.
  induction l as [|y l IH]; intros [|i] x H; simpl in *; try lia; [reflexivity|]. apply IH. lia.
Qed.

Lemma nth_error_upd_other {A} : forall (l : list A) i j x, i <> j -> nth_error (upd l i x) j = nth_error l j.
Proof.
  induction l as [|y l IH]; intros [|i] [|j] x H; simpl; try reflexivity; try congruence.
  apply IH. congruence.
Qed.

Lemma skipn_nth_error (l : list Z) : forall p v, nth_error l p = Some v -> skipn p l = v :: skipn (S p) l.
Proof.
  induction l as [|y l IH]; intros [|p] v H; simpl in *; try discriminate.
  - inversion H; reflexivity.
  - apply IH. exact H.
Qed.

Definition cden (k : nat) (st : state) : list Z := rden st (RCopy k).
Definition cgood (k : nat) (st : state) : Prop := (k < length (copies st))%nat.
Definition Rc (st st' : state) : Prop :=
  objs st' = objs st /\ lz st' = lz st /\ length (copies st') = length (copies st) /\
  forall j, rden st' (RCopy j) = rden st (RCopy j).

Lemma Rc_refl st : Rc st st.
Proof. split; [reflexivity|]. split; [reflexivity|]. split; [reflexivity|]. intro j. reflexivity. Qed.

Lemma Rc_trans a b c : Rc a b -> Rc b c -> Rc a c.
Proof.
  intros (A1 & A2 & A3 & A4) (B1 & B2 & B3 & B4).
  split; [congruence|]. split; [congruence|]. split; [congruence|].
  intro j. rewrite B4. apply A4.
Qed.

Lemma set_copy_R st k c c' : nth_error (copies st) k = Some c ->
  copy_den (objs st) c' = copy_den (objs st) c -> Rc st (set_copy st k c').
Proof.
  intros Hk Hd. assert (k < length (copies st))%nat as Hl by (apply nth_error_Some; congruence).
  unfold set_copy. repeat split; simpl.
  - apply length_upd.
  - intro j. destruct (Nat.eq_dec k j) as [->|Hne].
    + rewrite nth_error_upd_same by exact Hl. rewrite Hk. exact Hd.
    + rewrite nth_error_upd_other by exact Hne. reflexivity.
Qed.

Lemma copy_cursor k : Cursor (cnext k) (cgen k) (cden k) (cgood k) Rc.
Proof.
  constructor.
  - apply Rc_refl.
  - apply Rc_trans.
  - intros s s' G (_ & _ & L & _). unfold cgood in *. lia.
  - intros s s' (_ & _ & _ & H). apply H.
  - intros s G. unfold cgood in G. unfold cden, cgen. simpl.
    destruct (nth_error (copies s) k) as [c|] eqn:E; [|apply nth_error_None in E; lia].
    unfold copy_den. eexists. reflexivity.
  - intros s G. unfold cgood in G. unfold cnext, cden, cgen. simpl.
    destruct (nth_error (copies s) k) as [c|] eqn:E; [|apply nth_error_None in E; lia].
    unfold copy_den. destruct (ec_done c) eqn:Ed.
    + exists None, s. split; [reflexivity|]. split; [apply Rc_refl|]. split.
      * symmetry. apply nth_error_None. rewrite app_nil_r. lia.
      * rewrite E. simpl. rewrite app_nil_r. reflexivity.
    + unfold obj_of. destruct (nth_error (nth (ec_obj c) (objs s) []) (ec_pos c)) as [v|] eqn:Ev.
      * eexists (Some v), _. split; [reflexivity|]. split; [|split].
        -- eapply set_copy_R; [exact E|]. unfold copy_den. simpl. rewrite Ed.
           rewrite (skipn_nth_error _ _ _ Ev), <- app_assoc. reflexivity.
        -- rewrite nth_error_app2, Nat.sub_diag by lia. rewrite (skipn_nth_error _ _ _ Ev). reflexivity.
        -- simpl. rewrite nth_error_upd_same by exact G. reflexivity.
      * eexists None, _. split; [reflexivity|]. split; [|split].
        -- eapply set_copy_R; [exact E|]. unfold copy_den. simpl. rewrite Ed.
           apply nth_error_None in Ev. rewrite skipn_all2 by exact Ev. reflexivity.
        -- apply nth_error_None in Ev. rewrite skipn_all2 by exact Ev. symmetry. apply nth_error_None.
           rewrite app_nil_r. lia.
        -- simpl. rewrite nth_error_upd_same by exact G. simpl. rewrite app_nil_r. reflexivity.
Qed.

Ltac cfinish L :=
  let s' := fresh "s'" in let E := fresh "E" in let R := fresh "R" in
  destruct L as (s' & E & R); rewrite E; cbn [retS fst snd];
  split; [reflexivity|first [exact R|exact (proj1 R)]].

(* an observation of a copy cell returns what the plain list returns and keeps every
   reference's denotation, the eager objects and the lazy heap *)
Lemma cobs_ok k w st : cgood k st -> eop_ok (ECObs k w) = true ->
  mask w (fst (cobs k w st)) = spec w (cden k st) /\ Rc st (snd (cobs k w st)).
Proof.
  intros G Hok. pose proof (copy_cursor k) as C.
  assert (length (cden k st) < S (length (rden st (RCopy k))))%nat as Hf by (unfold cden; lia).
  unfold cobs. simpl in Hok.
  destruct w as [i|a b s| | | |x|l|l|x| | | |i| ]; unfold mask, spec.
  - destruct (i <? 0) eqn:Ei.
    + cfinish (index_neg_ok _ _ _ _ _ _ C _ i st G Hf).
    + cfinish (index_nonneg_ok _ _ _ _ _ _ C i st G ltac:(lia)).
  - assert (s <> Some 0) as Hs.
    { intro E; subst s. simpl in Hok. discriminate. }
    cfinish (getitem_slice_ok _ _ _ _ _ _ C _ a b s st G Hf Hs).
  - cfinish (len_ok _ _ _ _ _ _ C _ st G Hf).
  - cfinish (iterate_ok _ _ _ _ _ _ C _ st G Hf).
  - cfinish (truth_ok _ _ _ _ _ _ C st G).
  - cfinish (contains_ok _ _ _ _ _ _ C _ x st G Hf).
  - cfinish (eq_list_ok _ _ _ _ _ _ C _ l st G Hf).
  - cfinish (eq_list_ok _ _ _ _ _ _ C _ l st G Hf).
  - cfinish (count_ok _ _ _ _ _ _ C _ x st G Hf).
  - cfinish (reversed_ok _ _ _ _ _ _ C _ st G Hf).
  - simpl. split; [reflexivity|apply Rc_refl].
  - cfinish (listify_ok _ _ _ _ _ _ C _ st G Hf).
  - cfinish (has_ind_ok _ _ _ _ _ _ C i st G).
  - destruct (cur_next _ _ _ _ _ C st G) as (r & s' & E & R & _). rewrite E.
    destruct r; simpl; (split; [reflexivity|exact R]).
Qed.

(* what a non-mutating step guarantees *)
Definition eframe (st st' : state) : Prop :=
  swf st' /\ objs st' = objs st /\
  forall r, rvalid st r -> rvalid st' r /\ rden st' r = rden st r.

Lemma eframe_refl st : swf st -> eframe st st.
Proof. intro W. split; [exact W|]. split; [reflexivity|]. intros r H. split; [exact H|reflexivity]. Qed.

Lemma eframe_trans a b c : eframe a b -> eframe b c -> eframe a c.
Proof.
  intros (_ & O1 & F1) (W2 & O2 & F2). split; [exact W2|]. split; [congruence|].
  intros r H. destruct (F1 r H) as [V1 D1]. destruct (F2 r V1) as [V2 D2]. split; [exact V2|congruence].
Qed.

Lemma Rc_eframe st st' : swf st -> Rc st st' -> eframe st st'.
Proof.
  intros W (O & L & N & D). split; [unfold swf; rewrite L; exact W|]. split; [exact O|].
  intros [o|k|c] H; simpl in *.
  - rewrite O. split; [exact H|]. unfold obj_of. rewrite O. reflexivity.
  - split; [lia|]. apply (D k).
  - rewrite L. split; [exact H|reflexivity].
Qed.

Lemma estep_frame st e : swf st -> mutating e = false -> eop_ok e = true -> eframe st (snd (estep st e)).
Proof.
  intros W Hm Hok. destruct e as [o|k w|o|o|o i v|o v|c i v]; simpl in Hm; try discriminate; simpl estep.
  - (* an observation of C13 *)
    destruct (lz st) as [|x h] eqn:Eh; [apply eframe_refl; exact W|].
    assert (wf (x :: h)) as Wh by (unfold swf in W; rewrite Eh in W; exact W).
    destruct (step_ok (x :: h) o Wh ltac:(discriminate) Hok) as (_ & W' & HL & Hold & _).
    simpl snd. split; [exact W'|]. split; [reflexivity|].
    intros [o'|k|c] H; simpl in *.
    + split; [exact H|reflexivity].
    + split; [exact H|reflexivity].
    + rewrite Eh in H. simpl in H. split; [simpl in HL; lia|]. rewrite Eh. apply Hold. exact H.
  - (* an observation of a copy cell *)
    destruct (Nat.ltb k (length (copies st))) eqn:Ek; [|apply eframe_refl; exact W].
    apply Nat.ltb_lt in Ek. apply Rc_eframe; [exact W|]. apply (cobs_ok k w st Ek Hok).
  - apply eframe_refl. exact W.
  - (* duplicate an eager list *)
    simpl. split; [exact W|]. split; [reflexivity|].
    intros [o'|k|c] H; simpl in *.
    + split; [exact H|reflexivity].
    + rewrite app_length. simpl. split; [lia|]. rewrite nth_error_app1 by exact H. reflexivity.
    + split; [exact H|reflexivity].
Qed.

Definition nonmut (e : eop) : Prop := mutating e = false /\ eop_ok e = true.

Lemma erun_frame : forall es st, swf st -> Forall nonmut es -> eframe st (erun st es).
Proof.
  induction es as [|e es IH]; intros st W F; simpl; [apply eframe_refl; exact W|].
  inversion F as [|? ? [Hm Hok] Fr]; subst.
  pose proof (estep_frame st e W Hm Hok) as F1.
  eapply eframe_trans; [exact F1|]. apply IH; [exact (proj1 F1)|exact Fr].
Qed.

(* an eager list object changes only under an operation flagged as mutating *)
Lemma eager_only_flagged st e : swf st -> mutating e = false -> eop_ok e = true ->
  objs (snd (estep st e)) = objs st.
Proof. intros W Hm Hok. apply (estep_frame st e W Hm Hok). Qed.

(* the new reference made by `:` denotes what the original denotes *)
Lemma dup_ok st r st1 r' : swf st -> rvalid st r -> dup st r = Some (st1, r') ->
  eframe st st1 /\ rvalid st1 r' /\ rden st1 r' = rden st r.
Proof.
  intros W V H. destruct r as [o|k|c]; simpl in H; try discriminate.
  - inversion H; subst. split; [apply (estep_frame st (EDup o) W); reflexivity|].
    simpl. rewrite app_length. simpl. split; [lia|].
    rewrite nth_error_app2, Nat.sub_diag by lia. simpl. unfold copy_den, new_copy, obj_of. reflexivity.
  - destruct (lz st) as [|x h] eqn:Eh; [discriminate|]. inversion H; subst. clear H.
    split.
    { pose proof (estep_frame st (EObs {| target := c; what := KCopy |}) W eq_refl eq_refl) as F.
      simpl estep in F. rewrite Eh in F. exact F. }
    simpl in V. rewrite Eh in V. simpl. unfold step. simpl what. simpl target.
    unfold resolve. apply Nat.ltb_lt in V. rewrite V. simpl snd. unfold deep_copy.
    split; [simpl; lia|]. simpl. rewrite Nat.eqb_refl. simpl.
    apply Nat.ltb_lt in V. rewrite Eh. simpl. reflexivity.
Qed.

(* C10_copy: duplicate, then run any non-mutating operations on any references *)
Lemma copy_kept st r st1 r' es : swf st -> rvalid st r -> dup st r = Some (st1, r') ->
  Forall nonmut es ->
  rden (erun st1 es) r = rden st r /\ rden (erun st1 es) r' = rden st r.
Proof.
  intros W V D F. destruct (dup_ok st r st1 r' W V D) as ((W1 & _ & F1) & V' & D').
  destruct (F1 r V) as [V1 D1].
  destruct (erun_frame es st1 W1 F) as (_ & _ & F2).
  destruct (F2 r V1) as [_ E1]. destruct (F2 r' V') as [_ E2]. split; congruence.
Qed.

(* `D`: stack.append(top); stack.append(deep_copy(top)); stack.append(deep_copy(top)) *)
Lemma triplicate_kept st r st1 r1 st2 r2 es : swf st -> rvalid st r ->
  dup st r = Some (st1, r1) -> dup st1 r = Some (st2, r2) -> Forall nonmut es ->
  rden (erun st2 es) r = rden st r /\ rden (erun st2 es) r1 = rden st r /\ rden (erun st2 es) r2 = rden st r.
Proof.
  intros W V D1 D2 F. destruct (dup_ok st r st1 r1 W V D1) as ((W1 & _ & F1) & V1' & E1).
  destruct (F1 r V) as [V1 Dr].
  destruct (dup_ok st1 r st2 r2 W1 V1 D2) as ((W2 & _ & F2) & V2' & E2).
  destruct (F2 r V1) as [V2 Dr2]. destruct (F2 r1 V1') as [V21 Dr1].
  destruct (erun_frame es st2 W2 F) as (_ & _ & F3).
  destruct (F3 r V2) as [_ A]. destruct (F3 r1 V21) as [_ B]. destruct (F3 r2 V2') as [_ C].
  repeat split; congruence.
Qed.

(* ---- witnesses -------------------------------------------------------------------------- *)
(* facts about the model's in-place primitives (what WOULD happen if code applied them to an
   object another reference reads; before /repo 04249bb Ȧ and Ḟ did, today ⅛ / ¼ do so to
   ctx.global_array, which is why ¾ materialises its copy).
   The copy made by `:` reads the list object: an assignment into it shows through *)
Definition st_eager (l : list Z) : state := {| objs := [l]; copies := []; lz := [] |}.
Definition st_lazy (l : list Z) : state := {| objs := []; copies := []; lz := init l |}.

Lemma assign_changes_copy :
  exists st r st1 r', swf st /\ rvalid st r /\ dup st r = Some (st1, r') /\
    rden st1 r' = [1; 2; 3] /\ rden (erun st1 [EAssign 0 0 9]) r' = [9; 2; 3].
Proof.
  exists (st_eager [1; 2; 3]), (REager 0), (snd (estep (st_eager [1; 2; 3]) (EDup 0))), (RCopy 0).
  vm_compute. repeat split; auto.
Qed.

(* l.append(x) on an object a lazy view still reads: the view grows.  This is `1⅛ ¾ 2⅛` with
   a ¾ that pushes deep_copy(ctx.global_array) without list(...) *)
Lemma append_changes_copy :
  exists st r st1 r', swf st /\ rvalid st r /\ dup st r = Some (st1, r') /\
    rden st1 r' = [1; 2] /\ rden (erun st1 [ECObs 0 (KIndex 0); EAppend 0 3; EAppend 0 5]) r' = [1; 2; 3; 5].
Proof.
  exists (st_eager [1; 2]), (REager 0), (snd (estep (st_eager [1; 2]) (EDup 0))), (RCopy 0).
  vm_compute. repeat split; auto.
Qed.

(* LazyList.__setitem__ on a lazy list that has a copy *)
Lemma setitem_changes_copy :
  exists st r st1 r', swf st /\ rvalid st r /\ dup st r = Some (st1, r') /\
    rden st1 r' = [1; 2; 3] /\ rden (erun st1 [ESetLazy 0 1 9]) r' = [1; 9; 3].
Proof.
  exists (st_lazy [1; 2; 3]), (RLazy 0), (snd (estep (st_lazy [1; 2; 3]) (EObs {| target := 0; what := KCopy |}))), (RLazy 1).
  vm_compute. repeat split; auto.
Qed.

(* ... while an item the copy has ALREADY cached is out of reach of a later assignment:
   the damage depends on the history, which is why no test sees it *)
Lemma assign_after_read_unseen :
  rden (erun (snd (estep (st_eager [1; 2; 3]) (EDup 0))) [ECObs 0 KListify; EAssign 0 0 9]) (RCopy 0) = [1; 2; 3].
Proof. vm_compute. reflexivity. Qed.

(* ... and the materialised snapshot list(deep_copy(l)) - a new eager object with the items of
   l - does not: object 1 is the snapshot of object 0, the view is copy cell 0 *)
Lemma snapshot_vs_view :
  let st := snd (estep {| objs := [[1]; [1]]; copies := []; lz := [] |} (EDup 0)) in
  rden (erun st [EAppend 0 2]) (REager 1) = [1] /\ rden (erun st [EAppend 0 2]) (RCopy 0) = [1; 2].
Proof. vm_compute. split; reflexivity. Qed.

(* non-vacuity of copy_kept: eager and lazy originals, observations on both references *)
Definition ex_es : list eop :=
  [ ECObs 0 (KIndex 1); ERead 0; ECObs 0 KLen; EDup 0; ECObs 1 KReversed; ECObs 0 (KSlice (Some (-2)) None None) ].
Definition ex_ls : list eop :=
  [ EObs {| target := 1; what := KIndex 4 |}; EObs {| target := 0; what := KLen |};
    EObs {| target := 1; what := KCopy |}; EObs {| target := 2; what := KReversed |} ].

Lemma example_copy :
  Forall nonmut ex_es /\ Forall nonmut ex_ls /\
  dup (st_eager [4; 5; 6]) (REager 0) = Some (snd (estep (st_eager [4; 5; 6]) (EDup 0)), RCopy 0) /\
  map (rden (erun (snd (estep (st_eager [4; 5; 6]) (EDup 0))) ex_es)) [REager 0; RCopy 0; RCopy 1]
    = [[4; 5; 6]; [4; 5; 6]; [4; 5; 6]] /\
  map (fun e => fst (estep (snd (estep (st_eager [4; 5; 6]) (EDup 0))) e)) [ECObs 0 (KIndex 1); ECObs 0 KReversed]
    = [OZ 5; OL [6; 5; 4]] /\
  map (rden (erun (snd (estep (st_lazy [7; 8]) (EObs {| target := 0; what := KCopy |}))) ex_ls)) [RLazy 0; RLazy 1; RLazy 2]
    = [[7; 8]; [7; 8]; [7; 8]].
Proof.
  split; [repeat constructor|]. split; [repeat constructor|]. vm_compute. repeat split; reflexivity.
Qed.
